#!/bin/bash
# Offline build of the development for every property claimed in MANIFEST.json: regenerate coq/Gen
# from /repo, full .vo build of the closure of each Props/<ID>.v, extracted models of each check.
set -e
cd "$(dirname "${BASH_SOURCE[0]}")"
export PYTHONPATH="/repo/src:$PWD" PYTHONHASHSEED=0 PYTHONDONTWRITEBYTECODE=1
/venv/bin/python - <<'PY'
import importlib, json, os, sys
from harness import framework as F
ok, info = F.regenerate()
print("regenerate:", ok, info if not ok else "")
if not ok:
    sys.exit(1)
man = json.load(open(os.path.join(F.VERIF, "MANIFEST.json")))
ids = [c["property_id"] for c in man["checks"]]
targets, models = [], []
for pid in ids:
    mod = importlib.import_module("harness.props." + pid.lower())
    chk = getattr(mod, pid)()
    targets.append(chk.props_file.replace(".v", ".vo"))
    for m in chk.models:
        if m not in models:
            models.append(m)
            targets.append(f"Model/{m}.vo")
with F.BuildLock():
    mok, out, cmd = F.coq_make(sorted(set(targets)), timeout=5400)
    print(out[-3000:])
    if not mok:
        sys.exit(1)
    for name in models:
        exe, err = F.build_model(name)
        print("model", name, "->", exe or err)
        if exe is None:
            sys.exit(1)
PY
