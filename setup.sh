#!/bin/bash
# Offline build of the whole development: regenerate coq/Gen from /repo, full .vo build, extracted models.
set -e
cd "$(dirname "${BASH_SOURCE[0]}")"
export PYTHONPATH="/repo/src:$PWD" PYTHONHASHSEED=0 PYTHONDONTWRITEBYTECODE=1
/venv/bin/python - <<'PY'
import glob, os, sys
from harness import framework as F
ok, info = F.regenerate()
print("regenerate:", ok, info if not ok else "")
with F.BuildLock():
    mok, out, cmd = F.coq_make(["all"], timeout=5400)
    print(out[-3000:])
    if not mok:
        sys.exit(1)
    for m in sorted(glob.glob(os.path.join(F.COQ, "Model", "*.v"))):
        name = os.path.basename(m)[:-2]
        text = open(m).read()
        if "Definition main " not in text:
            continue
        exe, err = F.build_model(name)
        print("model", name, "->", exe or err)
        if exe is None:
            sys.exit(1)
PY
