"""C16 -- H.264 / VP8 packetisation: correspondence with Model/H264.v and Model/Vp8.v, property oracle.

Case format (JSON lists, byte strings are lists of ints):
  ["h", 0, data]             H264PayloadDescriptor.parse(data)
  ["h", 1, [nal, ...]]       H264Encoder._packetize(nals), then h264 parse of every payload
  ["h", 2, buf, nals|None]   H264Encoder._split_bitstream(buf); nals = the units buf was built from (or None)
  ["h", 3, data]             H264Encoder._packetize_fu_a(data)
  ["h", 4, data, [nal, ...]] H264Encoder._packetize_stap_a(data, iter(nals))
  ["h", 5, data]             parse of every prefix of data (truncation at every offset)
  ["v", 0, data]             VpxPayloadDescriptor.parse(data)
  ["v", 1, descr]            bytes(VpxPayloadDescriptor(...)), then parse of the result
  ["v", 2, buffer, pid]      Vp8Encoder._packetize(buffer, pid), then parse of every payload
  ["v", 3, data]             parse of every prefix of data
"""
import json
import os
import subprocess
import tempfile

import harness.framework as fw
from harness.framework import Check, classify_exc


def _run_model_via_file(exe, cases_sx, timeout=1800):
    """Same contract as framework.run_model, but the cases reach the driver through a regular file:
    OCaml's input_line is ~10x slower on a pipe for the long lines (60000-byte buffers) used here."""
    os.makedirs(fw.WORK, exist_ok=True)
    with tempfile.NamedTemporaryFile("wb", dir=fw.WORK, prefix="c16_", suffix=".sx", delete=False) as fp:
        fp.write(("\n".join(cases_sx) + "\n").encode())
        path = fp.name
    try:
        with open(path, "rb") as inp:
            p = subprocess.run(["bash", "-c", f"ulimit -s unlimited 2>/dev/null; exec {exe}"], stdin=inp,
                               stdout=subprocess.PIPE, stderr=subprocess.PIPE, timeout=timeout)
    finally:
        os.unlink(path)
    lines = p.stdout.decode().splitlines()
    if p.returncode != 0 or len(lines) != len(cases_sx):
        raise RuntimeError(f"model driver failed rc={p.returncode} lines={len(lines)}/{len(cases_sx)}: "
                           + p.stderr.decode()[-500:])
    # s-expressions of integers -> JSON (same nesting), parsed by the C json module
    return [json.loads(l.replace("(", "[").replace(")", "]").replace(" ", ",")) for l in lines]


fw.run_model = _run_model_via_file

LIMIT = 1300          # the property's payload size limit (NOT read from the source)
SC4 = [0, 0, 0, 1]


# ---------------------------------------------------------------- generators
def rbytes(rng, n):
    return list(rng.randbytes(n))


def nal(rng, n, hdr=None, clean=False):
    """a NAL unit of n bytes: header with random F/NRI and type 1..23"""
    if n <= 0:
        return []
    if hdr is None:
        hdr = (rng.choice([0, 0, 0, 0x80]) | (rng.randrange(4) << 5) | rng.randrange(1, 24))
    if clean:
        body = [rng.randrange(1, 256) for _ in range(n - 1)]   # no zero bytes at all
        k = rng.random()
        if n >= 4 and k < 0.5:
            # zeros that do not form 00 00 01 / trailing 00 (emulation prevention keeps these apart)
            for _ in range(rng.randrange(1, 4)):
                j = rng.randrange(0, n - 2)
                body[j] = 0
            for j in range(len(body) - 1):
                if body[j] == 0 and body[j + 1] == 0:
                    body[j + 1] = 3
            if body and body[-1] == 0:
                body[-1] = 0x80
    else:
        mode = rng.random()
        if mode < 0.6 or n > 4000:
            body = rbytes(rng, n - 1)
        elif mode < 0.8:
            body = [rng.choice([0, 0, 1, 0xFF, 0x80]) for _ in range(n - 1)]
        else:
            body = [(i * 7 + n) & 0xFF for i in range(n - 1)]
    return [hdr] + body


def nal_size(rng):
    k = rng.random()
    if k < 0.22:
        return rng.randrange(2, 40)
    if k < 0.34:
        return rng.randrange(40, 1290)
    if k < 0.56:
        return rng.randrange(1290, 1306)                       # around PACKET_MAX / STAP budget
    if k < 0.76:
        m = rng.randrange(1, 6)
        return m * 1298 + 1 + rng.randrange(-3, 4)              # payload = multiple of the fragment size +-
    if k < 0.86:
        return rng.randrange(1306, 8000)
    if k < 0.90:
        return 2
    if k < 0.94:
        m = rng.randrange(6, 20)
        return m * 1298 + 1 + rng.randrange(-2, 3)
    if k < 0.95:
        m = rng.randrange(20, 47)
        return m * 1298 + 1 + rng.randrange(-2, 3)
    if k < 0.994:
        return rng.randrange(2, 1290)
    return rng.choice([60000, 59999, 60001, 65535, 65536, 65537])


def stap_group(rng):
    """2..11 small NAL sizes whose STAP-A encoding lands on / around the size budget"""
    k = rng.randrange(2, 12)
    target = LIMIT + rng.randrange(-3, 4)                      # 1 + sum(2 + len_i)
    budget = target - 1 - 2 * k
    if budget < 2 * k:
        return [rng.randrange(2, 20) for _ in range(k)]
    cuts = sorted(rng.randrange(0, budget - 2 * k + 1) for _ in range(k - 1))
    sizes = []
    prev = 0
    for c in cuts + [budget - 2 * k]:
        sizes.append(2 + c - prev)
        prev = c
    rng.shuffle(sizes)
    return sizes


def gen_nals(rng, clean=False):
    k = rng.random()
    sizes = []
    if k < 0.25:
        sizes = stap_group(rng)
        if rng.random() < 0.5:
            sizes += [nal_size(rng) for _ in range(rng.randrange(0, 3))]
    elif k < 0.35:
        sizes = [rng.randrange(2, 12) for _ in range(rng.randrange(8, 24))]      # counter < 9 limit
    elif k < 0.45:
        sizes = [nal_size(rng)]
    else:
        sizes = [nal_size(rng) for _ in range(rng.randrange(1, 16))]
        while len(sizes) > 1 and sum(sizes) > 30000:                             # keep the quick tier quick
            sizes.pop(rng.randrange(len(sizes)))
    return [nal(rng, n, clean=clean) for n in sizes]


def h264_payloads(rng):
    """valid payloads produced by the real packetiser (used as seeds of the malformed stream)"""
    from aiortc.codecs.h264 import H264Encoder
    nals = [bytes(nal(rng, n)) for n in
            (stap_group(rng)[:rng.randrange(2, 5)] if rng.random() < 0.6 else [rng.randrange(2, 30), 1400])]
    nals = [n[:rng.randrange(2, 12)] if len(n) < 1300 and rng.random() < 0.7 else n for n in nals]
    return [list(p) for p in H264Encoder._packetize(nals)]


def mutate(rng, data):
    data = list(data)
    k = rng.random()
    if k < 0.3 and data:
        return data[:rng.randrange(0, len(data) + 1)]
    if k < 0.55 and data:
        for _ in range(rng.randrange(1, 4)):
            j = rng.randrange(min(len(data), 8)) if rng.random() < 0.7 else rng.randrange(len(data))
            data[j] ^= 1 << rng.randrange(8)
        return data
    if k < 0.7 and len(data) >= 3:
        j = rng.randrange(1, min(len(data) - 1, 12))
        v = (data[j] << 8 | data[j + 1]) + rng.choice([-8, -2, -1, 1, 2, 8, 255, 65535])
        data[j], data[j + 1] = (v >> 8) & 0xFF, v & 0xFF
        return data
    if k < 0.85:
        return data + rbytes(rng, rng.randrange(1, 6))
    return rbytes(rng, rng.randrange(0, 24))


def stap_payload(rng):
    """a hand-built STAP-A payload (possibly with a zero-length or oversized unit)"""
    out = [24 | rng.choice([0, 0x20, 0x60, 0x80])]
    for _ in range(rng.randrange(0, 5)):
        n = rng.choice([0, 0, 1, 2, 3, 5, 9])
        out += [n >> 8, n & 0xFF] + rbytes(rng, n)
    return out


def gen_descr(rng, wild):
    def opt(v):
        return [] if rng.random() < 0.4 else [v]
    if not wild:
        pic = rng.choice([0, 1, 126, 127, 128, 129, 255, 256, 4660, 32766, 32767, rng.randrange(32768)])
        return [rng.randrange(2), rng.randrange(16), opt(pic), opt(rng.choice([0, 1, 254, 255, rng.randrange(256)])),
                opt([rng.randrange(4), rng.randrange(2)]), opt(rng.choice([0, 1, 30, 31, rng.randrange(32)]))]
    pic = rng.choice([-1, -129, 0, 127, 128, 32767, 32768, 40000, 65535, 65536, 70000, rng.randrange(-10, 70000)])
    return [rng.choice([0, 1, 2, 7, 8, 15, 16, -1]), rng.choice([0, 15, 16, 17, 127, 128, 255, 256, -1]),
            opt(pic), opt(rng.choice([0, 255, 256, -1, 1000])),
            opt([rng.choice([0, 3, 4, 5, -1]), rng.choice([0, 1, 2, 3, -1])]),
            opt(rng.choice([0, 31, 32, 33, 64, 255, 256, -1]))]


def vp8_size(rng):
    k = rng.random()
    if k < 0.1:
        return rng.randrange(0, 3)
    if k < 0.3:
        return rng.randrange(3, 1290)
    if k < 0.5:
        return rng.randrange(1290, 1304)
    if k < 0.75:
        m = rng.randrange(1, 6)
        return m * rng.choice([1296, 1297]) + rng.randrange(-3, 4)
    if k < 0.9:
        return rng.randrange(1304, 9000)
    if k < 0.96:
        m = rng.randrange(6, 46)
        return m * rng.choice([1296, 1297]) + rng.randrange(-2, 3)
    return rng.choice([60000, 59999, 60001])


# ---------------------------------------------------------------- implementation adapters
def h264_parse_out(data):
    from aiortc.codecs.h264 import H264PayloadDescriptor
    try:
        d, out = H264PayloadDescriptor.parse(bytes(data))
    except Exception as exc:
        return [classify_exc(exc)]
    return [0, [int(d.first_fragment), list(out)]]


def descr_fields(d):
    def opt(v):
        return [] if v is None else [v]
    return [d.partition_start, d.partition_id, opt(d.picture_id), opt(d.tl0picidx),
            [] if d.tid is None else [list(d.tid)], opt(d.keyidx)]


def vp8_parse_out(data):
    from aiortc.codecs.vpx import VpxPayloadDescriptor
    try:
        d, out = VpxPayloadDescriptor.parse(bytes(data))
    except Exception as exc:
        return [classify_exc(exc)]
    return [0, [descr_fields(d), list(out)]]


class C16(Check):
    prop = "C16"
    props_file = "Props/C16.v"
    models = ["H264", "Vp8"]
    quick_cases = 1600
    thorough_cases = 32000
    case_timeout = 5.0
    level_note = (
        "Theorems are about Model/H264.v and Model/Vp8.v (hand transcriptions of h264.py 52-104,131-246,317-319 and "
        "vpx.py 57-166,267-286); the size theorems are stated against the generated constants Gen/H264Const.v / "
        "Gen/VpxConst.v. Tie to the code = differential run of parse / _packetize / _packetize_fu_a / "
        "_packetize_stap_a / _split_bitstream / __bytes__ on generated inputs incl. a malformed stream (every "
        "prefix, bit flips, length-field edits, random bytes); Encoder.pack() on real av.Packet objects and the "
        "codecs.depayload() dispatch are exercised end-to-end by the oracle only. math.ceil(payload/available) is float division in "
        "Python and exact integer ceiling in the model (equal for every length below 2^40). The depayload dispatch "
        "in codecs/__init__.py:107-113 (codec name -> function), H264Encoder.pack/Vp8Encoder.pack (picture id "
        "increment modulo 2^15) and the libav encoders themselves are not modelled.")
    rule = ("H.264: 1-23 NAL units, sizes 2..65537 concentrated at 2, 1290..1305, k*1298+1+-3 (k=1..45), STAP-A "
            "groups of 2..11 units landing on 1297..1303 bytes, >9 tiny units; VP8: buffers 0..60001 concentrated at "
            "1290..1303 and k*1296/1297+-3, picture ids over the 7/15-bit boundary; descriptors: all 16 presence "
            "combinations with boundary field values, plus out-of-range fields; malformed: every prefix, bit flips, "
            "length-field edits, random bytes. Distinct by (case, output); non-trivial = packetiser produced an FU-A "
            "or STAP-A / >= 2 VP8 payloads, parser returned Ok, or split returned >= 1 unit")

    # ------------------------------------------------------------ generator
    def gen_case(self, rng, i):
        k = rng.random()
        if k < 0.34:
            nals = gen_nals(rng)
            r = rng.random()
            if r < 0.04 and nals:                                  # outside the precondition: crash classes
                j = rng.randrange(len(nals))
                nals[j] = rng.choice([[], [nals[j][0]], [0x1C, 5], [0x78] + nals[j][1:]])
            return ["h", 1, nals]
        if k < 0.44:
            r = rng.random()
            if r < 0.45:
                base = rng.choice(h264_payloads(rng))
                data = mutate(rng, base) if rng.random() < 0.8 else base
            elif r < 0.7:
                data = mutate(rng, stap_payload(rng)) if rng.random() < 0.5 else stap_payload(rng)
            else:
                data = rbytes(rng, rng.choice([0, 1, 2, 3, 4, rng.randrange(0, 40)]))
                if data and rng.random() < 0.6:
                    data[0] = (data[0] & 0xE0) | rng.choice([24, 28, 24, 28, 0, 25, 29, 31, 1, 23])
            return ["h", 0, data]
        if k < 0.49:
            base = stap_payload(rng) if rng.random() < 0.5 else rng.choice(h264_payloads(rng))[:rng.randrange(2, 60)]
            return ["h", 5, base]
        if k < 0.57:
            if rng.random() < 0.7:
                nals = [nal(rng, rng.choice([1, 2, 3, 5, rng.randrange(1, 60), rng.randrange(1, 60)]), clean=True)
                        for _ in range(rng.randrange(0, 8))]
                buf = []
                for n in nals:
                    buf += rng.choice([[0, 0, 1], SC4]) + n
                return ["h", 2, buf, nals]
            n = rng.randrange(0, 50)
            return ["h", 2, [rng.choice([0, 0, 0, 1, 1, 2, 255]) for _ in range(n)], None]
        if k < 0.61:
            n = rng.choice([0, 1, 2, 3, 1299, 1300, 1301, 1302, 2597, 2598, 2599, nal_size(rng), nal_size(rng)])
            return ["h", 3, nal(rng, n)]
        if k < 0.66:
            nals = gen_nals(rng)
            if rng.random() < 0.1:
                nals.insert(rng.randrange(len(nals) + 1), [])
            first = nals[0] if nals else nal(rng, 5)
            return ["h", 4, first, nals[1:]]
        if k < 0.81:
            n = vp8_size(rng)
            pid = rng.choice([0, 1, 127, 128, 129, 255, 256, 32766, 32767, rng.randrange(32768), rng.randrange(32768)])
            if rng.random() < 0.03:
                pid = rng.choice([-1, 32768, 65535, 65536, 100000])
            return ["v", 2, rbytes(rng, n), pid]
        if k < 0.89:
            return ["v", 1, gen_descr(rng, rng.random() < 0.25)]
        if k < 0.96:
            r = rng.random()
            if r < 0.5:
                data = rbytes(rng, rng.randrange(0, 12))
                if data and rng.random() < 0.7:
                    data[0] |= 0x80
                    if len(data) > 1 and rng.random() < 0.7:
                        data[1] = rng.choice([0x80, 0xC0, 0xF0, 0x40, 0x20, 0x10, 0x30, 0xB0, data[1]])
                    if len(data) > 2 and rng.random() < 0.5:
                        data[2] |= 0x80
            else:
                from aiortc.codecs.vpx import VpxPayloadDescriptor
                f = gen_descr(rng, False)
                d = VpxPayloadDescriptor(f[0], f[1], *(None if not x else (tuple(x[0]) if isinstance(x[0], list) else x[0])
                                                       for x in f[2:]))
                data = mutate(rng, list(bytes(d)) + rbytes(rng, rng.randrange(0, 5)))
            return ["v", 0, data]
        from aiortc.codecs.vpx import VpxPayloadDescriptor
        f = gen_descr(rng, False)
        d = VpxPayloadDescriptor(f[0], f[1], *(None if not x else (tuple(x[0]) if isinstance(x[0], list) else x[0])
                                               for x in f[2:]))
        return ["v", 3, list(bytes(d)) + rbytes(rng, rng.randrange(0, 4))]

    def model_name(self, case):
        return "H264" if case[0] == "h" else "Vp8"

    def encode(self, case):
        if case[0] == "h" and case[1] == 2:
            return [2, case[2]]
        return case[1:]

    # ------------------------------------------------------------ implementation
    def impl_run(self, case):
        from aiortc.codecs.h264 import H264Encoder
        from aiortc.codecs.vpx import Vp8Encoder, VpxPayloadDescriptor
        kind, op = case[0], case[1]
        if kind == "h":
            if op == 0:
                return h264_parse_out(case[2])
            if op == 1:
                try:
                    pk = H264Encoder._packetize([bytes(n) for n in case[2]])
                except Exception as exc:
                    return [classify_exc(exc)]
                return [0, [[list(p) for p in pk], [h264_parse_out(p) for p in pk]]]
            if op == 2:
                try:
                    out = list(H264Encoder._split_bitstream(bytes(case[2])))
                except Exception as exc:
                    return [classify_exc(exc)]
                return [0, [list(n) for n in out]]
            if op == 3:
                try:
                    pk = H264Encoder._packetize_fu_a(bytes(case[2]))
                except Exception as exc:
                    return [classify_exc(exc)]
                return [0, [list(p) for p in pk]]
            if op == 4:
                it = iter([bytes(n) for n in case[3]])
                try:
                    pkt, nxt = H264Encoder._packetize_stap_a(bytes(case[2]), it)
                except Exception as exc:
                    return [classify_exc(exc)]
                return [0, [list(pkt), [] if nxt is None else [list(nxt)], [list(n) for n in it]]]
            if op == 5:
                return [h264_parse_out(case[2][:k]) for k in range(len(case[2]) + 1)]
        else:
            if op == 0:
                return vp8_parse_out(case[2])
            if op == 1:
                f = case[2]
                try:
                    d = VpxPayloadDescriptor(
                        partition_start=f[0], partition_id=f[1],
                        picture_id=f[2][0] if f[2] else None, tl0picidx=f[3][0] if f[3] else None,
                        tid=tuple(f[4][0]) if f[4] else None, keyidx=f[5][0] if f[5] else None)
                    b = bytes(d)
                except Exception as exc:
                    return [classify_exc(exc)]
                return [0, [list(b), vp8_parse_out(b)]]
            if op == 2:
                try:
                    pk = Vp8Encoder._packetize(bytes(case[2]), case[3])
                except Exception as exc:
                    return [classify_exc(exc)]
                return [0, [[list(p) for p in pk], [vp8_parse_out(p) for p in pk]]]
            if op == 3:
                return [vp8_parse_out(case[2][:k]) for k in range(len(case[2]) + 1)]
        raise AssertionError("bad case")

    # ------------------------------------------------------------ oracle: the property on the implementation
    @staticmethod
    def _precond_nals(nals):
        return all(len(n) >= 2 and 1 <= (n[0] & 0x1F) <= 23 and all(0 <= b < 256 for b in n) for n in nals)

    def _oracle_h264_packetize(self, nals, out):
        if out[0] != 0:
            return ("h264-packetize-raised", f"_packetize raised (class {out[0]}) on {len(nals)} valid NAL units "
                                             f"of sizes {[len(n) for n in nals]}")
        payloads, parsed = out[1]
        for p in payloads:
            if len(p) > LIMIT:
                return ("h264-payload-too-big", f"payload of {len(p)} bytes > {LIMIT} (NAL sizes {[len(n) for n in nals]})")
        want = []
        for n in nals:
            want += SC4 + n
        got = []
        for r in parsed:
            if r[0] != 0:
                return ("h264-depayload-raised", f"h264_depayload raised (class {r[0]}) on a produced payload")
            got += r[1][1]
        if got != want:
            return ("h264-lossy", f"depayloaded stream differs from the NAL units with start codes "
                                  f"(NAL sizes {[len(n) for n in nals]}: got {len(got)} bytes, want {len(want)})")
        # structure: walk payloads and NAL units in parallel
        i = 0
        j = 0
        while j < len(payloads):
            p = payloads[j]
            t = p[0] & 0x1F
            if i >= len(nals):
                return ("h264-structure", "more payloads than NAL units")
            if t == 28:
                n = nals[i]
                frags = []
                while j < len(payloads) and (payloads[j][0] & 0x1F) == 28 and not (frags and payloads[j][1] & 0x80):
                    frags.append(payloads[j])
                    j += 1
                s_bits = [bool(f[1] & 0x80) for f in frags]
                e_bits = [bool(f[1] & 0x40) for f in frags]
                if len(n) <= LIMIT:
                    return ("h264-structure", f"NAL unit of {len(n)} bytes was fragmented")
                if s_bits != [True] + [False] * (len(frags) - 1) or e_bits != [False] * (len(frags) - 1) + [True]:
                    return ("h264-fu-markers", f"FU-A start/end markers wrong: S={s_bits} E={e_bits} (NAL {len(n)} bytes)")
                for f in frags:
                    if (f[0] & 0xE0) != (n[0] & 0xE0) or (f[1] & 0x1F) != (n[0] & 0x1F) or (f[1] & 0x20):
                        return ("h264-fu-header", f"FU-A fragment does not carry the original F/NRI/type bits")
                if [n[0]] + [b for f in frags for b in f[2:]] != n:
                    return ("h264-fu-data", "FU-A fragments do not concatenate to the NAL unit")
                if any(len(f) <= 2 for f in frags):
                    return ("h264-fu-empty", "empty FU-A fragment")
                i += 1
            elif t == 24:
                pos = 1
                cnt = 0
                while pos < len(p):
                    if pos + 2 > len(p):
                        return ("h264-stap-structure", "STAP-A length field truncated")
                    ln = p[pos] << 8 | p[pos + 1]
                    unit = p[pos + 2:pos + 2 + ln]
                    if i >= len(nals) or unit != nals[i]:
                        return ("h264-stap-structure", f"STAP-A unit {cnt} is not NAL unit {i} whole")
                    pos += 2 + ln
                    i += 1
                    cnt += 1
                if not 2 <= cnt <= 9:
                    return ("h264-stap-count", f"STAP-A aggregates {cnt} units")
                j += 1
            else:
                if p != nals[i]:
                    return ("h264-single", f"single NAL payload differs from NAL unit {i}")
                i += 1
                j += 1
        if i != len(nals):
            return ("h264-structure", "NAL units missing from the payloads")
        return None

    def oracle(self, case, out):
        kind, op = case[0], case[1]
        if kind == "h":
            if op == 0:
                if out[0] not in (0, -1):
                    return ("h264-parse-raised", f"H264PayloadDescriptor.parse raised a non-ValueError on {case[2][:40]}")
            elif op == 5:
                for k, r in enumerate(out):
                    if r[0] not in (0, -1):
                        return ("h264-parse-raised", f"H264PayloadDescriptor.parse raised a non-ValueError on prefix {k}")
            elif op == 1:
                if self._precond_nals(case[2]):
                    return self._oracle_h264_packetize(case[2], out)
            elif op == 2:
                if out[0] != 0:
                    return ("h264-split-raised", "_split_bitstream raised")
                if case[3] is not None and out[1] != case[3]:
                    return ("h264-split", f"_split_bitstream returned {len(out[1])} units, sizes "
                                          f"{[len(n) for n in out[1]]}; joined units had sizes {[len(n) for n in case[3]]}")
            elif op == 3:
                data = case[2]
                if len(data) > LIMIT:
                    if out[0] != 0:
                        return ("h264-fu-raised", f"_packetize_fu_a raised on {len(data)} bytes")
                    fr = out[1]
                    if any(len(f) > LIMIT for f in fr):
                        return ("h264-payload-too-big", f"FU-A fragment > {LIMIT} for NAL of {len(data)} bytes")
                    if [data[0]] + [b for f in fr for b in f[2:]] != data:
                        return ("h264-fu-data", f"FU-A fragments do not concatenate to the NAL unit ({len(data)} bytes)")
                    s_bits = [bool(f[1] & 0x80) for f in fr]
                    e_bits = [bool(f[1] & 0x40) for f in fr]
                    if s_bits != [True] + [False] * (len(fr) - 1) or e_bits != [False] * (len(fr) - 1) + [True]:
                        return ("h264-fu-markers", f"FU-A markers wrong for NAL of {len(data)} bytes")
            elif op == 4:
                data, rest = case[2], case[3]
                if self._precond_nals([data] + rest) and len(data) <= LIMIT:
                    if out[0] != 0:
                        return ("h264-stap-raised", "_packetize_stap_a raised on valid NAL units")
                    pkt, nxt, remaining = out[1]
                    if len(pkt) > LIMIT:
                        return ("h264-payload-too-big", f"STAP-A payload of {len(pkt)} bytes")
                    # nothing lost: units in the packet + next + remaining = all units
                    if (pkt[0] & 0x1F) == 24:
                        units = []
                        pos = 1
                        while pos + 2 <= len(pkt):
                            ln = pkt[pos] << 8 | pkt[pos + 1]
                            units.append(pkt[pos + 2:pos + 2 + ln])
                            pos += 2 + ln
                    else:
                        units = [pkt]
                    if units + nxt + remaining != [data] + rest:
                        return ("h264-stap-structure", "STAP-A lost or reordered NAL units")
        else:
            if op == 0:
                if out[0] not in (0, -1):
                    return ("vp8-parse-raised", f"VpxPayloadDescriptor.parse raised a non-ValueError on {case[2][:40]}")
            elif op == 3:
                for k, r in enumerate(out):
                    if r[0] not in (0, -1):
                        return ("vp8-parse-raised", f"VpxPayloadDescriptor.parse raised a non-ValueError on prefix {k}")
            elif op == 1:
                f = case[2]
                ok = (f[0] in (0, 1) and 0 <= f[1] < 16 and (not f[2] or 0 <= f[2][0] < 32768)
                      and (not f[3] or 0 <= f[3][0] < 256)
                      and (not f[4] or (0 <= f[4][0][0] < 4 and 0 <= f[4][0][1] < 2))
                      and (not f[5] or 0 <= f[5][0] < 32))
                if ok:
                    if out[0] != 0:
                        return ("vp8-descr-raised", f"bytes(descriptor) raised for in-range fields {f}")
                    if out[1][1] != [0, [f, []]]:
                        return ("vp8-descr-roundtrip", f"descriptor {f} parsed back as {out[1][1]}")
            elif op == 2:
                buf, pid = case[2], case[3]
                if 0 <= pid < 32768:
                    if out[0] != 0:
                        return ("vp8-packetize-raised", f"_packetize raised on {len(buf)} bytes, picture id {pid}")
                    payloads, parsed = out[1]
                    if any(len(p) > LIMIT for p in payloads):
                        return ("vp8-payload-too-big", f"payload > {LIMIT} for buffer of {len(buf)} bytes, picture id {pid}")
                    got = []
                    for k, r in enumerate(parsed):
                        if r[0] != 0:
                            return ("vp8-depayload-raised", "vp8_depayload raised on a produced payload")
                        d, data = r[1]
                        got += data
                        if d[0] != (1 if k == 0 else 0):
                            return ("vp8-partition-start", f"payload {k} has partition_start={d[0]}")
                        if d[2] != [pid]:
                            return ("vp8-picture-id", f"payload {k} carries picture id {d[2]}, frame has {pid}")
                        if d[1] != 0 or d[3] or d[4] or d[5]:
                            return ("vp8-descr-fields", f"payload {k} has unexpected descriptor fields {d}")
                        if not data:
                            return ("vp8-empty-payload", f"payload {k} carries no data")
                    if got != buf:
                        return ("vp8-lossy", f"depayloaded bytes differ from the buffer ({len(got)} vs {len(buf)} bytes)")
        return None

    # ------------------------------------------------------------ exhaustive small scopes (implementation only)
    def extra_checks(self, ctx):
        """Every picture id 0..32767 through bytes()/parse; every NAL length 1301..6500 (thorough) or every
        5th (quick) through _packetize; every VP8 buffer length 0..4000 (thorough) / every 7th (quick)."""
        from harness.framework import canon
        from aiortc.codecs.vpx import VpxPayloadDescriptor
        bad = []
        for pid in range(32768):
            b = bytes(VpxPayloadDescriptor(partition_start=1, partition_id=0, picture_id=pid))
            d, rest = VpxPayloadDescriptor.parse(b + b"\x9d")
            if d.picture_id != pid or rest != b"\x9d" or d.partition_start != 1 or len(b) != (3 if pid < 128 else 4):
                bad.append(("vp8-picture-id", f"picture id {pid} serialises to {list(b)} and parses back as "
                                              f"{d.picture_id}", ["v", 1, [1, 0, [pid], [], [], []]]))
                break
        thorough = ctx["tier"] == "thorough"
        self.exhaustive = {"picture_ids": 32768, "nal_lengths": 0, "vp8_lengths": 0}
        for n in range(1301, 6501, 1 if thorough else 5):
            case = ["h", 1, [[0x65] + [(i * 31 + n) & 0xFF for i in range(n - 1)]]]
            r = self.oracle(case, canon(self.safe_impl(case)))
            self.exhaustive["nal_lengths"] += 1
            if r is not None:
                bad.append((r[0], r[1], case))
                break
        for n in range(0, 4001, 1 if thorough else 7):
            case = ["v", 2, [(i * 17 + n) & 0xFF for i in range(n)], (n * 37) % 32768]
            r = self.oracle(case, canon(self.safe_impl(case)))
            self.exhaustive["vp8_lengths"] += 1
            if r is not None:
                bad.append((r[0], r[1], case))
                break
        bad += self._end_to_end(ctx["rng"], 400 if thorough else 40)
        return bad

    def _end_to_end(self, rng, count):
        """Encoder.pack() -> payloads -> codecs.depayload() on real av.Packet objects (observation points of the
        property): size limit, lossless, VP8 picture id carried and advanced modulo 2^15."""
        import fractions
        from av.packet import Packet
        from aiortc.codecs import depayload
        from aiortc.codecs.h264 import H264Encoder
        from aiortc.codecs.vpx import Vp8Encoder, VpxPayloadDescriptor
        from aiortc.rtcrtpparameters import RTCRtpCodecParameters
        h264 = RTCRtpCodecParameters(mimeType="video/H264", clockRate=90000, payloadType=97)
        vp8 = RTCRtpCodecParameters(mimeType="video/VP8", clockRate=90000, payloadType=96)

        def packet(data):
            pk = Packet(len(data))
            pk.update(data)
            pk.pts = 1
            pk.time_base = fractions.Fraction(1, 1000)
            return pk
        bad = []
        self.exhaustive["end_to_end"] = 0
        for _ in range(count):
            nals = [nal(rng, max(2, min(nal_size(rng), 9000)), clean=True) for _ in range(rng.randrange(1, 8))]
            buf = []
            for n in nals:
                buf += rng.choice([[0, 0, 1], SC4]) + n
            payloads, _ts = H264Encoder().pack(packet(bytes(buf)))
            got = b"".join(depayload(h264, p) for p in payloads)
            want = b"".join(bytes(SC4 + n) for n in nals)
            case = ["h", 2, buf, nals]
            if any(len(p) > LIMIT for p in payloads):
                bad.append(("h264-payload-too-big", "H264Encoder.pack produced a payload > 1300", case))
            elif got != want:
                bad.append(("h264-lossy", "H264Encoder.pack + depayload does not reproduce the bitstream "
                                          f"(NAL sizes {[len(n) for n in nals]})", case))
            enc = Vp8Encoder()
            pid = rng.choice([0, 126, 127, 128, 32766, 32767, rng.randrange(32768)])
            enc.picture_id = pid
            frames = [bytes(rbytes(rng, min(vp8_size(rng), 9000))) for _ in range(3)]
            for k, data in enumerate(frames):
                payloads, _ts = enc.pack(packet(data))
                want_pid = (pid + k) % 32768
                case = ["v", 2, list(data), want_pid]
                if any(len(p) > LIMIT for p in payloads):
                    bad.append(("vp8-payload-too-big", "Vp8Encoder.pack produced a payload > 1300", case))
                elif b"".join(depayload(vp8, p) for p in payloads) != data:
                    bad.append(("vp8-lossy", "Vp8Encoder.pack + depayload does not reproduce the frame", case))
                elif any(VpxPayloadDescriptor.parse(p)[0].picture_id != want_pid for p in payloads):
                    bad.append(("vp8-picture-id", f"frame {k} after picture id {pid} does not carry {want_pid}", case))
            self.exhaustive["end_to_end"] += 1
            if bad:
                break
        return bad

    def gen_validation(self):
        """the generated constants equal the module attributes of the code under test"""
        import re
        import aiortc.codecs.h264 as h264
        import aiortc.codecs.vpx as vpx
        res = []
        for fname, prefix, mod in (("H264Const.v", "h264_", h264), ("VpxConst.v", "vpx_", vpx)):
            with open(os.path.join(fw.COQ, "Gen", fname)) as fp:
                text = fp.read()
            for name, val in re.findall(r"Definition (\w+) : Z := (-?\d+)\.", text):
                attr = name[len(prefix):]
                res.append((f"{fname}:{name} = {val} vs {mod.__name__}.{attr} = {getattr(mod, attr, None)}",
                            getattr(mod, attr, None) == int(val)))
        return res

    # ------------------------------------------------------------ bookkeeping
    def nontrivial(self, case, out):
        kind, op = case[0], case[1]
        if op in (5,) or (kind == "v" and op == 3):
            return any(r[0] == 0 for r in out)
        if out[0] != 0:
            return False
        if kind == "h" and op == 1:
            return any((p[0] & 0x1F) in (24, 28) for p in out[1][0])
        if kind == "h" and op == 2:
            return len(out[1]) >= 1
        if kind == "h" and op == 3:
            return len(out[1]) >= 2
        if kind == "h" and op == 4:
            return (out[1][0][0] & 0x1F) == 24
        if kind == "v" and op == 2:
            return len(out[1][0]) >= 2
        return True

    def distribution(self, cases, outs):
        d = {}

        def inc(k, n=1):
            d[k] = d.get(k, 0) + n
        for c, o in zip(cases, outs):
            key = f"{c[0]}{c[1]}"
            inc("cases_" + key)
            if c[0] == "h" and c[1] == 1:
                for n in c[2]:
                    ln = len(n)
                    inc("nal_total")
                    inc("nal_le_1296" if ln <= 1296 else "nal_1297_1300" if ln <= 1300 else
                        "nal_1301_1304" if ln <= 1304 else "nal_gt_1304")
                    if ln > 1300 and (ln - 1) % 1298 in (0, 1, 1297):
                        inc("nal_fragment_multiple_boundary")
                if o[0] == 0:
                    for p in o[1][0]:
                        t = p[0] & 0x1F
                        inc("payload_fu_a" if t == 28 else "payload_stap_a" if t == 24 else "payload_single")
                        if len(p) >= 1298:
                            inc("payload_ge_1298")
                        if len(p) == 1300:
                            inc("payload_eq_1300")
                else:
                    inc(f"h1_outcome_{o[0]}")
            elif c[1] in (0,):
                inc(f"{key}_outcome_{o[0]}")
            elif (c[0] == "h" and c[1] == 5) or (c[0] == "v" and c[1] == 3):
                for r in o:
                    inc(f"{key}_prefix_outcome_{r[0]}")
            elif c[0] == "v" and c[1] == 2:
                inc("vp8_long_pid" if c[3] >= 128 else "vp8_short_pid")
                if o[0] == 0:
                    inc("vp8_payloads", len(o[1][0]))
                    inc("vp8_payload_eq_1300", sum(1 for p in o[1][0] if len(p) == 1300))
                else:
                    inc(f"v2_outcome_{o[0]}")
            else:
                inc(f"{key}_outcome_{o[0]}")
        d["exhaustive"] = getattr(self, "exhaustive", {})
        return d

    def describe_case(self, case):
        def short(x):
            if isinstance(x, list) and x and all(isinstance(b, int) for b in x) and len(x) > 24:
                return {"bytes": len(x), "head": x[:8]}
            if isinstance(x, list):
                return [short(y) for y in x]
            return x
        return short(case)

    def shrink_candidates(self, case):
        kind, op = case[0], case[1]
        if kind == "h" and op in (1,):
            nals = case[2]
            for i in range(len(nals)):
                yield [kind, op, nals[:i] + nals[i + 1:]]
            for i, n in enumerate(nals):
                for m in (len(n) // 2, len(n) - 1298, len(n) - 1):
                    if 2 <= m < len(n):
                        yield [kind, op, nals[:i] + [n[:m]] + nals[i + 1:]]
        elif kind == "h" and op == 4:
            rest = case[3]
            for i in range(len(rest)):
                yield [kind, op, case[2], rest[:i] + rest[i + 1:]]
        elif op in (0, 3, 5) or (kind == "v" and op == 2):
            data = case[2]
            for m in (len(data) // 2, len(data) - 1297, len(data) - 1):
                if 0 <= m < len(data):
                    yield case[:2] + [data[:m]] + case[3:]


if __name__ == "__main__":
    import sys
    sys.exit(C16().main(sys.argv[1:]))
