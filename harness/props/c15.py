"""C15 -- receive-side bandwidth estimation: correspondence of Model/RateCounter.v, Model/Aimd.v and
Model/Rbe.v with aiortc.rate / rtp.pack_remb_fci, and the implementation-level property oracle.

Case kinds (JSON lists):
  [0, W, scale, ops]      RateCounter history; ops = [0, value, now] add | [1, now] rate | [2] reset
  [1, calls]              AimdRateControl history; call = [usage, [] | [throughput], now]
  [2, arrivals]           RemoteBitrateEstimator history; arrival = [arrival_ms, abs_send_time, size, ssrc]
  [3, bitrate, ssrcs]     pack_remb_fci / unpack_remb_fci round trip

The floating-point side of the implementation is not modelled: the detector verdict and the float-rounded
quantities of AimdRateControl are RECORDED from the implementation run (class RecAimd below wraps the real
methods, it does not replace them) and handed to the model as inputs; the oracle asserts that every recorded
value lies in the range the Coq theorems assume (signature `float-input-out-of-range`).
"""
import json
import struct
import zlib

from harness.framework import Check, classify_exc

INIT_BITRATE = 30000000
TWO81 = 1 << 81

EXC_CODES = {"ZeroDivisionError": 1, "error": 2, "TypeError": 3, "IndexError": 4, "OverflowError": 5,
             "ValueError": 6, "EstimateNotInt": 7}
EXC_NAMES = {v: k for k, v in EXC_CODES.items()}


class EstimateNotInt(Exception):
    pass


def exc_code(exc):
    return EXC_CODES.get(type(exc).__name__, 9)


def round_half_even(a, b):
    """exact round(a / b) for ints, b > 0"""
    q, r = divmod(a, b)
    if 2 * r < b:
        return q
    if 2 * r > b:
        return q + 1
    return q if q % 2 == 0 else q + 1


def _rec_aimd():
    from aiortc.rate import AimdRateControl

    class RecAimd(AimdRateControl):
        """The real AimdRateControl; every method calls the original and only records."""

        def __init__(self):
            super().__init__()
            self.calls = []      # one record per update() call
            self.cur = None

        def update(self, bandwidth_usage, estimated_throughput, now_ms):
            # [c15, d85, mi, ai, clear, T, et, cb_before, delta_ms, reached_clamp, used_mi, used_ai, nb_for_mi]
            self.cur = [0, 0, 0, 0, 0, -1, -1 if estimated_throughput is None else estimated_throughput,
                        self.current_bitrate, 0, 0, 0, 0, 0]
            self.calls.append(self.cur)
            avg0 = self.avg_max_bitrate_kbps
            r = super().update(bandwidth_usage, estimated_throughput, now_ms)
            if self.cur[10] or self.cur[11]:
                # INCREASE branch: the sigma test fired iff avg_max went from a value to None
                self.cur[4] = 1 if (avg0 is not None and self.avg_max_bitrate_kbps is None) else 0
            return r

        def _clamp_bitrate(self, new_bitrate, estimated_throughput):
            r = super()._clamp_bitrate(new_bitrate, estimated_throughput)
            if self.cur is not None:
                self.cur[0] = int(1.5 * estimated_throughput)
                self.cur[1] = round(0.85 * estimated_throughput)
                self.cur[5] = estimated_throughput
                self.cur[9] = 1
            return r

        def _multiplicative_rate_increase(self, new_bitrate, last_ms, now_ms):
            r = super()._multiplicative_rate_increase(new_bitrate, last_ms, now_ms)
            self.cur[2] = r
            self.cur[10] = 1
            self.cur[12] = new_bitrate
            return r

        def _additive_rate_increase(self, last_ms, now_ms):
            self.cur[11] = 1
            self.cur[8] = now_ms - last_ms
            r = super()._additive_rate_increase(last_ms, now_ms)
            self.cur[3] = r
            return r

    return RecAimd()


def aimd_state(rc):
    return [rc.current_bitrate, 1 if rc.current_bitrate_initialized else 0,
            [] if rc.first_estimated_throughput_time is None else [rc.first_estimated_throughput_time],
            [] if rc.last_change_ms is None else [rc.last_change_ms], 1 if rc.near_max else 0,
            rc.latest_estimated_throughput, rc.rtt, rc.state.value]


def counter_state(c):
    return [len(c._buckets), [[i, b.count, b.value] for i, b in enumerate(c._buckets) if b.count or b.value],
            c._origin_index, [] if c._origin_ms is None else [c._origin_ms], c._total.count, c._total.value]


def parse_remb(data):
    """independent REMB FCI parser (draft-alvestrand-rmcat-remb-03)"""
    if len(data) < 8 or data[:4] != b"REMB":
        return None
    n = data[4]
    if len(data) != 8 + 4 * n:
        return None
    exp = data[5] >> 2
    mant = ((data[5] & 3) << 16) | (data[6] << 8) | data[7]
    return mant << exp, exp, [struct.unpack_from("!L", data, 8 + 4 * i)[0] for i in range(n)]


def compress_remb(remb):
    """[0, bytes] -> [0, first 8 bytes, crc32 of all bytes]; [code] unchanged (keeps big cases small)"""
    if remb[0] != 0:
        return remb
    b = bytes(remb[1])
    return [0, list(b[:8]), zlib.crc32(b)]


def compress_outs(outs):
    """per-call outputs [lat, rate] | [lat, rate, e, ssrcs, remb] ->
    ([lat, rate] | [lat, rate, e, index, remb'], table of distinct SSRC lists)"""
    table = []
    index = {}
    res = []
    for o in outs:
        if len(o) == 2:
            res.append(o)
            continue
        lat, rt, e, ss, remb = o
        k = tuple(ss)
        if k not in index:
            index[k] = len(table)
            table.append(list(ss))
        res.append([lat, rt, e, index[k], compress_remb(remb)])
    return res, table


def check_remb(e, ss, remb):
    """the compressed REMB of estimate e lists exactly ss and decodes to v <= e < v + 2^exp"""
    if remb[0] != 0:
        return "pack_remb_fci raised"
    head = bytes(remb[1])
    if len(head) != 8 or head[:4] != b"REMB" or head[4] != len(ss):
        return f"bad REMB header {list(head)}"
    exp = head[5] >> 2
    mant = ((head[5] & 3) << 16) | (head[6] << 8) | head[7]
    v = mant << exp
    if v > e or e - v >= (1 << exp):
        return f"REMB decodes to {v}"
    if zlib.crc32(head + b"".join(struct.pack("!L", x) for x in ss)) != remb[2]:
        return "REMB SSRC list differs from the estimate's"
    return None


# ------------------------------------------------------------------ generators
def abs_send(ms_times_8):
    """abs-send-time (24 bit, 6.18 fixed point seconds) of a send time given in 1/8 ms"""
    return ((ms_times_8 << 18) // 8000) & 0xFFFFFF


def gen_counter(rng):
    w = rng.choice([1, 2, 3, 5, 10, 100, 1000, 1000, 1000])
    scale = rng.choice([8000, 8000, 1000, 1, 7])
    mono = rng.random() < 0.85
    now = rng.choice([0, 0, 1, 999, 123456789, -500, 2 ** 40])
    ops = []
    for _ in range(rng.randrange(1, 60)):
        k = rng.random()
        if mono:
            g = rng.random()
            if g < 0.4:
                pass
            elif g < 0.8:
                now += rng.randrange(1, 4)
            elif g < 0.93:
                now += rng.randrange(1, 2 * w + 2)
            else:
                now += rng.choice([w - 1, w, w + 1, 2 * w, 3 * w + 7])
        else:
            now += rng.randrange(-w - 2, 2 * w + 2)
        if k < 0.6:
            ops.append([0, rng.choice([0, 1, 100, 1200, 1500, rng.randrange(0, 3000)]), now])
        elif k < 0.95:
            ops.append([1, now])
        else:
            ops.append([2])
    return [0, w, scale, ops]


def gen_aimd(rng):
    calls = []
    now = rng.choice([0, 1000, 123456])
    tput = rng.choice([0, 1, 2, 50, 1000, 30000, 300000, 2500000, 90000000, 10 ** 12])
    mode = rng.randrange(4)
    for _ in range(rng.randrange(2, 80)):
        g = rng.random()
        if g < 0.15:
            pass
        elif g < 0.7:
            now += rng.randrange(1, 600)
        elif g < 0.95:
            now += rng.randrange(500, 1500)
        else:
            now += rng.randrange(1500, 6000)
        u = rng.random()
        if mode == 0:
            usage = 0 if u < 0.7 else (1 if u < 0.8 else 2)
        elif mode == 1:
            usage = 2 if u < 0.5 else (0 if u < 0.9 else 1)
        else:
            usage = rng.randrange(3)
        t = rng.random()
        if t < 0.15:
            tput = 0
        elif t < 0.3:
            tput = rng.choice([1, 2, 3, 7, 50, 1000, 11765, 30000])
        elif t < 0.6:
            tput = max(0, tput + rng.randrange(-tput // 4 - 2, tput // 4 + 3))
        elif t < 0.65:
            tput = rng.choice([300000, 2500000, 90000000, 10 ** 12, 2 ** 45 + 1])
        et = [] if rng.random() < 0.15 else [tput]
        calls.append([usage, et, now])
    return [1, calls]


def gen_rbe(rng, big):
    """arrival history from a toy sender + network: segments with their own packet interval, size
    distribution and one-way delay trend (ramps drive the detector into over-use / under-use)"""
    arr = []
    send8 = rng.choice([0, rng.randrange(0, 64000 * 8), 64000 * 8 - rng.randrange(0, 6000 * 8)])  # 1/8 ms
    base = rng.choice([0, 10, 50, 1000000])
    delay8 = 0
    last_arrival = None
    nss = rng.choice([270, 300]) if big else rng.choice([1, 1, 1, 2, 3, 3, 40])
    ssrc_pool = [0, 1, 0xFFFFFFFF][:nss] + [rng.randrange(2 ** 32) for _ in range(max(0, nss - 3))]
    rng.shuffle(ssrc_pool)
    many = nss > 3 and (nss > 200 or rng.random() < 0.7)
    next_new = 0
    nseg = rng.randrange(4, 8) if big else rng.randrange(3, 7)
    prev_kind = None
    for seg in range(nseg):
        kind = rng.choice(["steady", "steady", "ramp", "ramp", "drain", "burst", "idle", "zero", "tiny", "jitter"])
        if prev_kind == "ramp" and delay8 > 0 and rng.random() < 0.6:
            kind = "drain"           # the queue built by the ramp empties: under-use
        prev_kind = kind
        if seg == 0 and rng.random() < 0.7:
            kind = "steady"
        prev_kind = kind
        if big:
            # many SSRCs make every estimate (and its REMB) large: keep estimates to the 500 ms cadence
            # except for one short over-use at the end
            kind = "ramp" if seg == nseg - 1 else rng.choice(["steady", "steady", "jitter", "burst", "idle"])
            prev_kind = kind
        interval8 = rng.choice([8, 20, 40, 80, 80, 160, 264, 400])
        dur = rng.randrange(200, 3000) * 8
        if big and kind == "ramp":
            dur = rng.randrange(100, 400) * 8
        sizes = rng.choice([[1200], [1200, 1200, 300], [100, 200, 1500], [0], [0, 1, 2], [2], [1500],
                            [rng.randrange(0, 1501)]])
        slope = 0
        if kind == "ramp":
            slope = rng.choice([1, 2, 4, 8, 16])         # extra delay (1/8 ms) per packet
        elif kind == "drain":
            slope = -rng.choice([1, 2, 4, 8])
        elif kind == "zero":
            sizes = [0]
        elif kind == "tiny":
            sizes = [rng.choice([0, 1, 2, 3])]
        if kind == "idle":
            send8 += rng.choice([900, 1000, 1001, 1500, 3000, 5000]) * 8
            continue
        if kind == "burst":
            n = rng.randrange(5, 200)
            for _ in range(n):
                a = base + (send8 + delay8) // 8
                if last_arrival is not None and a < last_arrival:
                    a = last_arrival
                last_arrival = a
                arr.append([a, abs_send(send8), rng.choice(sizes), rng.choice(ssrc_pool[:3])])
                send8 += rng.choice([0, 0, 1, 8])
            continue
        end = send8 + dur
        count = 0
        while send8 < end and count < 1500:
            count += 1
            j = rng.randrange(-16, 17) if kind == "jitter" else 0
            delay8 = max(0, delay8 + slope)
            a = base + (send8 + delay8 + j) // 8
            if last_arrival is not None and a < last_arrival:
                a = last_arrival
            last_arrival = a
            if many and rng.random() < 0.5 and next_new < len(ssrc_pool):
                ssrc = ssrc_pool[next_new]
                next_new += 1
            else:
                ssrc = rng.choice(ssrc_pool[:max(3, next_new)])
            arr.append([a, abs_send(send8), rng.choice(sizes), ssrc])
            send8 += interval8
        if kind == "ramp" and rng.random() < 0.5:
            pass            # keep the queue: next segment starts with the accumulated delay
        elif kind == "ramp":
            delay8 = delay8 // 2
    return [2, arr]


def gen_remb(rng):
    k = rng.random()
    if k < 0.3:
        br = rng.randrange(0, 1 << 19)
    elif k < 0.8:
        br = rng.randrange(0, 1 << rng.randrange(1, 83))
    elif k < 0.9:
        br = (1 << rng.randrange(17, 82)) - rng.choice([0, 1])
    else:
        br = rng.choice([-1, TWO81, TWO81 - 1, (1 << 82) - 1, 0x3FFFF, 0x40000])
    n = rng.choice([0, 1, 2, 3, 10, 255, 255, 256, 300]) if rng.random() < 0.3 else rng.randrange(0, 5)
    ss = [rng.choice([0, 1, 0xFFFFFFFF, rng.randrange(2 ** 32)]) for _ in range(n)]
    if rng.random() < 0.03 and ss:
        ss[rng.randrange(len(ss))] = rng.choice([-1, 2 ** 32])
    return [3, br, ss]


def gen_rx_probe(rng):
    """RTP arrivals at a real video RTCRtpReceiver: [ssrc index, abs-send-time or -1 (no extension), payload size, gap ms]"""
    stamps = [0, 0, 1, 2, 0xFFFFFF, 0xFFFFFE, 0x800000, rng.randrange(1 << 24)]
    t = rng.choice([0, 0xFFFF00, 0xFFFFF0, rng.randrange(1 << 24)])
    pk = []
    for _ in range(rng.randrange(2, 40)):
        t = (t + rng.choice([0, 1, 8, 16, 300, 3000])) & 0xFFFFFF
        r = rng.random()
        st = -1 if r < 0.12 else (rng.choice(stamps) if r < 0.45 else t)
        pk.append([rng.randrange(3), st, rng.choice([0, 1, 100, 1200]), rng.choice([0, 1, 5, 20, 1500])])
    return [4, pk]


def run_rx_probe(case):
    """what RemoteBitrateEstimator.add was called with by the real receiver, and what arrived with a send-time stamp"""
    from aiortc import rtp
    from harness.props.c11 import ReceiverRig, _loop_run
    out = {"fed": [], "want": []}

    async def go():
        rig = ReceiverRig([[[100, [0]]], [], [99]], None)
        await rig.start()
        try:
            est = getattr(rig.receiver, "_RTCRtpReceiver__remote_bitrate_estimator")
            real_add = est.add

            def spy(abs_send_time, arrival_time_ms, payload_size, ssrc):
                out["fed"].append([abs_send_time, arrival_time_ms, payload_size, ssrc])
                return real_add(abs_send_time=abs_send_time, arrival_time_ms=arrival_time_ms, payload_size=payload_size, ssrc=ssrc)
            est.add = spy
            now = 0
            for i, (si, st, size, gap) in enumerate(case[1]):
                now += gap
                pkt = rtp.RtpPacket(payload_type=100, sequence_number=(i + 1) & 0xFFFF, timestamp=1000 + 3000 * i,
                                    ssrc=1234 + si, payload=b"\x10\x00\x00\x01" + bytes(size) if size else b"")
                if st >= 0:
                    pkt.extensions.abs_send_time = st
                    out["want"].append([st, now, len(pkt.payload), 1234 + si])
                try:
                    await rig.handle(pkt, arrival_ms=now)
                except Exception as exc:  # noqa
                    out["raised"] = [i, type(exc).__name__]
                    break
        finally:
            await rig.stop()
    _loop_run(go())
    return out


class C15(Check):
    prop = "C15"
    props_file = "Props/C15.v"
    models = ["RateCounter", "Aimd", "Rbe"]
    quick_cases = 500
    thorough_cases = 10000
    case_timeout = 20.0
    level_note = (
        "Theorems are about Model/RateCounter.v (exact integers), Model/Aimd.v and Model/Rbe.v (integer skeleton of "
        "AimdRateControl.update and RemoteBitrateEstimator.add, pack/unpack_remb_fci). PARTIAL: the floating-point "
        "delay filter (InterArrival burst test, OveruseEstimator Kalman update, OveruseDetector threshold) is not "
        "modelled - its verdict is an arbitrary input of every call and the theorems hold for every verdict sequence; "
        "that the filter itself never raises (OverflowError, zero denominator) is only exercised by the oracle. The "
        "float-rounded quantities int(1.5*T), round(0.85*T), the multiplicative and additive increments and the "
        "avg/var_max_bitrate test are inputs; the theorems assume |2c-3T|<=2, |100d-85T|<=51, mi>=0, ai>=0, and "
        "every run records the values from the implementation and checks these ranges (and the sharper mi>=1000, "
        "4*dt<=ai<=32*dt where the increments are used). RateCounter.rate's round(scale*value/window) is the "
        "exact rational round-half-even (equal to the float computation below 2^52, compared on every case). "
        "AimdRateControl.set_estimate (test helper) is not modelled.")
    rule = ("4 case kinds: RateCounter histories (window 1..1000, gaps 0..3W, resets, 15% with non-monotone clocks for "
            "correspondence only); AimdRateControl verdict/throughput histories (throughput 0..2^45, None, gaps 0..6 s); "
            "RemoteBitrateEstimator arrival histories from a toy sender/network (3-8 segments: steady, delay ramps up/"
            "down, bursts, idle 0.9-5 s, zero/tiny payloads, jitter; 24-bit abs-send-time wrap; 1..300 SSRCs); REMB "
            "pack/unpack round trips (bitrate -1..2^82, 0..300 SSRCs); plus (extra check, oracle only) 30 / 200 arrival lists at a real video "
            "RTCRtpReceiver (3 SSRCs, stamps 0, 1, 2^24-1, none, wrap): every stamped arrival must reach the estimator. Distinct by (case, output); non-trivial = "
            "RateCounter: a rate is reported after buckets were erased; Aimd: an estimate after an OVERUSING verdict; "
            "Rbe: at least 2 estimates and (an OVERUSING verdict or a window reset); REMB: exponent > 0")

    def __init__(self):
        self._rec = {}

    # ------------------------------------------------------------ generation
    def gen_case(self, rng, i):
        k = i % 10
        if k < 3:
            return gen_counter(rng)
        if k < 5:
            return gen_aimd(rng)
        if k < 9:
            return gen_rbe(rng, big=(i % 30 == 8))
        return gen_remb(rng)

    def extra_search_cases(self, rng, n):
        return [self.gen_case(rng, i) for i in range(min(n, 3000))]

    def model_name(self, case):
        return ["RateCounter", "Aimd", "Rbe", "Rbe"][case[0]]

    def shrink_candidates(self, case):
        kind = case[0]
        if kind == 3:
            for c in Check.shrink_candidates(self, case[2]):
                yield [3, case[1], c]
            return
        seq = case[-1]
        n = len(seq)
        if n <= 1:
            return
        step = max(1, n // 2)
        while step >= 1:
            for i in range(0, n, step):
                yield case[:-1] + [seq[:i] + seq[i + step:]]
            if step == 1:
                break
            step //= 2

    # ------------------------------------------------------------ implementation
    def impl_run(self, case):
        kind = case[0]
        if kind == 4:
            return run_rx_probe(case)
        key = json.dumps(case)
        if kind == 0:
            return self._impl_counter(case)
        if kind == 1:
            out, rec = self._impl_aimd(case)
        elif kind == 2:
            out, rec = self._impl_rbe(case)
        else:
            return self._impl_remb(case)
        self._rec[key] = rec
        return out + [rec]

    def _impl_counter(self, case):
        from aiortc.rate import RateCounter
        _, w, scale, ops = case
        c = RateCounter(w, scale)
        outs = []
        status = 0
        for op in ops:
            try:
                if op[0] == 0:
                    c.add(op[1], op[2])
                    outs.append([])
                elif op[0] == 1:
                    r = c.rate(op[1])
                    if r is not None and (not isinstance(r, int) or isinstance(r, bool)):
                        raise EstimateNotInt()
                    outs.append([1, [] if r is None else [r]])
                else:
                    c.reset()
                    outs.append([])
            except Exception as exc:
                status = classify_exc(exc)
                break
        return [status, outs, counter_state(c) if status == 0 else []]

    def _impl_aimd(self, case):
        from aiortc.rate import BandwidthUsage
        rc = _rec_aimd()
        outs = []
        status = 0
        exc_kind = 0
        for usage, et, now in case[1]:
            try:
                r = rc.update(BandwidthUsage(usage), et[0] if et else None, now)
                if r is not None and (not isinstance(r, int) or isinstance(r, bool)):
                    raise EstimateNotInt()
                outs.append([] if r is None else [r])
            except Exception as exc:
                status = classify_exc(exc)
                exc_kind = exc_code(exc)
                break
        rec = [exc_kind, [list(c) for c in rc.calls]]
        return [status, outs, aimd_state(rc) if status == 0 else []], rec

    def _impl_rbe(self, case):
        from aiortc import rtp
        from aiortc.rate import RemoteBitrateEstimator
        est = RemoteBitrateEstimator()
        rc = _rec_aimd()
        est.rate_control = rc
        outs = []
        status = 0
        exc_kind = 0
        per_call = []      # [verdict, index into rc.calls or -1]
        for t, send, size, ssrc in case[1]:
            ncalls = len(rc.calls)
            try:
                r = est.add(arrival_time_ms=t, abs_send_time=send, payload_size=size, ssrc=ssrc)
                verdict = est.detector.state().value
                lat = rc.latest_estimated_throughput
                # observation for the correspondence: rate(t) again at the same t (its erase loop is a no-op now)
                rt = est.incoming_bitrate.rate(t)
                rt = [] if rt is None else [rt]
                if r is None:
                    outs.append([lat, rt])
                else:
                    e, ss = r
                    if not isinstance(e, int) or isinstance(e, bool):
                        raise EstimateNotInt()
                    try:
                        remb = [0, list(rtp.pack_remb_fci(e, ss))]
                    except Exception as exc:
                        remb = [classify_exc(exc)]
                    outs.append([lat, rt, e, list(ss), remb])
                per_call.append([verdict, ncalls if len(rc.calls) > ncalls else -1])
            except Exception as exc:
                status = classify_exc(exc)
                exc_kind = exc_code(exc)
                break
        state = []
        if status == 0:
            state = [counter_state(est.incoming_bitrate), 1 if est.incoming_bitrate_initialized else 0,
                     aimd_state(rc), [] if est.last_update_ms is None else [est.last_update_ms],
                     [[k, v] for k, v in est.ssrcs.items()]]
        rec = [exc_kind, [list(c) for c in rc.calls], per_call]
        outs, table = compress_outs(outs)
        return [status, outs, state, table], rec

    def _impl_remb(self, case):
        from aiortc import rtp
        try:
            b = rtp.pack_remb_fci(case[1], list(case[2]))
        except Exception as exc:
            return [[classify_exc(exc)], []]
        try:
            v, ss = rtp.unpack_remb_fci(b)
            return [[0, list(b)], [0, v, list(ss)]]
        except Exception as exc:
            return [[0, list(b)], [classify_exc(exc)]]

    # ------------------------------------------------------------ model side
    def encode(self, case):
        kind = case[0]
        if kind == 0:
            return [case[1], case[2], case[3]]
        if kind == 3:
            return [1, case[1], case[2]]
        key = json.dumps(case)
        if key not in self._rec:
            self.safe_impl(case)
        rec = self._rec.get(key)
        if kind == 1:
            calls = rec[1] if rec else []
            out = []
            for i, (usage, et, now) in enumerate(case[1]):
                f = calls[i][:5] if i < len(calls) else [0, 0, 0, 0, 0]
                out.append([usage, et, now, f])
            return out
        calls = rec[1] if rec else []
        per_call = rec[2] if rec else []
        out = []
        for i, (t, send, size, ssrc) in enumerate(case[1]):
            if i < len(per_call):
                verdict, ci = per_call[i]
            elif i == len(per_call) and len(calls) > sum(1 for p in per_call if p[1] >= 0):
                # the call that raised inside update(): verdict unknown to the harness; the update call was recorded
                verdict, ci = 0, len(calls) - 1
            else:
                verdict, ci = 0, -1
            f = calls[ci][:5] if ci >= 0 else [0, 0, 0, 0, 0]
            out.append([t, send, size, ssrc, verdict, f])
        return [0, out]

    def model_canon(self, case, out):
        kind = case[0]
        if kind == 3:
            return out
        if out[0] != 0:
            out = [out[0], out[1], []]
        if kind == 0:
            return out
        if kind == 2:
            outs, table = compress_outs(out[1])
            out = [out[0], outs, out[2], table]
        return out + [self._rec.get(json.dumps(case))]

    # ------------------------------------------------------------ oracle (the property, on the implementation)
    def oracle(self, case, impl_out):
        kind = case[0]
        if impl_out == [-3]:
            return ("hang", "case did not finish within the time limit")
        if kind == 0:
            return self._oracle_counter(case, impl_out)
        if kind == 1:
            return self._oracle_aimd(case, impl_out)
        if kind == 2:
            return self._oracle_rbe(case, impl_out)
        if kind == 4:
            return self._oracle_rx_probe(case, impl_out)
        return self._oracle_remb(case, impl_out)

    @staticmethod
    def _oracle_rx_probe(case, out):
        if out.get("raised"):
            return ("receiver-raised", f"RTCRtpReceiver._handle_rtp_packet raised {out['raised'][1]} on arrival {out['raised'][0]}")
        if out["fed"] != out["want"]:
            miss = [w for w in out["want"] if w not in out["fed"]][:3]
            return ("rtp-arrival-not-measured", f"{len(out['want'])} packets arrived with an abs-send-time stamp, the bandwidth "
                                                f"estimator was fed {len(out['fed'])} [stamp, arrival ms, size, ssrc]; e.g. missing {miss}: "
                                                "the measurement is not over exactly the packets that arrived")
        return None

    def extra_checks(self, ctx):
        """`the measurement is computed over exactly the packets that arrived`: every RTP arrival at a real video
        RTCRtpReceiver that carries an abs-send-time stamp (any 24-bit value, 0 included) is handed to the estimator"""
        import random
        rng = random.Random(1515)
        n = 200 if ctx["tier"] == "thorough" else 30
        self.rx_probe_cases = n
        for _ in range(n):
            case = gen_rx_probe(rng)
            res = self._oracle_rx_probe(case, run_rx_probe(case))
            if res:
                return [(res[0], res[1], case)]
        return []

    @staticmethod
    def _mono(times):
        return all(a <= b for a, b in zip(times, times[1:]))

    def _oracle_counter(self, case, out):
        _, w, scale, ops = case
        times = [op[-1] for op in ops if op[0] != 2]
        if not self._mono(times):
            return None          # precondition of the property: non-decreasing clock
        status, outs, state = out
        if status != 0:
            return ("ratecounter-raised", f"RateCounter(window={w}) raised at op {len(outs)} of {ops[:len(outs) + 1][-3:]}")
        samples = []
        first = None
        now = None
        for i, (op, o) in enumerate(zip(ops, outs)):
            if op[0] == 0:
                samples.append((op[2], op[1]))
                if first is None:
                    first = op[2]
                now = op[2]
            elif op[0] == 2:
                samples = []
                first = None
                continue
            else:
                now = op[1]
                win = [v for (t, v) in samples if now - w < t <= now]
                want = None
                if first is not None:
                    active = now - max(first, now - w + 1) + 1
                    if win and active > 1:
                        want = round_half_even(scale * sum(win), active)
                got = o[1][0] if o[1] else None
                if got != want:
                    return ("window-inexact", f"RateCounter(window={w}).rate({now}) = {got} after op {i}, the packets "
                                              f"inside the window give {want} (count {len(win)}, sum {sum(win)})")
        if now is not None and first is not None:
            win = [v for (t, v) in samples if now - w < t <= now]
            if [state[4], state[5]] != [len(win), sum(win)]:
                return ("window-inexact", f"RateCounter(window={w})._total = {state[4:6]} at time {now}, the packets "
                                          f"inside the window are count {len(win)} sum {sum(win)}")
        return None

    def _check_fl(self, c):
        """ranges the Coq theorems assume for the recorded float-rounded inputs of one update() call"""
        c15, d85, mi, ai, clear, T, et, cb0, dt, reached, used_mi, used_ai, nb = c
        if reached:
            if abs(2 * c15 - 3 * T) > 2:
                return f"int(1.5*{T}) = {c15}"
            if abs(100 * d85 - 85 * T) > 51:
                return f"round(0.85*{T}) = {d85}"
        if mi < 0 or ai < 0:
            return f"negative increment mi={mi} ai={ai}"
        if used_mi and mi < 1000:
            return f"_multiplicative_rate_increase = {mi} < 1000"
        if used_ai and not (4 * dt <= ai <= 32 * dt):
            return f"_additive_rate_increase = {ai} for an interval of {dt} ms (allowed {4 * dt}..{32 * dt})"
        return None

    def _check_estimates(self, calls, verdict_of, who):
        """bounds of the property for every update() call that returned an estimate.
        calls: recorded update calls with the estimate appended as c[13] (or None)"""
        prev = INIT_BITRATE
        for idx, c in enumerate(calls):
            bad = self._check_fl(c[:13])
            if bad is not None:
                return ("float-input-out-of-range", f"{who}: update call {idx}: {bad}")
            e = c[13]
            if e is None:
                continue
            T = c[5]
            if e < 0:
                return ("estimate-negative", f"{who}: update call {idx} returned {e}")
            if e > prev and 2 * e > 3 * T + 20000:
                return ("estimate-above-1.5x", f"{who}: update call {idx} raised the estimate from {prev} to {e} with "
                                               f"measured throughput {T} (limit {3 * T // 2 + 10000})")
            if verdict_of(idx) == 2 and 100 * e > 85 * T + 51:
                return ("overuse-not-cut", f"{who}: update call {idx} with OVERUSING returned {e} > 85% of the "
                                           f"measured throughput {T}")
            prev = e
        return None

    def _oracle_aimd(self, case, out):
        status, outs, state, rec = out
        calls_in = case[1]
        if not self._mono([c[2] for c in calls_in]) or any(c[1] and c[1][0] < 0 for c in calls_in):
            return None
        if status != 0:
            return ("aimd-raises-" + EXC_NAMES.get(rec[0], "other"),
                    f"AimdRateControl.update raised at call {len(outs)}: {calls_in[len(outs)]}")
        calls = [list(c) + [o[0] if o else None] for c, o in zip(rec[1], outs)]
        return self._check_estimates(calls, lambda i: calls_in[i][0], "AimdRateControl")

    def _oracle_rbe(self, case, out):
        status, outs, state, table, rec = out
        arrivals = case[1]
        if not self._mono([a[0] for a in arrivals]) or any(a[2] < 0 for a in arrivals):
            return None
        if status != 0:
            return ("rbe-raises-" + EXC_NAMES.get(rec[0], "other"),
                    f"RemoteBitrateEstimator.add raised at arrival {len(outs)}: {arrivals[len(outs)]}")
        calls_rec, per_call = rec[1], rec[2]
        # 1. window exactness of the measured incoming bitrate, recomputed naively from the whole history:
        #    the value handed to the rate controller is round(8000 * bytes of the packets with t-1000 < ts <= t /
        #    active) where the active window [origin, t] (2..1000 ms) starts no later than the oldest packet of the
        #    window and no earlier than the first packet of the history; None only if all of them arrived in this ms
        samples = []
        seen = []
        calls = []
        verdicts = []
        t_first = arrivals[0][0] if arrivals else 0
        last_active, last_t = 1, t_first
        for i, ((t, send, size, ssrc), o, (verdict, ci)) in enumerate(zip(arrivals, outs, per_call)):
            if ssrc not in seen:
                seen.append(ssrc)
            samples.append((t, size))
            if ci >= 0:
                c = calls_rec[ci]
                while samples and samples[0][0] <= t - 1000:
                    samples.pop(0)
                total = sum(v for (ts, v) in samples)
                oldest = samples[0][0]
                got = None if c[6] < 0 else c[6]
                lo = max(2, t - oldest + 1)
                hi = min(1000, t - t_first + 1)
                if got is None:
                    ok = oldest == t
                else:
                    cands = [a for a in (last_active + (t - last_t), last_active, hi, 1000, lo) if lo <= a <= hi]
                    hit = [a for a in cands if round_half_even(8000 * total, a) == got]
                    if not hit:
                        hit = [a for a in range(lo, hi + 1) if round_half_even(8000 * total, a) == got]
                    ok = bool(hit)
                    if ok:
                        last_active, last_t = hit[0], t
                if not ok:
                    return ("window-inexact", f"arrival {i} (t={t}): incoming bitrate handed to the rate controller is "
                                              f"{got}; the {len(samples)} packets of the last 1000 ms carry {total} "
                                              f"bytes (active window {lo}..{hi} ms)")
                calls.append(list(c) + [o[2] if len(o) > 2 else None])
                verdicts.append(verdict)
            elif len(o) > 2:
                return ("estimate-without-update", f"arrival {i} returned {o} without a rate-control update")
            if len(o) > 2:
                lat, rt, e, si, remb = o
                ss = table[si]
                want_ss = seen[-255:]
                if ss != want_ss:
                    return ("remb-ssrc-list", f"arrival {i}: estimate lists {len(ss)} SSRCs {ss[:5]}.., seen so far "
                                              f"{len(seen)}: {seen[:5]}..")
                if remb[0] != 0:
                    return ("remb-not-encodable", f"arrival {i}: pack_remb_fci({e}, {len(ss)} SSRCs) raised")
                bad = check_remb(e, ss, remb)
                if bad is not None:
                    return ("remb-wrong", f"arrival {i}: REMB for {e}: {bad}")
        return self._check_estimates(calls, lambda i: verdicts[i], "RemoteBitrateEstimator")

    def _oracle_remb(self, case, out):
        _, br, ss = case
        encodable = 0 <= br < TWO81 and len(ss) <= 255 and all(0 <= s < 2 ** 32 for s in ss)
        if not encodable:
            return None
        if out[0][0] != 0:
            return ("remb-not-encodable", f"pack_remb_fci({br}, {len(ss)} SSRCs) raised")
        p = parse_remb(bytes(out[0][1]))
        if p is None or p[2] != ss or p[0] > br or br - p[0] >= (1 << p[1]):
            return ("remb-wrong", f"REMB for {br} decodes to {p and p[0]}")
        if out[1] != [0, p[0], ss]:
            return ("remb-wrong", f"unpack_remb_fci gives {out[1][:2]}, the packet says {p[0]}")
        return None

    # ------------------------------------------------------------ statistics
    def nontrivial(self, case, out):
        kind = case[0]
        if out == [-3] or (kind != 3 and out[0] != 0):
            return False
        if kind == 0:
            return any(o and o[0] == 1 and o[1] for o in out[1]) and out[2][2] != 0
        if kind == 1:
            seen_over = False
            for c, o in zip(case[1], out[1]):
                seen_over = seen_over or c[0] == 2
                if seen_over and o:
                    return True
            return False
        if kind == 2:
            n_est = sum(1 for o in out[1] if len(o) > 2)
            over = any(p[0] == 2 for p in out[4][2])
            gaps = any(b[0] - a[0] >= 1000 for a, b in zip(case[1], case[1][1:]))
            return n_est >= 2 and (over or gaps)
        return out[0][0] == 0 and case[1] > 0x3FFFF

    def distribution(self, cases, outs):
        d = {"counter_cases": 0, "aimd_cases": 0, "rbe_cases": 0, "remb_cases": 0, "counter_nonmonotone": 0,
             "arrivals": 0, "estimates": 0, "updates": 0, "verdict_normal": 0, "verdict_under": 0, "verdict_over": 0,
             "update_additive": 0, "update_multiplicative": 0, "near_max_cleared": 0, "zero_size": 0,
             "same_ms_arrivals": 0, "gaps_over_1s": 0, "send_time_wraps": 0, "max_ssrcs": 0,
             "estimate_zero": 0, "throughput_none": 0, "remb_unencodable_inputs": 0, "aimd_updates": 0}
        for c, o in zip(cases, outs):
            k = c[0]
            if k == 0:
                d["counter_cases"] += 1
                times = [op[-1] for op in c[3] if op[0] != 2]
                if not self._mono(times):
                    d["counter_nonmonotone"] += 1
            elif k == 3:
                d["remb_cases"] += 1
                if o[0][0] != 0:
                    d["remb_unencodable_inputs"] += 1
            elif o != [-3]:
                rec = o[-1]
                if k == 1:
                    d["aimd_cases"] += 1
                    d["aimd_updates"] += len(c[1])
                else:
                    d["rbe_cases"] += 1
                    arr = c[1]
                    d["arrivals"] += len(arr)
                    d["estimates"] += sum(1 for x in o[1] if len(x) > 2)
                    d["estimate_zero"] += sum(1 for x in o[1] if len(x) > 2 and x[2] == 0)
                    d["zero_size"] += sum(1 for a in arr if a[2] == 0)
                    d["same_ms_arrivals"] += sum(1 for a, b in zip(arr, arr[1:]) if a[0] == b[0])
                    d["gaps_over_1s"] += sum(1 for a, b in zip(arr, arr[1:]) if b[0] - a[0] > 1000)
                    d["send_time_wraps"] += sum(1 for a, b in zip(arr, arr[1:]) if b[1] < a[1] - 2 ** 23)
                    d["max_ssrcs"] = max(d["max_ssrcs"], len(set(a[3] for a in arr)))
                    for v, ci in rec[2]:
                        d[["verdict_normal", "verdict_under", "verdict_over"][v]] += 1
                for cc in rec[1]:
                    d["updates"] += 1
                    d["update_additive"] += cc[11]
                    d["update_multiplicative"] += cc[10]
                    d["near_max_cleared"] += cc[4]
                    d["throughput_none"] += 1 if cc[6] < 0 else 0
        return d

    def describe_case(self, case):
        if case[0] in (0, 1, 2) and len(case[-1]) > 12:
            return case[:-1] + [case[-1][:12] + [f"... {len(case[-1])} items"]]
        return case


if __name__ == "__main__":
    import sys
    sys.exit(C15().main(sys.argv[1:]))
