"""C04 -- RTCDtlsTransport: identity policy, start() gate, SRTP key mirroring.

Four kinds of cases, all derived from the one PRNG:
  kind 0  _validate_peer_identity on a real certificate behind a stub _ssl          (model: validate_identity)
  kind 1  SRTPProtectionProfile.get_key_and_salt                                   (model: get_key_and_salt)
  kind 2  the real start() / _recv_next / _send_rtp / _send_data / stop driven by a scripted SSL
          connection, scripted SRTP sessions and a scripted ICE transport          (model: start, run)
  kind 3  END-TO-END: two real RTCDtlsTransport objects over an in-memory ICE pair, real OpenSSL and
          libsrtp; the values OpenSSL produced (handshake outcome, selected profile, exported material)
          are recorded and replayed into the model (kind 2 input per side); RTP/RTCP/data with random
          payloads and bit-flipped copies are sent afterwards.  This part is testing, not proof.
The oracle states the property on the implementation's behaviour without using the model.
"""
import asyncio
import hashlib
import json
import os
import sys
from unittest import mock

from harness.framework import Check, canon

ALGS = ["sha-256", "sha-384", "sha-512"]                 # the property's "supported hash" names
UNSUPPORTED = ["sha-1", "md5", "sha-224", "sha256", "sha-256 ", "", "SHA_256", "sha‐256", "K"]
SPECIAL_CHARS = ["ﬀ", "ß", "ſ", "ı", "K", "é", "İ", "ﬃ"]
HASHLIB = {"sha-256": "sha256", "sha-384": "sha384", "sha-512": "sha512"}


# ---------------------------------------------------------------------------------- certificates
_POOL = []


def cert_pool():
    if not _POOL:
        from aiortc.rtcdtlstransport import RTCCertificate
        for _ in range(3):
            _POOL.append(RTCCertificate.generateCertificate())
    return _POOL


def true_digest(cert, alg):
    """certificate digest computed independently of aiortc (hashlib over the DER encoding)"""
    from cryptography.hazmat.primitives.serialization import Encoding
    der = cert._cert.public_bytes(Encoding.DER)
    h = hashlib.new(HASHLIB[alg], der).hexdigest().upper()
    return ":".join(h[i:i + 2] for i in range(0, len(h), 2))


def digest_table(cert):
    return [[cps(a), cps(true_digest(cert, a))] for a in ALGS]


def cps(s):
    return [ord(c) for c in s]


# ---------------------------------------------------------------------------------- fingerprint recipes
def vary_case(rng, s):
    m = rng.randrange(4)
    if m == 0:
        return s.lower()
    if m == 1:
        return s.upper()
    if m == 2:
        return s
    return "".join(c.upper() if rng.random() < 0.5 else c.lower() for c in s)


def gen_fp_recipes(rng, allow_special=True):
    """list of [algorithm string, value recipe]; value recipe = [mode, arg...] resolved against the
    peer certificate when the case runs (certificates are generated per process)."""
    style = rng.randrange(10)
    fps = []
    if style == 0:      # unsupported only
        for _ in range(rng.randrange(1, 4)):
            fps.append([rng.choice(UNSUPPORTED), ["good", rng.choice(ALGS), rng.randrange(1 << 30)]])
        return fps
    algs = rng.sample(ALGS, rng.randrange(1, 4))
    if rng.random() < 0.15:
        algs.append(rng.choice(ALGS))                     # duplicate algorithm
    n_bad = 0
    if style in (1, 2, 3):                                # one corrupted
        n_bad = 1
    elif style == 4:
        n_bad = rng.randrange(0, len(algs) + 1)
    bad = set(rng.sample(range(len(algs)), min(n_bad, len(algs))))
    for j, a in enumerate(algs):
        name = vary_case(rng, a)
        if j in bad:
            mode = rng.choice(["flip", "flip", "trunc", "other", "nocolon", "garbage", "empty", "special"])
            if mode == "special" and not allow_special:
                mode = "flip"
            fps.append([name, [mode, a, rng.randrange(1 << 30)]])
        else:
            fps.append([name, ["good", a, rng.randrange(1 << 30)]])
    if style in (5, 6, 7) or rng.random() < 0.2:          # mixtures with unsupported entries
        for _ in range(rng.randrange(1, 3)):
            fps.insert(rng.randrange(len(fps) + 1),
                       [rng.choice(UNSUPPORTED), [rng.choice(["good", "garbage"]), rng.choice(ALGS),
                                                  rng.randrange(1 << 30)]])
    if allow_special and rng.random() < 0.08:             # non-ASCII letters in an algorithm name
        j = rng.randrange(len(fps))
        s = fps[j][0]
        k = rng.randrange(len(s) + 1)
        fps[j][0] = s[:k] + rng.choice(SPECIAL_CHARS) + s[k:]
    rng.shuffle(fps)
    return fps


def resolve_value(recipe, cert):
    import random
    mode, alg, seed = recipe
    r = random.Random(seed)
    good = true_digest(cert, alg)
    cased = "".join(c.lower() if r.random() < 0.5 else c for c in good) if r.random() < 0.6 else (
        good.lower() if r.random() < 0.5 else good)
    if mode == "good":
        return cased
    if mode == "flip":                                    # one hex digit changed
        pos = r.choice([i for i, c in enumerate(cased) if c != ":"])
        repl = r.choice([c for c in "0123456789abcdefABCDEF" if c.upper() != cased[pos].upper()])
        return cased[:pos] + repl + cased[pos + 1:]
    if mode == "trunc":
        return cased[:r.randrange(0, len(cased))]
    if mode == "other":                                   # digest of another algorithm / certificate
        other = [c for c in cert_pool() if c is not cert]
        return true_digest(r.choice(other), alg) if r.random() < 0.5 else true_digest(
            cert, r.choice([a for a in ALGS if a != alg]))
    if mode == "nocolon":
        return cased.replace(":", "")
    if mode == "empty":
        return ""
    if mode == "special":                                 # ff-ligature etc. standing for letters
        s = good
        if "FF" in s and r.random() < 0.7:
            return s.replace("FF", "ﬀ", 1)
        pos = r.randrange(len(s))
        return s[:pos] + r.choice(SPECIAL_CHARS) + s[pos + 1:]
    return "".join(r.choice("0123456789ABCDEF:xyz ") for _ in range(r.randrange(0, 40)))


def resolve_fps(recipes, cert):
    return [[a, resolve_value(v, cert)] for a, v in recipes]


def policy_expected(fps, cert):
    """The property's sentence, in plain Python (independent of aiortc and of the model)."""
    sup = [(a.lower(), v) for a, v in fps if a.lower() in ALGS]
    return bool(sup) and all(v.upper() == true_digest(cert, a) for a, v in sup)


# ---------------------------------------------------------------------------------- scripted world (kind 2)
class ScriptExhausted(BaseException):
    pass


class World:
    def __init__(self):
        self.script = []
        self.cur = None                 # current datagram event
        self.next_write = (False, True)  # (bio has data, transport._send ok)
        self.hs_recv = None             # event for the next transport._recv during the handshake
        self.in_handshake = False
        self.queue = None
        self.recv_calls = 0
        self.events = []                # deliveries ("data"/"rtp"/"rtcp", bytes)
        self.sent = []                  # ("rtp"|"rtcp"|"data")
        self.selected = None
        self.material = b""
        self.cert = None
        self.export_len = []


def make_fakes(world):
    import pylibsrtp
    from OpenSSL import SSL

    class FakeSSL:
        def __init__(self, ctx):
            self.state = None

        def set_accept_state(self):
            self.state = "accept"

        def set_connect_state(self):
            self.state = "connect"

        def do_handshake(self):
            if not world.script:
                raise ScriptExhausted()
            it = world.script.pop(0)
            if it[0] == 0:
                return
            if it[0] == 1:
                raise SSL.Error([("SSL routines", "", "scripted failure")])
            world.next_write = (bool(it[1]), bool(it[2]))
            world.hs_recv = it[3]
            raise SSL.WantReadError()

        def bio_read(self, n):
            if world.next_write[0]:
                return b"\x16scripted"
            raise SSL.WantReadError()

        def bio_write(self, data):
            return len(data)

        def recv(self, n):
            r = world.cur[1]
            if r[0] == 0:
                return bytes(r[1])
            if r[0] == 1:
                raise SSL.ZeroReturnError()
            raise SSL.Error([("SSL routines", "", "scripted record failure")])

        def send(self, data):
            world.sent.append("data")
            return len(data)

        def shutdown(self):
            return True

        def get_peer_certificate(self, as_cryptography=False):
            assert as_cryptography
            return world.cert._cert

        def get_selected_srtp_profile(self):
            return world.selected

        def export_keying_material(self, label, n, context=None):
            assert label == b"EXTRACTOR-dtls_srtp"
            world.export_len.append(n)
            return world.material

        def DTLSv1_get_timeout(self):
            return None

        def DTLSv1_handle_timeout(self):
            return False

    class FakePolicy:
        SSRC_ANY_INBOUND = "in"
        SSRC_ANY_OUTBOUND = "out"

        def __init__(self, key=None, ssrc_type=None, srtp_profile=None):
            self.key = key
            self.ssrc_type = ssrc_type
            self.srtp_profile = srtp_profile

    class FakeSession:
        def __init__(self, policy):
            self.policy = policy

        def _un(self, kind, data):
            assert self.policy.ssrc_type == "in"
            u = world.cur[4]
            world.unprotect_kind = kind
            if not u:
                raise pylibsrtp.Error("scripted unprotect failure")
            return bytes(u[0])

        def unprotect(self, data):
            return self._un("rtp", data)

        def unprotect_rtcp(self, data):
            return self._un("rtcp", data)

        def _pr(self, kind, data):
            assert self.policy.ssrc_type == "out"
            if not world.protect_ok:
                raise pylibsrtp.Error("scripted protect failure")
            world.sent.append(kind)
            return b"\x80" + data

        def protect(self, data):
            return self._pr("rtp", data)

        def protect_rtcp(self, data):
            return self._pr("rtcp", data)

    class FakeIce:
        def __init__(self, role):
            self.role = role

        async def _recv(self):
            world.recv_calls += 1
            if world.in_handshake:
                ev = world.hs_recv
                world.hs_recv = None
                if ev is None:
                    raise ScriptExhausted()
                if ev == []:
                    raise ConnectionError
            else:
                ev = await world.queue.get()
                if ev is None:
                    raise ConnectionError
            world.cur = ev
            world.next_write = (bool(ev[2]), bool(ev[3]))
            return bytes(ev[0])

        async def _send(self, data):
            if not world.next_write[1]:
                raise ConnectionError
    return FakeSSL, FakePolicy, FakeSession, FakeIce


class Receiver:
    def __init__(self, sink):
        self.sink = sink

    async def _handle_data(self, data):
        self.sink.append(["data", bytes(data)])


def rx_code(ev):
    return {"data": 1, "rtp": 2, "rtcp": 3}[ev[0]]


def role_code(r):
    return {"auto": 0, "server": 1, "client": 2}[r]


def snapshot(sess, profile_names):
    """[state, encrypted, role, tx key, rx key, profile, pump] of a (real) transport object"""
    def key(s):
        return [] if s is None else [list(s._verif_key)]
    prof = []
    if sess._tx_srtp is not None:
        prof = [list(profile_names[sess._tx_srtp._verif_profile])]
    task = sess._task
    return [sess._state.value, 1 if sess.encrypted else 0, role_code(sess._role), key(sess._tx_srtp),
            key(sess._rx_srtp), prof, 1 if (task is not None and not task.done()) else 0]


async def spin(n=4):
    for _ in range(n):
        await asyncio.sleep(0)


async def run_scripted(case):
    import aiortc.rtcdtlstransport as M
    from OpenSSL import SSL
    world = World()
    world.queue = asyncio.Queue()
    world.protect_ok = True
    world.unprotect_kind = None
    FakeSSL, FakePolicy, FakeSession, FakeIce = make_fakes(world)

    class KeyedSession(FakeSession):
        def __init__(self, policy):
            super().__init__(policy)
            self._verif_key = policy.key
            self._verif_profile = policy.srtp_profile

    cert_local = cert_pool()[case["local_cert"]]
    world.cert = cert_pool()[case["peer_cert"]]
    profiles = []
    names = {}
    for idx, p in enumerate(case["profiles"]):
        name, k, s = profile_triple(p)
        profiles.append(M.SRTPProtectionProfile(libsrtp_profile=idx, openssl_profile=bytes(name), key_length=k,
                                                salt_length=s))
        names[idx] = bytes(name)
    cert_local._create_ssl_context = lambda srtp_profiles: None
    try:
        with mock.patch.object(SSL, "Connection", FakeSSL), mock.patch.object(M, "Policy", FakePolicy), \
                mock.patch.object(M, "Session", KeyedSession):
            ice = FakeIce("controlling")
            sess = M.RTCDtlsTransport(ice, [cert_local])
            sess._srtp_profiles = profiles
            if case["role"] == 1:
                sess._set_role("server")
            elif case["role"] == 2:
                sess._set_role("client")
            events = []
            if case["receiver"]:
                sess._register_data_receiver(Receiver(events))

            async def h_rtp(data, arrival_time_ms):
                events.append(["rtp", bytes(data)])

            async def h_rtcp(data):
                events.append(["rtcp", bytes(data)])
            sess._handle_rtp_data = h_rtp
            sess._handle_rtcp_data = h_rtcp

            start_results = []
            for st in case["starts"]:
                ice.role = "controlling" if st["controlling"] else "controlled"
                world.script = [list(x) for x in st["script"]]
                world.selected = None if st["selected"] is None else bytes(st["selected"])
                world.material = bytes(st["material"])
                world.in_handshake = True
                fps = resolve_fps(st["fps"], world.cert)
                params = M.RTCDtlsParameters(fingerprints=[M.RTCDtlsFingerprint(algorithm=a, value=v)
                                                           for a, v in fps])
                n_ev = len(events)
                n_recv = world.recv_calls
                code = 0
                try:
                    await sess.start(params)
                except ScriptExhausted:
                    code = 2
                except Exception:
                    code = 1
                world.in_handshake = False
                # one entry per datagram the handshake loop consumed
                consumed = world.recv_calls - n_recv
                evs = events[n_ev:]
                outs = [[rx_code(e), list(e[1])] for e in evs]
                st["_consumed"] = consumed
                start_results.append([code, snapshot(sess, names), outs])
                await spin(2)
            outs = []
            for op in case["ops"]:
                world.next_write = (False, True)
                before = len(events)
                if op[0] == 0:
                    world.protect_ok = bool(op[2])
                    world.next_write = (True, bool(op[3]))
                    n_sent = len(world.sent)
                    try:
                        await sess._send_rtp(bytes(op[1]))
                        outs.append([2, 1 if world.sent[n_sent:] == ["rtcp"] else 0])
                    except ConnectionError:
                        outs.append([0])
                    except Exception:
                        outs.append([1])
                elif op[0] == 1:
                    world.next_write = (bool(op[2]), bool(op[3]))
                    try:
                        await sess._send_data(bytes(op[1]))
                        outs.append([3])
                    except ConnectionError:
                        outs.append([0])
                    except Exception:
                        outs.append([1])
                elif op[0] in (2, 3):
                    item = None if op[0] == 3 else op[1]
                    task = sess._task
                    world.queue.put_nowait(item)
                    calls = world.recv_calls
                    for _ in range(12):
                        await asyncio.sleep(0)
                        if world.queue.empty() and (world.recv_calls > calls or (task is not None and task.done())):
                            break
                    if not world.queue.empty():
                        world.queue.get_nowait()          # nobody is reading
                        outs.append([6])
                    elif task is not None and task.done():
                        exc = None if task.cancelled() else task.exception()
                        outs.append([1] if exc is not None else [5])
                    else:
                        evs = events[before:]
                        if len(evs) > 1:
                            outs.append([1])
                        elif evs:
                            outs.append([4, [rx_code(evs[0]), list(evs[0][1])]])
                        else:
                            outs.append([4, [0]])
                else:
                    task = sess._task
                    was_running = task is not None and not task.done()
                    await sess.stop()
                    await spin(3)
                    outs.append([5] if was_running and task.done() else [6])
            final = snapshot(sess, names)
            case["_rec"] = {"export_len": world.export_len}
            task = sess._task
            await sess.stop()
            await spin(3)
            if task is not None and task.done() and not task.cancelled():
                task.exception()
            return [start_results, outs, final]
    finally:
        del cert_local._create_ssl_context


def profile_triple(p):
    """profile reference in a case: int = index into the generated table (source order), or [name, k, s]"""
    if isinstance(p, int):
        return GEN_PROFILES[p]
    return p


# The table from the source, read the same way the Coq side gets it (harness/translate_tables.py).
def _load_gen_profiles():
    sys.path.insert(0, os.path.join(os.path.dirname(os.path.dirname(os.path.abspath(__file__)))))
    import translate
    import translate_tables
    mod = translate.Module("rtcdtlstransport.py")
    return [[list(o), k, s] for _, o, k, s in translate_tables._dtls_srtp_profiles(mod)]


GEN_PROFILES = _load_gen_profiles()


# ---------------------------------------------------------------------------------- end to end (kind 3)
class Link:
    """One direction of the in-memory ICE pair."""

    def __init__(self):
        self.queue = asyncio.Queue()
        self.closed = False
        self.hold_mode = 0            # 0 deliver, 1 hold from the ChangeCipherSpec flight on
        self.holding = False
        self.held = []
        self.capture = None           # list collecting datagrams instead of delivering them
        self.count = 0

    def send(self, data):
        self.count += 1
        if self.capture is not None:
            self.capture.append(data)
            return
        if self.hold_mode and not self.holding and has_ccs(data):
            self.holding = True
        if self.holding:
            self.held.append(data)
            return
        self.queue.put_nowait(data)


def has_ccs(data):
    """does this datagram contain a DTLS ChangeCipherSpec record (content type 20)?"""
    pos = 0
    while pos + 13 <= len(data):
        if data[pos] == 20:
            return True
        pos += 13 + int.from_bytes(data[pos + 11:pos + 13], "big")
    return False


class PairIce:
    def __init__(self, role, rx, tx):
        self.role = role
        self.rx = rx
        self.tx = tx
        self.waiting = 0

    async def _recv(self):
        self.waiting += 1
        data = await self.rx.queue.get()
        if data is None:
            raise ConnectionError
        return data

    async def _send(self, data):
        if self.tx.closed:
            raise ConnectionError
        self.tx.send(data)


async def settle(ice, rounds=40):
    """let the peer's pump consume everything queued for it"""
    for _ in range(rounds):
        await asyncio.sleep(0)
        if ice.rx.queue.empty():
            await asyncio.sleep(0)
            await asyncio.sleep(0)
            return


def rtp_packet(seq, ssrc, payload, marker_pt=96):
    return bytes([0x80, marker_pt & 0x7F]) + seq.to_bytes(2, "big") + (seq * 160 & 0xFFFFFFFF).to_bytes(4, "big") \
        + ssrc.to_bytes(4, "big") + payload


def rtcp_packet(pt, ssrc, payload):
    payload = payload + b"\x00" * (-len(payload) % 4)
    return bytes([0x80, pt]) + (1 + len(payload) // 4).to_bytes(2, "big") + ssrc.to_bytes(4, "big") + payload


def flip(data, bit):
    bit %= len(data) * 8
    b = bytearray(data)
    b[bit // 8] ^= 1 << (bit % 8)
    return bytes(b)


async def run_e2e(case, limit=6):
    import random
    import aiortc.rtcdtlstransport as M
    from OpenSSL import SSL
    recs = {}

    class SpyPolicy(M.Policy):
        def __init__(self, **kw):
            super().__init__(**kw)
            self._verif = (kw["key"], kw["srtp_profile"])

    class SpySession(M.Session):
        def __init__(self, policy):
            super().__init__(policy)
            self._verif_key, self._verif_profile = policy._verif

    orig_export = SSL.Connection.export_keying_material
    orig_selected = SSL.Connection.get_selected_srtp_profile

    def export(self, label, n, *a):
        r = orig_export(self, label, n, *a)
        recs.setdefault(id(self), {})["material"] = (n, r)
        return r

    def selected(self):
        r = orig_selected(self)
        recs.setdefault(id(self), {})["selected"] = r
        return r

    avail = {p.openssl_profile: p for p in M.SRTP_PROFILES}
    names = {p.libsrtp_profile: p.openssl_profile for p in M.SRTP_PROFILES}
    l_ab, l_ba = Link(), Link()
    swap = case["roles"] in (1, 3)
    ice = [PairIce("controlled" if swap else "controlling", l_ba, l_ab),
           PairIce("controlling" if swap else "controlled", l_ab, l_ba)]
    certs = [cert_pool()[case["certs"][0]], cert_pool()[case["certs"][1]]]
    with mock.patch.object(M, "Policy", SpyPolicy), mock.patch.object(M, "Session", SpySession), \
            mock.patch.object(SSL.Connection, "export_keying_material", export), \
            mock.patch.object(SSL.Connection, "get_selected_srtp_profile", selected):
        sess = [M.RTCDtlsTransport(ice[j], [certs[j]]) for j in range(2)]
        if case["roles"] == 2:
            sess[0]._set_role("client")
            sess[1]._set_role("server")
        elif case["roles"] == 3:
            sess[0]._set_role("server")
            sess[1]._set_role("client")
        server = 1 if case["roles"] in (1, 2) else 0
        events = [[], []]
        for j in range(2):
            profs = [avail[bytes(GEN_PROFILES[p][0])] for p in case["profiles"][j] if bytes(GEN_PROFILES[p][0]) in avail]
            sess[j]._srtp_profiles = profs
            sess[j]._register_data_receiver(Receiver(events[j]))

            def mk(j):
                async def h_rtp(data, arrival_time_ms):
                    events[j].append(["rtp", bytes(data)])

                async def h_rtcp(data):
                    events[j].append(["rtcp", bytes(data)])
                return h_rtp, h_rtcp
            sess[j]._handle_rtp_data, sess[j]._handle_rtcp_data = mk(j)
        fps = [resolve_fps(case["fps"][j], certs[1 - j]) for j in range(2)]
        params = [M.RTCDtlsParameters(fingerprints=[M.RTCDtlsFingerprint(algorithm=a, value=v) for a, v in fps[j]])
                  for j in range(2)]
        early = case["early"]             # 0 none, 1 merged into one datagram, 2 overtaking the final flight
        early_payload = bytes(case["early_payload"])
        srv_link = ice[server].tx
        if early:
            srv_link.hold_mode = 1
        early_sent = [False]

        n_at_return = [None, None]

        raised = [None, None]

        async def side(j):
            try:
                await sess[j].start(params[j])
            except Exception as exc:
                raised[j] = repr(exc)[:200]
            finally:
                n_at_return[j] = len(events[j])
            if j == server and early:
                appdata = []
                if sess[j].state == "connected":
                    srv_link.capture = appdata
                    await sess[j]._send_data(early_payload)
                    srv_link.capture = None
                    early_sent[0] = True
                held, srv_link.held, srv_link.holding, srv_link.hold_mode = srv_link.held, [], False, 0
                if early == 1:
                    if held or appdata:
                        srv_link.queue.put_nowait(b"".join(held + appdata))
                else:
                    for d in appdata + held:
                        srv_link.queue.put_nowait(d)
        timed_out = False
        try:
            await asyncio.wait_for(asyncio.gather(side(0), side(1)), limit)
        except asyncio.TimeoutError:
            timed_out = True
        await settle(ice[0])
        await settle(ice[1])
        after_start = [snapshot(sess[j], names) for j in range(2)]
        start_events = [[[rx_code(e), list(e[1])] for e in events[j][:n_at_return[j]]] for j in range(2)]
        early_events = [[[rx_code(e), list(e[1])] for e in events[j][n_at_return[j] or 0:]] for j in range(2)]
        side_rec = []
        for j in range(2):
            r = recs.get(id(sess[j]._ssl), {}) if sess[j]._ssl is not None else {}
            side_rec.append({
                "encrypted": bool(sess[j].encrypted),
                "selected": None if r.get("selected") is None else list(r["selected"]),
                "material": list(r["material"][1]) if "material" in r else [],
                "export_len": r["material"][0] if "material" in r else None,
                "role": sess[j]._role,
            })
        # ---- traffic
        rnd = random.Random(case["traffic_seed"])
        seq = [rnd.randrange(0, 30000), rnd.randrange(0, 30000)]
        traffic = []
        for msg in case["traffic"]:
            src, kind, size, tamper = msg
            dst = 1 - src
            payload = bytes(rnd.randrange(256) for _ in range(size))
            if kind == 0:
                raw = payload or b"\x00"
            elif kind == 1:
                seq[src] += 1
                raw = rtp_packet(seq[src] & 0xFFFF, 0x1000 + src, payload, rnd.choice([0, 96, 111, 127]))
            else:
                raw = rtcp_packet(rnd.choice([200, 201, 205, 206]), 0x1000 + src, payload)
            link = ice[src].tx
            cap = []
            link.capture = cap
            err = 0
            try:
                if kind == 0:
                    await sess[src]._send_data(raw)
                else:
                    await sess[src]._send_rtp(raw)
            except ConnectionError:
                err = 1
            except Exception:
                err = 2
            link.capture = None
            n0 = len(events[dst])
            leaked = 0
            for t in tamper:                       # bit-flipped copies first
                for d in cap:
                    bit = t % (len(d) * 8)
                    if kind == 0 and bit // 8 in (11, 12) and len(d) > 15:
                        # not the length field of the DTLS record header: OpenSSL 4.0.2 answers a record that
                        # became too short for its AEAD nonce+tag with a fatal alert and the association is dead
                        # (library behaviour, nothing aiortc can repair); see level_note
                        bit += 16
                    link.queue.put_nowait(flip(d, bit))
                await settle(ice[dst])
            tampered_delivered = [[rx_code(e), list(e[1])] for e in events[dst][n0:]]
            n1 = len(events[dst])
            for d in cap:
                if len(payload) >= 8 and payload in d:
                    leaked = 1                     # payload visible in clear on the wire
                link.queue.put_nowait(d)
            await settle(ice[dst])
            got = [[rx_code(e), list(e[1])] for e in events[dst][n1:]]
            code = {0: 1, 1: 2, 2: 3}[kind]
            traffic.append({"src": src, "kind": kind, "raw_len": len(raw), "raw_head": list(raw[:12]), "err": err,
                            "datagrams": len(cap), "tampered_delivered": [[c, x[:12]] for c, x in tampered_delivered],
                            "intact": got == [[code, list(raw)]], "got_n": len(got),
                            "got_head": [[c, x[:12]] for c, x in got[:2]], "leaked": leaked,
                            "dst_state": sess[dst].state, "src_state": sess[src].state})
        # ---- a late packet: one RTP packet is held back while `late` later ones (also across the 16-bit sequence wrap)
        # arrive, then delivered.  The SRTP replay window is configured to 1024 packets: it must still be accepted,
        # and its replay must not.
        late = None
        if case.get("late") and sess[0].state == "connected" and sess[1].state == "connected":
            n_late, src = case["late"]
            dst = 1 - src
            link = ice[src].tx
            base = 65536 - n_late // 2
            cap = []
            link.capture = cap
            pkts = []
            for i in range(n_late + 1):
                raw = rtp_packet((base + i) & 0xFFFF, 0x2000 + src, bytes([i & 0xFF, 7, 7, 7]))
                pkts.append(raw)
                await sess[src]._send_rtp(raw)
            link.capture = None
            n0 = len(events[dst])
            for d in cap[1:]:
                link.queue.put_nowait(d)
            await settle(ice[dst])
            on_time = len(events[dst]) - n0
            n1 = len(events[dst])
            link.queue.put_nowait(cap[0])
            await settle(ice[dst])
            got_late = [[rx_code(e), list(e[1])] for e in events[dst][n1:]]
            n2 = len(events[dst])
            link.queue.put_nowait(cap[0])
            await settle(ice[dst])
            late = {"n": n_late, "on_time": on_time, "late_intact": got_late == [[2, list(pkts[0])]],
                    "replay_delivered": len(events[dst]) - n2, "datagrams": len(cap)}
        final = [snapshot(sess[j], names) for j in range(2)]
        # guard probes on sides that are not connected
        probes = []
        for j in range(2):
            pr = []
            if sess[j].state != "connected":
                for fn, arg in ((sess[j]._send_rtp, rtp_packet(1, 1, b"x")), (sess[j]._send_data, b"x")):
                    try:
                        await fn(arg)
                        pr.append([3])
                    except ConnectionError:
                        pr.append([0])
                    except Exception:
                        pr.append([1])
            probes.append(pr)
        for j in range(2):
            task = sess[j]._task
            await sess[j].stop()
            await spin(3)
            if task is not None and task.done() and not task.cancelled():
                task.exception()
        case["_rec"] = {"sides": side_rec, "timed_out": timed_out, "traffic": traffic, "fps": fps,
                        "early_sent": early_sent[0], "raised": raised, "start_events": start_events, "early_events": early_events,
                        "policy": [policy_expected(fps[j], certs[1 - j]) for j in range(2)],
                        "common_profile": bool(set(p.openssl_profile for p in sess[0]._srtp_profiles) &
                                               set(p.openssl_profile for p in sess[1]._srtp_profiles)),
                        "server": server, "late": late}
        out = []
        for j in range(2):
            code = 0 if not timed_out or after_start[j][0] in (2, 3, 4) else 2
            if raised[j] is not None:
                code = 1
            out.append([[[code, after_start[j], start_events[j]]], probes[j], final[j]])
        return out


_DOUBLE_TIMEOUTS = [0]


# ---------------------------------------------------------------------------------- the check
class C04(Check):
    prop = "C04"
    props_file = "Props/C04.v"
    models = ["Dtls"]
    quick_cases = 6000
    thorough_cases = 200000
    case_timeout = 60.0
    level_note = (
        "PARTIAL: theorems are about Model/Dtls.v (identity policy, start() gate incl. 'nothing handed over or sent "
        "unless all three stages passed' over all histories, SRTP key slicing / mirroring for every profile of the "
        "generated table and every material of the right length). The sentence 'every packet sent by one side is "
        "received intact, altered packets are discarded' is a property of OpenSSL/libsrtp given mirrored keys: it is "
        "outside every theorem and only OBSERVED (testing) on real RTCDtlsTransport pairs over an in-memory ICE pair. "
        "Oracles quantified over, not axioms: certificate digests, handshake script, selected profile, exported "
        "material, ssl.recv/unprotect/_send outcomes. Model tied to /repo by differential runs of the real "
        "_validate_peer_identity (real certificate, stub _ssl), get_key_and_salt, and the real start()/_recv_next/"
        "_send_rtp/_send_data/stop code driven by a scripted SSL connection; Gen/Dtls.v regenerated from the source. "
        "End-to-end bit flips skip the 2-byte length field of DTLS records: OpenSSL 4.0.2 answers an AEAD record made "
        "too short with a fatal alert that kills the association (the altered record is still not delivered); that "
        "is library behaviour outside aiortc.")
    rule = ("kinds: 0 identity policy (subsets/permutations/duplicates of sha-256/384/512, upper/lower/mixed case, "
            "one/several corrupted values, unsupported-only, mixtures, non-ASCII case-mapping characters); 1 key "
            "slicing (table profiles and random k,s; exact/short/long material; idx 0..3); 2 scripted transport "
            "histories (handshake scripts with datagrams, failures, ICE close; profile lists; roles; send/recv/stop "
            "ops); 3 real end-to-end pairs (fingerprint matrix x SRTP preference lists per side x 4 role assignments "
            "x early-data merge/reorder x RTP/RTCP/data traffic with bit-flipped copies). distinct by (case, outputs); "
            "non-trivial = policy verdict true with >=2 fingerprints / exact-length slice / scripted run reaching "
            "CONNECTED with a delivery or a failed run with ops / e2e pair with at least one connected side")

    # ------------------------------------------------------------ generator
    def gen_case(self, rng, i):
        k = rng.random()
        if k < 0.25:
            return {"kind": 0, "cert": rng.randrange(3), "fps": gen_fp_recipes(rng)}
        if k < 0.32:
            return self.gen_slice(rng)
        if k < 0.67:
            return self.gen_scripted(rng)
        return self.gen_e2e(rng)

    def gen_slice(self, rng):
        if rng.random() < 0.6:
            _, ks, ss = GEN_PROFILES[rng.randrange(len(GEN_PROFILES))]
        else:
            ks, ss = rng.randrange(0, 40), rng.randrange(0, 20)
        exact = 2 * (ks + ss)
        n = exact if rng.random() < 0.6 else rng.choice([0, 1, ks, 2 * ks, max(0, exact - 1), exact + 1,
                                                          rng.randrange(0, 2 * exact + 4)])
        return {"kind": 1, "k": ks, "s": ss, "src": [rng.randrange(256) for _ in range(n)],
                "idx": rng.choice([0, 0, 1, 1, 1, 2, 3])}

    def gen_dgram(self, rng):
        fb = rng.choice([0, 1, 19, 20, 22, 23, 63, 64, 100, 127, 128, 129, 144, 191, 192, 255, rng.randrange(256)])
        if rng.random() < 0.03:
            data = []
        else:
            second = rng.choice([0, 96, 191, 192, 200, 208, 209, 72 + 128, rng.randrange(256)])
            data = [fb] + ([second] if rng.random() < 0.9 else []) + [rng.randrange(256) for _ in range(rng.randrange(0, 6))]
        r = rng.random()
        if r < 0.6:
            ssl = [0, [rng.randrange(256) for _ in range(rng.choice([0, 1, 3, 8]))]]
        elif r < 0.7:
            ssl = [1]
        else:
            ssl = [2]
        unprot = [] if rng.random() < 0.3 else [[rng.randrange(256) for _ in range(rng.randrange(0, 8))]]
        return [data, ssl, 1 if rng.random() < 0.5 else 0, 0 if rng.random() < 0.07 else 1, unprot]

    def gen_scripted(self, rng):
        nprof = rng.randrange(1, 4)
        profiles = []
        for _ in range(nprof):
            if rng.random() < 0.8:
                profiles.append(rng.randrange(len(GEN_PROFILES)))
            else:
                profiles.append([[rng.randrange(65, 91) for _ in range(rng.randrange(1, 6))], rng.randrange(0, 20),
                                 rng.randrange(0, 16)])
        starts = []
        for sidx in range(2 if rng.random() < 0.1 else 1):
            script = []
            for _ in range(rng.randrange(0, 5)):
                ev = [] if rng.random() < 0.04 else self.gen_dgram(rng)
                script.append([2, 1 if rng.random() < 0.7 else 0, 0 if rng.random() < 0.04 else 1, ev])
            r = rng.random()
            if r < 0.84:
                script.append([0])
            elif r < 0.94:
                script.append([1])
            # else: left open (pending)
            fps = gen_fp_recipes(rng) if rng.random() < 0.97 else []
            if rng.random() < 0.5:       # mostly-valid stream: make the policy pass
                fps = [[vary_case(rng, a), ["good", a, rng.randrange(1 << 30)]] for a in rng.sample(ALGS, rng.randrange(1, 4))]
            pick = rng.random()
            names = [profile_triple(p) for p in profiles]
            if pick < 0.8:
                sel = list(rng.choice(names)[0])
            elif pick < 0.9:
                sel = list(GEN_PROFILES[rng.randrange(len(GEN_PROFILES))][0])
            elif pick < 0.95:
                sel = None
            else:
                sel = []
            ksum = 88
            for nm, kk, ss in names:
                if sel == list(nm):
                    ksum = 2 * (kk + ss)
                    break
            mlen = ksum if rng.random() < 0.85 else rng.randrange(0, 100)
            starts.append({"controlling": rng.random() < 0.5, "fps": fps, "script": script, "selected": sel,
                           "material": [rng.randrange(256) for _ in range(mlen)]})
        ops = []
        for _ in range(rng.randrange(0, 8)):
            r = rng.random()
            if r < 0.25:
                second = rng.choice([96, 0, 191, 192, 200, 208, 209])
                data = [128] + ([second] if rng.random() < 0.9 else []) + [rng.randrange(256) for _ in range(rng.randrange(0, 12))]
                ops.append([0, data, 0 if rng.random() < 0.08 else 1, 0 if rng.random() < 0.08 else 1])
            elif r < 0.45:
                ops.append([1, [rng.randrange(256) for _ in range(rng.randrange(0, 10))], 1 if rng.random() < 0.8 else 0,
                            0 if rng.random() < 0.08 else 1])
            elif r < 0.9:
                ops.append([2, self.gen_dgram(rng)])
            elif r < 0.95:
                ops.append([3])
            else:
                ops.append([4])
        return {"kind": 2, "role": rng.choice([0, 0, 1, 2]), "profiles": profiles, "receiver": rng.random() < 0.85,
                "local_cert": rng.randrange(3), "peer_cert": rng.randrange(3), "starts": starts, "ops": ops}

    def gen_e2e(self, rng):
        nprof = len(GEN_PROFILES)
        profs = []
        for _ in range(2):
            p = rng.sample(range(nprof), rng.randrange(1, nprof + 1))
            profs.append(p)
        if rng.random() < 0.6:           # make a common profile likely
            if not set(profs[0]) & set(profs[1]):
                profs[1].insert(rng.randrange(len(profs[1]) + 1), rng.choice(profs[0]))
        fps = []
        for _ in range(2):
            if rng.random() < 0.6:
                f = [[vary_case(rng, a), ["good", a, rng.randrange(1 << 30)]] for a in rng.sample(ALGS, rng.randrange(1, 4))]
                if rng.random() < 0.3:
                    f.insert(rng.randrange(len(f) + 1), [rng.choice(UNSUPPORTED), ["garbage", "sha-256", rng.randrange(1 << 30)]])
            else:
                f = gen_fp_recipes(rng)
            fps.append(f)
        ca = rng.randrange(3)
        cb = rng.choice([x for x in range(3) if x != ca])
        traffic = []
        for _ in range(rng.randrange(2, 7)):
            tamper = [rng.randrange(0, 4000) for _ in range(rng.choice([0, 1, 1, 2]))]
            traffic.append([rng.randrange(2), rng.randrange(3), rng.choice([0, 1, 5, 20, 160, 900]), tamper])
        return {"kind": 3, "certs": [ca, cb], "roles": rng.randrange(4), "profiles": profs, "fps": fps,
                "early": rng.choice([0, 0, 1, 2]), "early_payload": [rng.randrange(256) for _ in range(rng.randrange(1, 30))],
                "traffic": traffic, "traffic_seed": rng.randrange(1 << 30),
                "late": [rng.choice([60, 127, 128, 129, 500, 1000]), rng.randrange(2)] if rng.random() < 0.12 else None}

    # ------------------------------------------------------------ implementation
    def impl_run(self, case):
        try:
            return self.impl_run_inner(case)
        except Exception as exc:        # the harness itself or an unexpected exception of the implementation
            case["_exc"] = repr(exc)[:300]
            return [-2]

    def impl_run_inner(self, case):
        kind = case["kind"]
        if kind == 0:
            return self.impl_validate(case)
        if kind == 1:
            from aiortc.rtcdtlstransport import SRTPProtectionProfile
            p = SRTPProtectionProfile(libsrtp_profile=0, openssl_profile=b"x", key_length=case["k"],
                                      salt_length=case["s"])
            return list(p.get_key_and_salt(bytes(case["src"]), case["idx"]))
        if kind == 2:
            return asyncio.run(run_scripted(case))
        if _DOUBLE_TIMEOUTS[0] >= 3:
            # handshakes hang systematically (three pairs did not finish within 6 s and, retried, 30 s): further
            # end-to-end cases are not run and count as hanging, otherwise a broken tree costs 36 s per case
            case["_rec"] = None
            return [-3]
        out = asyncio.run(run_e2e(case))
        if case["_rec"]["timed_out"]:
            # a loaded machine can stall a handshake: retry once with a generous limit (DESIGN.md section 8)
            case["_retried"] = True
            out = asyncio.run(run_e2e(case, 30))
            if case["_rec"]["timed_out"]:
                _DOUBLE_TIMEOUTS[0] += 1
        return out

    def impl_validate(self, case):
        import aiortc.rtcdtlstransport as M
        cert = cert_pool()[case["cert"]]

        class StubSSL:
            def get_peer_certificate(self, as_cryptography=False):
                assert as_cryptography
                return cert._cert

        class Ice:
            role = "controlling"
        sess = M.RTCDtlsTransport(Ice(), [cert_pool()[0]])
        sess._ssl = StubSSL()
        fps = resolve_fps(case["fps"], cert)
        params = M.RTCDtlsParameters(fingerprints=[M.RTCDtlsFingerprint(algorithm=a, value=v) for a, v in fps])
        sess._validate_peer_identity(params)
        ok = sess._state != M.State.FAILED       # the state is left at NEW when the policy passes
        # certificate_digest is the oracle: it must be what the independent computation says
        for a in ALGS:
            if M.certificate_digest(cert._cert, a) != true_digest(cert, a):
                raise RuntimeError("certificate_digest differs from hashlib")
        return [1 if ok else 0]

    # ------------------------------------------------------------ model input
    def enc_profile(self, p):
        return p if isinstance(p, int) else [p[0], p[1], p[2]]

    def enc_side(self, role, profiles, receiver, cert, starts, ops):
        return [2, role, [self.enc_profile(p) for p in profiles], 1 if receiver else 0, digest_table(cert),
                starts, ops]

    def encode(self, case):
        kind = case["kind"]
        if kind == 0:
            cert = cert_pool()[case["cert"]]
            fps = resolve_fps(case["fps"], cert)
            return [0, [[cps(a), cps(v)] for a, v in fps], digest_table(cert)]
        if kind == 1:
            return [1, case["k"], case["s"], case["src"], case["idx"]]
        if kind == 2:
            cert = cert_pool()[case["peer_cert"]]
            starts = []
            for st in case["starts"]:
                fps = resolve_fps(st["fps"], cert)
                starts.append([1 if st["controlling"] else 0, [[cps(a), cps(v)] for a, v in fps], st["script"],
                               [] if st["selected"] is None else [st["selected"]], st["material"]])
            return self.enc_side(case["role"], case["profiles"], case["receiver"], cert, starts, case["ops"])
        rec = case.get("_rec")
        sides = []
        for j in range(2):
            cert = cert_pool()[case["certs"][1 - j]]
            if rec is None:
                sides.append(self.enc_side(0, [], True, cert, [], []))
                continue
            r = rec["sides"][j]
            swap = case["roles"] in (1, 3)
            controlling = (j == 0) != swap
            role = 0
            if case["roles"] == 2:
                role = 2 if j == 0 else 1
            elif case["roles"] == 3:
                role = 1 if j == 0 else 2
            avail = self.available_profiles()
            profs = [p for p in case["profiles"][j] if tuple(GEN_PROFILES[p][0]) in avail]
            script = [[0]] if r["encrypted"] else ([] if rec["timed_out"] else [[1]])
            start = [1 if controlling else 0, [[cps(a), cps(v)] for a, v in rec["fps"][j]], script,
                     [] if r["selected"] is None else [r["selected"]], r["material"]]
            probes = [[0, list(rtp_packet(1, 1, b"x")), 1, 1], [1, [120], 1, 1]] if rec["probe"][j] else []
            sides.append(self.enc_side(role, profs, True, cert, [start], probes))
        return [3, sides[0], sides[1]]

    _avail = None

    def available_profiles(self):
        if C04._avail is None:
            import aiortc.rtcdtlstransport as M
            C04._avail = {tuple(p.openssl_profile) for p in M.SRTP_PROFILES}
        return C04._avail

    def safe_impl(self, case):
        out = super().safe_impl(case)
        if case["kind"] == 3 and "_rec" in case and isinstance(out, list) and len(out) == 2:
            case["_rec"]["probe"] = [bool(out[j][1]) for j in range(2)]
        return out

    def model_canon(self, case, out):
        """start(): the model lists one entry per datagram the handshake consumed; only real hand-overs
        are observable on the implementation, so the RxNone entries are dropped."""
        def side(x):
            starts, outs, final = x
            return [[[c, t, [o for o in ev if o != [0]]] for c, t, ev in starts], outs, final]
        if case["kind"] == 3:
            return [side(x) for x in out]
        if case["kind"] == 2:
            return side(out)
        return out

    # ------------------------------------------------------------ oracle
    def oracle(self, case, out):
        kind = case["kind"]
        if out == [-3]:
            return ("hang", "the implementation did not finish within the time limit")
        if out == [-2]:
            return ("raised", f"unexpected exception: {case.get('_exc')}")
        if kind == 0:
            cert = cert_pool()[case["cert"]]
            fps = resolve_fps(case["fps"], cert)
            want = policy_expected(fps, cert)
            if out != [1 if want else 0]:
                return ("identity-policy", f"_validate_peer_identity {'accepted' if out == [1] else 'rejected'} "
                                           f"{fps!r}; the policy says {'accept' if want else 'reject'}")
            return None
        if kind == 1:
            k, s, src, idx = case["k"], case["s"], case["src"], case["idx"]
            if len(src) == 2 * (k + s) and idx in (0, 1):
                ck, sk, cs, ss = src[:k], src[k:2 * k], src[2 * k:2 * k + s], src[2 * k + s:]
                want = (ck + cs) if idx == 0 else (sk + ss)
                if out != want:
                    return ("key-slice", f"get_key_and_salt(k={k}, s={s}, idx={idx}) returned {out}, expected {want}")
            return None
        if kind == 2:
            return self.oracle_scripted(case, out)
        return self.oracle_e2e(case, out)

    def oracle_scripted(self, case, out):
        if not (isinstance(out, list) and len(out) == 3):
            return ("harness-error", f"scripted run failed: {out}")
        starts, outs, final = out
        cert = cert_pool()[case["peer_cert"]]
        validated = False
        role = case["role"]
        prev = None
        for st, res in zip(case["starts"], starts):
            code, snap, evs = res
            if evs:
                return ("delivered-before-validated", f"start() handed {evs} to a receiver while the handshake "
                                                      f"was still being driven (state {snap[0]})")
            if prev is not None and prev[0] != 0:
                # start() on a transport that is not NEW must raise and change nothing
                if code != 1 or snap != prev:
                    return ("start-twice", f"second start() returned code {code} and changed {prev} into {snap}")
                continue
            prev = snap
            fps = resolve_fps(st["fps"], cert)
            if not fps:
                if code != 1 or snap[0] != 0:
                    return ("gate", "start() with an empty fingerprint list did not raise")
                continue
            policy = policy_expected(fps, cert)
            # handshake outcome from the script alone
            hs = None
            for it in st["script"]:
                if it[0] == 0:
                    hs = True
                    break
                if it[0] == 1:
                    hs = False
                    break
                if (it[1] and not it[2]) or it[3] == []:
                    hs = False
                    break
                g = it[3]
                if not g[0]:
                    continue             # an empty datagram is ignored
                if 19 < g[0][0] < 64 and ((g[2] and not g[3]) or g[1][0] == 1):
                    hs = False
                    break
            names = [bytes(profile_triple(p)[0]) for p in case["profiles"]]
            sel = None if st["selected"] is None else bytes(st["selected"])
            prof_ok = sel is not None and sel in names
            is_conn = snap[0] == 2
            want_code = 1 if hs == "crash" else (2 if hs is None else 0)
            if code != want_code:
                return ("start-raised", f"start() finished with code {code} (0 returned, 1 raised, 2 pending), "
                                        f"expected {want_code}; fingerprints {fps!r}")
            want_conn = (hs is True) and policy and prof_ok
            if is_conn != want_conn:
                return ("gate", f"start() ended in state {snap[0]} (connected={is_conn}) but handshake={hs}, "
                                f"policy={policy}, srtp profile found={prof_ok}; fingerprints {fps!r}")
            if is_conn:
                validated = policy
                r = role if role else (1 if st["controlling"] else 2)
                trip = [profile_triple(p) for p in case["profiles"] if bytes(profile_triple(p)[0]) == sel][0]
                k, s = trip[1], trip[2]
                m = st["material"]
                if not (snap[3] and snap[4] and snap[6] == 1):
                    return ("gate", "CONNECTED without SRTP sessions / data pump")
                if len(m) == 2 * (k + s):
                    cl = m[:k] + m[2 * k:2 * k + s]
                    sv = m[k:2 * k] + m[2 * k + s:]
                    want = [sv, cl] if r == 1 else [cl, sv]
                    if [snap[3][0], snap[4][0]] != want:
                        return ("keys-mirror", f"role {r}: tx/rx keys {snap[3]}/{snap[4]} are not the "
                                               f"{'server' if r == 1 else 'client'} halves of the material")
                exp = case.get("_rec", {}).get("export_len", [])
                if exp and exp[-1] != 2 * (k + s):
                    return ("export-length", f"export_keying_material asked for {exp[-1]} bytes, profile needs {2 * (k + s)}")
            else:
                if code == 0 and snap[0] != 4:
                    return ("gate", f"start() returned without CONNECTED in state {snap[0]}, expected FAILED")
                if snap[3] or snap[4] or snap[6]:
                    return ("gate", "SRTP sessions or data pump exist although start() did not reach CONNECTED")
        connected = prev is not None and prev[0] == 2
        live = connected
        for op, o in zip(case["ops"], outs):
            if not connected or not validated:
                if o[0] in (2, 3) or (o[0] == 4 and o[1][0] != 0):
                    return ("delivered-unvalidated", f"op {op} produced {o} on a transport whose peer was never validated")
            if op[0] in (0, 1) and not live and o != [0]:
                return ("send-guard", f"send on a transport that is not connected returned {o}, expected ConnectionError")
            if o[0] == 5 or (o[0] == 1 and op[0] in (2, 3, 4)):
                live = False
        return None

    def oracle_e2e(self, case, out):
        rec = case.get("_rec")
        if rec is None or not (isinstance(out, list) and len(out) == 2):
            return ("harness-error", f"end-to-end run failed: {out}")
        for j in range(2):
            if rec["raised"][j] is not None:
                return ("start-raised", f"side {j}: start() raised {rec['raised'][j]}")
        if rec["timed_out"]:
            return ("handshake-timeout", "the DTLS pair did not finish start() within 6 s nor, retried, within 30 s")
        st = [out[j][0][0][1][0] for j in range(2)]          # state after start()
        keys = [[out[j][0][0][1][3], out[j][0][0][1][4]] for j in range(2)]
        for j in range(2):
            if rec["start_events"][j]:
                return ("delivered-before-validated",
                        f"side {j} (policy verdict {rec['policy'][j]}, final state {st[j]}) handed "
                        f"{rec['start_events'][j]} to its receiver before start() had validated the peer")
            if rec["early_events"][j] and not (rec["policy"][j] and st[j] == 2):
                return ("delivered-unvalidated", f"side {j} (policy verdict {rec['policy'][j]}, state {st[j]}) "
                                                 f"received {rec['early_events'][j]}")
            if rec["early_events"][j] and rec["early_events"][j] != [[1, case["early_payload"]]]:
                return ("not-intact", f"side {j} received {rec['early_events'][j]} instead of the early message")
            want = rec["policy"][j] and rec["common_profile"]
            if (st[j] == 2) != want:
                return ("gate", f"side {j} ended start() in state {st[j]}; fingerprint policy={rec['policy'][j]} on "
                                f"{rec['fps'][j]!r}, common SRTP profile={rec['common_profile']}")
            if st[j] != 2 and st[j] != 4:
                return ("gate", f"side {j} ended start() in state {st[j]}, expected FAILED")
            if st[j] != 2 and (keys[j][0] or keys[j][1]):
                return ("gate", f"side {j} is not connected but has SRTP sessions")
            if st[j] != 2 and out[j][1] not in ([[0], [0]],):
                return ("send-guard", f"side {j} is not connected but sends returned {out[j][1]}")
        if st[0] == 2 and st[1] == 2:
            if keys[0][0] != keys[1][1] or keys[0][1] != keys[1][0] or keys[0][0] == keys[0][1]:
                return ("keys-mirror", "connected sides do not hold mirror-image SRTP keys")
            if out[0][0][0][1][5] != out[1][0][0][1][5]:
                return ("keys-mirror", "connected sides use different SRTP profiles")
            for j in range(2):
                r = rec["sides"][j]
                name = bytes(r["selected"] or b"")
                trip = [p for p in GEN_PROFILES if bytes(p[0]) == name]
                if not trip or r["export_len"] != 2 * (trip[0][1] + trip[0][2]) or len(r["material"]) != r["export_len"]:
                    return ("export-length", f"side {j}: exported {r['export_len']} bytes for profile {name!r}")
            if rec["sides"][0]["material"] != rec["sides"][1]["material"]:
                return ("keys-mirror", "the two sides exported different keying material")
        for t in rec["traffic"]:
            src, dst = t["src"], 1 - t["src"]
            if st[src] != 2:
                if t["err"] != 1:
                    return ("send-guard", f"side {src} is not connected but a send returned err={t['err']}")
                continue
            if t["src_state"] != "connected":
                continue
            if t["err"]:
                return ("send-failed", f"connected side {src} could not send: err={t['err']}")
            if t["leaked"]:
                return ("plaintext-on-wire", "the payload appears unprotected in the datagram")
            if t["tampered_delivered"]:
                return ("tampered-accepted", f"a bit-flipped copy of a packet was handed to the receiver: "
                                             f"{t['tampered_delivered']}")
            if st[dst] != 2:
                if t["got_n"]:
                    return ("delivered-unvalidated", f"side {dst} is not connected but received {t['got_head']}")
                continue
            if t["dst_state"] != "connected":
                continue
            if not t["intact"]:
                return ("not-intact", f"sent kind {t['kind']} ({t['raw_len']} bytes) {t['raw_head']}.. from side {src}; "
                                      f"side {dst} received {t['got_n']} message(s) {t['got_head']}")
        lt = rec.get("late")
        if lt:
            if lt["on_time"] != lt["n"]:
                return ("not-intact", f"{lt['n']} consecutive RTP packets sent, {lt['on_time']} received")
            if not lt["late_intact"]:
                return ("late-packet-discarded", f"an RTP packet arriving {lt['n']} sequence numbers late (inside the "
                                                 "1024-packet replay window the transport configures) was not received intact")
            if lt["replay_delivered"]:
                return ("replayed-accepted", "the same protected RTP packet was handed to the receiver twice")
        return None

    # ------------------------------------------------------------ statistics
    def nontrivial(self, case, out):
        kind = case["kind"]
        try:
            if kind == 0:
                return out == [1] and len(case["fps"]) >= 2
            if kind == 1:
                return len(case["src"]) == 2 * (case["k"] + case["s"]) and case["k"] > 0
            if kind == 2:
                conn = any(s[1][0] == 2 for s in out[0])
                if conn:
                    return any(o[0] == 4 and o[1][0] != 0 for o in out[1])
                return bool(case["ops"])
            return any(out[j][0][0][1][0] == 2 for j in range(2))
        except Exception:
            return False

    def distribution(self, cases, outs):
        d = {"kind0": 0, "kind0_accept": 0, "kind1": 0, "kind1_exact": 0, "kind2": 0, "kind2_connected": 0,
             "kind2_failed": 0, "kind2_crash_or_pending": 0, "kind2_deliveries": 0, "kind2_conn_errors": 0,
             "kind3": 0, "e2e_both_connected": 0, "e2e_one_failed": 0, "e2e_both_failed": 0, "e2e_early": 0,
             "e2e_messages_intact": 0, "e2e_tampered_copies": 0, "e2e_profiles": {}, "e2e_roles": {}}
        for c, o in zip(cases, outs):
            try:
                k = c["kind"]
                d[f"kind{k}"] += 1
                if k == 0:
                    d["kind0_accept"] += o == [1]
                elif k == 1:
                    d["kind1_exact"] += len(c["src"]) == 2 * (c["k"] + c["s"])
                elif k == 2:
                    s = o[0][0]
                    if s[0] != 0:
                        d["kind2_crash_or_pending"] += 1
                    elif s[1][0] == 2:
                        d["kind2_connected"] += 1
                    else:
                        d["kind2_failed"] += 1
                    d["kind2_deliveries"] += sum(1 for x in o[1] if x[0] == 4 and x[1][0] != 0)
                    d["kind2_conn_errors"] += sum(1 for x in o[1] if x == [0])
                else:
                    st = [o[j][0][0][1][0] for j in range(2)]
                    n = sum(1 for x in st if x == 2)
                    d[["e2e_both_failed", "e2e_one_failed", "e2e_both_connected"][n]] += 1
                    d["e2e_early"] += 1 if c["early"] else 0
                    d["e2e_roles"][str(c["roles"])] = d["e2e_roles"].get(str(c["roles"]), 0) + 1
                    rec = c.get("_rec", {})
                    for t in rec.get("traffic", []):
                        if t["intact"]:
                            d["e2e_messages_intact"] += 1
                    d["e2e_tampered_copies"] += sum(len(m[3]) for m in c["traffic"])
                    if n == 2:
                        nm = bytes(rec["sides"][0]["selected"] or b"").decode("ascii", "replace")
                        d["e2e_profiles"][nm] = d["e2e_profiles"].get(nm, 0) + 1
            except Exception:
                pass
        return d

    def describe_case(self, case):
        c = {k: v for k, v in case.items() if k != "_rec"}
        return json.loads(json.dumps(c)[:4000]) if len(json.dumps(c)) < 4000 else {"kind": case["kind"], "truncated": True}

    def shrink_candidates(self, case):
        if not isinstance(case, dict):
            return
        k = case["kind"]
        if k == 0 and len(case["fps"]) > 1:
            for j in range(len(case["fps"])):
                yield dict(case, fps=case["fps"][:j] + case["fps"][j + 1:])
        if k == 2:
            for j in range(len(case["ops"])):
                yield dict(case, ops=case["ops"][:j] + case["ops"][j + 1:])
            if len(case["starts"]) > 1:
                yield dict(case, starts=case["starts"][:1])
            st = case["starts"][0]
            for j in range(len(st["script"]) - 1):
                yield dict(case, starts=[dict(st, script=st["script"][:j] + st["script"][j + 1:])] + case["starts"][1:])
        if k == 3:
            for j in range(len(case["traffic"])):
                yield dict(case, traffic=case["traffic"][:j] + case["traffic"][j + 1:])
            for m_i, m in enumerate(case["traffic"]):
                if m[3]:
                    t2 = [list(x) for x in case["traffic"]]
                    t2[m_i][3] = m[3][:-1]
                    yield dict(case, traffic=t2)

    def gen_validation(self):
        """Gen/Dtls.v against the imported module (the extractor reads the ast only)."""
        import aiortc.rtcdtlstransport as M
        res = []
        res.append(("X509_DIGEST_ALGORITHMS keys", list(M.X509_DIGEST_ALGORITHMS.keys()) == ALGS))
        src = {bytes(n): (k, s) for n, k, s in GEN_PROFILES}
        res.append(("SRTP profile table", all(src.get(p.openssl_profile) == (p.key_length, p.salt_length)
                                              for p in M.SRTP_PROFILES) and len(M.SRTP_PROFILES) <= len(src)))
        # master key / master salt lengths of the standard profiles (RFC 3711/5764, RFC 7714)
        rfc = {b"SRTP_AES128_CM_SHA1_80": (16, 14), b"SRTP_AES128_CM_SHA1_32": (16, 14),
               b"SRTP_AEAD_AES_128_GCM": (16, 12), b"SRTP_AEAD_AES_256_GCM": (32, 12)}
        res.append(("SRTP profile key/salt lengths are the RFC 5764 / RFC 7714 values",
                    all(rfc.get(n, ks) == ks for n, ks in src.items())))
        res.append(("State enum", [(s.name, s.value) for s in M.State] ==
                    [("NEW", 0), ("CONNECTING", 1), ("CONNECTED", 2), ("CLOSED", 3), ("FAILED", 4)]))
        return res


if __name__ == "__main__":
    sys.exit(C04().main(sys.argv[1:]))
