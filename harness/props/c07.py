"""C07 -- RTP / RTCP serialisation round trips: correspondence with Model/Rtp.v and
Model/Rtcp.v in both directions (serialise and parse, incl. a malformed stream) and the
property oracle on the real aiortc code."""
import glob
import os
import struct

from harness.framework import REPO, CaseTimeout, Check

# ----------------------------------------------------------------------------- helpers
NAMES = ["abs_send_time", "audio_level", "mid", "repaired_rtp_stream_id", "rtp_stream_id",
         "transmission_offset", "transport_sequence_number"]


def cls_exc(exc):
    """Outcome class.  UnicodeDecodeError/UnicodeEncodeError ARE ValueErrors (the receive
    path catches `except ValueError`), so they are in class -1 here."""
    if isinstance(exc, CaseTimeout):
        return -3
    if isinstance(exc, ValueError):
        return -1
    return -2


def guard(fn):
    try:
        return [0, fn()]
    except CaseTimeout:
        raise
    except Exception as exc:  # noqa
        return [cls_exc(exc)]


def opt(v):
    return [] if v is None else [v]


def mk_map(ids):
    from aiortc import rtp
    m = rtp.HeaderExtensionsMap()
    m._HeaderExtensionsMap__ids = rtp.HeaderExtensions(**{n: (i[0] if i else None) for n, i in zip(NAMES, ids)})
    return m


def mk_hext(h):
    from aiortc import rtp
    e = rtp.HeaderExtensions()
    if h[0]:
        e.abs_send_time = h[0][0]
    if h[1]:
        e.audio_level = (bool(h[1][0][0]), h[1][0][1])
    if h[2]:
        e.mid = bytes(h[2][0]).decode("utf8")
    if h[3]:
        e.repaired_rtp_stream_id = bytes(h[3][0]).decode("utf8")
    if h[4]:
        e.rtp_stream_id = bytes(h[4][0]).decode("utf8")
    if h[5]:
        e.transmission_offset = h[5][0]
    if h[6]:
        e.transport_sequence_number = h[6][0]
    return e


def enc_hext(e):
    return [opt(e.abs_send_time),
            [] if e.audio_level is None else [[1 if e.audio_level[0] else 0, e.audio_level[1]]],
            [] if e.mid is None else [list(e.mid.encode("utf8"))],
            [] if e.repaired_rtp_stream_id is None else [list(e.repaired_rtp_stream_id.encode("utf8"))],
            [] if e.rtp_stream_id is None else [list(e.rtp_stream_id.encode("utf8"))],
            opt(e.transmission_offset), opt(e.transport_sequence_number)]


def mk_rtp(p):
    from aiortc import rtp
    pkt = rtp.RtpPacket(payload_type=p[1], marker=p[0], sequence_number=p[2], timestamp=p[3], ssrc=p[4],
                        payload=bytes(p[7]))
    pkt.csrc = list(p[5])
    pkt.extensions = mk_hext(p[6])
    pkt.padding_size = p[8]
    return pkt


def enc_rtp(pkt):
    return [pkt.marker, pkt.payload_type, pkt.sequence_number, pkt.timestamp, pkt.ssrc, list(pkt.csrc),
            enc_hext(pkt.extensions), list(pkt.payload), pkt.padding_size]


def mk_rinfo(r):
    from aiortc import rtp
    return rtp.RtcpReceiverInfo(ssrc=r[0], fraction_lost=r[1], packets_lost=r[2], highest_sequence=r[3],
                                jitter=r[4], lsr=r[5], dlsr=r[6])


def enc_rinfo(r):
    return [r.ssrc, r.fraction_lost, r.packets_lost, r.highest_sequence, r.jitter, r.lsr, r.dlsr]


def mk_rtcp(p):
    from aiortc import rtp
    k = p[0]
    if k == 0:
        return rtp.RtcpSrPacket(ssrc=p[1], sender_info=rtp.RtcpSenderInfo(
            ntp_timestamp=p[2][0], rtp_timestamp=p[2][1], packet_count=p[2][2], octet_count=p[2][3]),
            reports=[mk_rinfo(r) for r in p[3]])
    if k == 1:
        return rtp.RtcpRrPacket(ssrc=p[1], reports=[mk_rinfo(r) for r in p[2]])
    if k == 2:
        return rtp.RtcpSdesPacket(chunks=[rtp.RtcpSourceInfo(ssrc=c[0], items=[(t, bytes(v)) for t, v in c[1]])
                                          for c in p[1]])
    if k == 3:
        return rtp.RtcpByePacket(sources=list(p[1]))
    if k == 4:
        return rtp.RtcpRtpfbPacket(fmt=p[1], ssrc=p[2], media_ssrc=p[3], lost=list(p[4]))
    return rtp.RtcpPsfbPacket(fmt=p[1], ssrc=p[2], media_ssrc=p[3], fci=bytes(p[4]))


def enc_rtcp(p):
    from aiortc import rtp
    if isinstance(p, rtp.RtcpSrPacket):
        s = p.sender_info
        return [0, p.ssrc, [s.ntp_timestamp, s.rtp_timestamp, s.packet_count, s.octet_count],
                [enc_rinfo(r) for r in p.reports]]
    if isinstance(p, rtp.RtcpRrPacket):
        return [1, p.ssrc, [enc_rinfo(r) for r in p.reports]]
    if isinstance(p, rtp.RtcpSdesPacket):
        return [2, [[c.ssrc, [[t, list(v)] for t, v in c.items]] for c in p.chunks]]
    if isinstance(p, rtp.RtcpByePacket):
        return [3, list(p.sources)]
    if isinstance(p, rtp.RtcpRtpfbPacket):
        return [4, p.fmt, p.ssrc, p.media_ssrc, list(p.lost)]
    return [5, p.fmt, p.ssrc, p.media_ssrc, list(p.fci)]


class FakeUrandom:
    """os.urandom inside aiortc.rtp replaced by the recorded padding bytes (an input)."""

    def __init__(self, pad):
        self.pad = bytes(pad)

    def __enter__(self):
        from aiortc import rtp
        self.mod = rtp.os
        self.old = rtp.os.urandom
        pad = self.pad

        def fake(n):
            if n < 0:
                raise ValueError("negative argument not allowed")
            return (pad + bytes(n))[:n]
        rtp.os = type("os_stub", (), {"urandom": staticmethod(fake)})
        return self

    def __exit__(self, *a):
        from aiortc import rtp
        rtp.os = self.mod


# ----------------------------------------------------------------------------- well-formedness (oracle preconditions)
def u(bits, x):
    return isinstance(x, int) and 0 <= x < (1 << bits)


def utf8_ok(b):
    try:
        bytes(b).decode("utf8")
        return True
    except Exception:
        return False


def wf_ext_list(xs):
    return all(1 <= i <= 255 and len(v) <= 255 and all(u(8, b) for b in v) for i, v in xs)


def wf_hext(ids, h):
    """every present value is in range and has a configured id in 1..255; ids distinct"""
    conf = [i[0] for i in ids if i]
    if len(set(conf)) != len(conf):
        return False
    for i, v in zip(ids, h):
        if v and not (i and 1 <= i[0] <= 255):
            return False
    if h[0] and not u(24, h[0][0]):
        return False
    if h[1] and not u(7, h[1][0][1]):
        return False
    if h[2] and not (len(h[2][0]) <= 255 and utf8_ok(h[2][0])):
        return False
    for k in (3, 4):
        if h[k] and not (len(h[k][0]) <= 255 and all(b < 128 for b in h[k][0])):
            return False
    if h[5] and not (-(1 << 23) <= h[5][0] < (1 << 23)):
        return False
    if h[6] and not u(16, h[6][0]):
        return False
    return True


def wf_rtp(ids, p, pad):
    return (p[0] in (0, 1) and u(7, p[1]) and u(16, p[2]) and u(32, p[3]) and u(32, p[4]) and len(p[5]) <= 15
            and all(u(32, c) for c in p[5]) and wf_hext(ids, p[6]) and 0 <= p[8] <= 255
            and (p[8] == 0 or len(pad) == p[8] - 1))


def wf_rinfo(r):
    return (u(32, r[0]) and u(8, r[1]) and -(1 << 23) <= r[2] < (1 << 23) and u(32, r[3]) and u(32, r[4])
            and u(32, r[5]) and u(32, r[6]))


def nack_canonical(lost):
    """Proof/RtcpP.v nack_canonical: each number lands on a higher bit of the open FCI entry or opens a
    new one (true for numerically ascending lists and for lists advancing by 1..65520 mod 2^16)"""
    if not all(u(16, x) for x in lost):
        return False
    if not lost:
        return True
    pid, c = lost[0], 0
    for p in lost[1:]:
        d = (p - pid - 1) & 0xFFFF
        if d < 16:
            if d < c:
                return False
            c = d + 1
        else:
            pid, c = p, 0
    return True


def wf_rtcp(p, exact=True):
    k = p[0]
    if k == 0:
        return (u(32, p[1]) and u(64, p[2][0]) and all(u(32, x) for x in p[2][1:]) and len(p[3]) <= 31
                and all(wf_rinfo(r) for r in p[3]))
    if k == 1:
        return u(32, p[1]) and len(p[2]) <= 31 and all(wf_rinfo(r) for r in p[2])
    if k == 2:
        return len(p[1]) <= 31 and all(u(32, c[0]) and all(1 <= t <= 255 and len(v) <= 255 for t, v in c[1])
                                       for c in p[1])
    if k == 3:
        return len(p[1]) <= 31 and all(u(32, s) for s in p[1])
    if k == 4:
        ok = u(5, p[1]) and u(32, p[2]) and u(32, p[3]) and all(u(16, x) for x in p[4])
        return ok and (nack_canonical(p[4]) if exact else True)
    return u(5, p[1]) and u(32, p[2]) and u(32, p[3]) and len(p[4]) % 4 == 0


def rtcp_size_ok(ps):
    """each packet's payload fits the 16-bit word count"""
    for p in ps:
        if p[0] == 2 and sum(8 + sum(2 + len(v) for _, v in c[1]) for c in p[1]) > 65535 * 4:
            return False
        if p[0] == 5 and len(p[4]) + 8 > 65535 * 4:
            return False
    return True


# ----------------------------------------------------------------------------- generators
def gu(rng, bits, bad=0.0):
    r = rng.random()
    top = 1 << bits
    if r < bad:
        return rng.choice([-1, top, top + rng.randrange(1, 1000), -rng.randrange(1, 1 << 33)])
    if r < 0.45:
        return rng.choice([0, 1, top - 1, top - 2, top >> 1, (top >> 1) - 1, 2, 255 & (top - 1), 256 % top])
    return rng.randrange(top)


def gbytes(rng, n):
    return [rng.randrange(256) for _ in range(n)]


TEXTS = ["", "0", "a", "mid0", "audio", "r\u00e9sum\u00e9", "\u20ac", "\U0001F600", "x" * 16, "y" * 17, "z" * 255,
         "\x7f", "\x80", "\ud7ff", "\ue000", "\U0010FFFF", "\u0800", "\u07ff", "\U00010000"]


def gtext(rng, ascii_only):
    r = rng.random()
    if r < 0.5:
        s = rng.choice(TEXTS)
    else:
        n = rng.choice([1, 1, 2, 3, 5, 8, 15, 16, 17, 40])
        s = "".join(chr(rng.choice([rng.randrange(32, 127), rng.randrange(32, 127), rng.randrange(0x80, 0x800),
                                    rng.randrange(0x800, 0xD800), rng.randrange(0x10000, 0x110000)]))
                    if not ascii_only else chr(rng.randrange(32, 127)) for _ in range(n))
    if ascii_only and rng.random() < 0.92:
        s = "".join(c for c in s if ord(c) < 128)
    b = list(s.encode("utf8"))
    return b[:255] if len(b) > 255 and utf8_ok(b[:255]) else (b if len(b) <= 255 or rng.random() < 0.3 else b[:16])


def gids(rng, bad=0.0):
    """id table: distinct ids with boundary bias 14/15, sometimes unconfigured entries"""
    r = rng.random()
    if r < 0.25:
        pool = rng.sample(range(1, 15), 7)
    elif r < 0.6:
        pool = rng.sample([1, 2, 3, 13, 14, 15, 16, 100, 254, 255, 7, 8], 7)
    else:
        pool = rng.sample(range(1, 256), 7)
    ids = [[x] if rng.random() < 0.85 else [] for x in pool]
    if rng.random() < bad:
        k = rng.randrange(7)
        ids[k] = [rng.choice([0, 256, -1, 300, pool[(k + 1) % 7]])]
    return ids


def ghext(rng, ids, bad=0.0):
    h = [[] for _ in range(7)]
    density = rng.choice([0.0, 0.2, 0.5, 0.9, 1.0])
    for k in range(7):
        if rng.random() >= density:
            continue
        if not ids[k] and rng.random() > bad:
            continue
        if k == 0:
            h[k] = [gu(rng, 24, bad / 4)] if rng.random() > bad / 4 else [rng.choice([1 << 24, (1 << 32) - 1, 1 << 32])]
        elif k == 1:
            h[k] = [[rng.randrange(2), gu(rng, 7) if rng.random() > bad / 4 else rng.choice([128, 255, 300])]]
        elif k == 2:
            h[k] = [gtext(rng, False)]
        elif k in (3, 4):
            h[k] = [gtext(rng, True)]
        elif k == 5:
            v = rng.choice([0, 1, -1, (1 << 23) - 1, -(1 << 23), 1000, -1000, rng.randrange(-(1 << 23), 1 << 23)])
            if rng.random() < bad / 4:
                v = rng.choice([1 << 23, -(1 << 23) - 1, 1 << 31])
            h[k] = [v]
        else:
            h[k] = [gu(rng, 16, bad / 4)]
    return h


def gpayload(rng):
    n = rng.choice([0, 0, 1, 2, 3, 4, 5, 12, 100, rng.randrange(0, 300), 1300])
    return gbytes(rng, n)


def grtp(rng, ids, bad=0.0):
    ps = rng.choice([0, 0, 0, 1, 2, 3, 4, 255, rng.randrange(0, 256)])
    if rng.random() < bad / 3:
        ps = rng.choice([256, 300, -1])
    p = [gu(rng, 1, bad / 8), gu(rng, 7, bad / 8), gu(rng, 16, bad / 8), gu(rng, 32, bad / 8), gu(rng, 32, bad / 8),
         [gu(rng, 32, bad / 20) for _ in range(rng.choice([0, 0, 0, 1, 2, 15, rng.randrange(16)]
                                                          + ([16, 17] if rng.random() < bad else [])))],
         ghext(rng, ids, bad), gpayload(rng), ps]
    pad = gbytes(rng, max(0, min(ps, 300) - 1))
    return p, pad


def grinfo(rng, bad=0.0):
    pl = rng.choice([0, 1, -1, 8388607, -8388608, 100, -100, rng.randrange(-8388608, 8388608)])
    if rng.random() < bad:
        pl = rng.choice([8388608, -8388609, (1 << 31) - 1, -(1 << 31), 1 << 31, -(1 << 31) - 1, 16777215])
    return [gu(rng, 32, bad / 8), gu(rng, 8, bad / 8), pl, gu(rng, 32, bad / 8), gu(rng, 32, bad / 8),
            gu(rng, 32, bad / 8), gu(rng, 32, bad / 8)]


def gcount(rng, bad=0.0):
    c = rng.choice([0, 0, 1, 1, 2, 3, 30, 31, rng.randrange(32)])
    if rng.random() < bad:
        c = rng.choice([32, 33, 64, 127])
    return c


def glost(rng, bad=0.0):
    """NACK lists: ascending runs, wrap-straddling runs (numeric and serial order), arbitrary 16-bit lists"""
    r = rng.random()
    if r < 0.08:
        return []
    base = rng.choice([0, 1, 100, 65500, 65519, 65520, 65534, 65535, rng.randrange(65536)])
    n = rng.choice([1, 1, 2, 3, 5, 17, 18, 40])
    seqs = []
    cur = base
    for _ in range(n):
        seqs.append(cur & 0xFFFF)
        cur += rng.choice([1, 1, 1, 2, 3, 15, 16, 17, 18, 100, 40000, 65520])
    if r < 0.5:
        out = seqs                                   # serial order (crosses 65535 -> 0 near the wrap)
    elif r < 0.75:
        out = sorted(set(seqs))                      # what the receiver passes: sorted(set)
    elif r < 0.9:
        out = seqs[:]
        rng.shuffle(out)
    else:
        out = [rng.randrange(65536) for _ in range(n)]
    if rng.random() < bad:
        out = out + [rng.choice([65536, -1, 70000])]
        rng.shuffle(out)
    return out


def gitems(rng, bad=0.0):
    items = []
    for _ in range(rng.choice([0, 1, 1, 2, 3, 6])):
        t = rng.choice([1, 1, 2, 8, 255, rng.randrange(1, 256)])
        if rng.random() < bad:
            t = rng.choice([0, 256, -1])
        n = rng.choice([0, 1, 2, 3, 4, 5, 16, 254, 255, rng.randrange(0, 60)])
        if rng.random() < bad / 2:
            n = 256
        items.append([t, gbytes(rng, n)])
    return items


def grtcp(rng, bad=0.0):
    k = rng.randrange(6)
    if k == 0:
        return [0, gu(rng, 32, bad / 4), [gu(rng, 64, bad / 4), gu(rng, 32, bad / 8), gu(rng, 32, bad / 8), gu(rng, 32, bad / 8)],
                [grinfo(rng, bad / 4) for _ in range(gcount(rng, bad))]]
    if k == 1:
        return [1, gu(rng, 32, bad / 4), [grinfo(rng, bad / 4) for _ in range(gcount(rng, bad))]]
    if k == 2:
        return [2, [[gu(rng, 32, bad / 4), gitems(rng, bad / 3)] for _ in range(gcount(rng, bad))]]
    if k == 3:
        return [3, [gu(rng, 32, bad / 8) for _ in range(gcount(rng, bad))]]
    if k == 4:
        return [4, gcount(rng, bad), gu(rng, 32, bad / 4), gu(rng, 32, bad / 4), glost(rng, bad / 2)]
    n = 4 * rng.choice([0, 0, 1, 2, 3, 10]) + (rng.randrange(1, 4) if rng.random() < bad else 0)
    fci = gbytes(rng, n)
    if rng.random() < 0.4:
        fci = list(remb_bytes(rng))
        if len(fci) % 4:
            fci = fci[: len(fci) - len(fci) % 4]
    return [5, rng.choice([1, 4, 15, 15, gcount(rng, bad)]), gu(rng, 32, bad / 4), gu(rng, 32, bad / 4), fci]


BITRATES = [0, 1, (1 << 18) - 1, 1 << 18, (1 << 18) + 1, (1 << 19) - 1, 1 << 62, (1 << 62) + 12345, 4160000,
            (1 << 81) - 1, 1 << 81, (1 << 80) + 7, 1 << 17, (1 << 17) - 1, 1000000, 300000, 524287, 524288]


def gbitrate(rng):
    r = rng.random()
    if r < 0.4:
        return rng.choice(BITRATES)
    if r < 0.5:
        return -rng.randrange(1, 1 << 20)
    bits = rng.randrange(1, 84)
    return rng.randrange(1 << (bits - 1), 1 << bits)


def remb_bytes(rng):
    n = rng.choice([0, 1, 2, 3])
    cnt = n if rng.random() < 0.8 else rng.choice([n + 1, 255, n + 8, max(0, n - 1)])
    return b"REMB" + struct.pack("!BBH", cnt & 255, rng.randrange(256), rng.randrange(65536)) + b"".join(
        struct.pack("!L", gu(rng, 32)) for _ in range(n)) + bytes(rng.choice([0, 0, 0, 1, 2, 3]))


_SEEDS = None


def seed_files():
    global _SEEDS
    if _SEEDS is None:
        out = []
        for path in sorted(glob.glob(os.path.join(REPO, "tests", "rt*p_*.bin")) +
                           glob.glob(os.path.join(REPO, "tests", "rtp.bin"))):
            with open(path, "rb") as fp:
                out.append((os.path.basename(path), fp.read()))
        _SEEDS = out
    return _SEEDS


def fixed_malformed():
    """deterministic block: every truncation of every captured test packet"""
    out = []
    for name, data in seed_files():
        kind = "rtcp" if name.startswith("rtcp") else "rtp"
        for n in range(len(data) + 1):
            out.append((kind, data[:n]))
    return out


def mutate(rng, data):
    data = bytearray(data)
    r = rng.random()
    if r < 0.3 and data:
        return bytes(data[: rng.randrange(len(data) + 1)])
    if r < 0.6 and data:
        # length / count style fields live in the first 4 bytes of each (sub)header: +-1..8
        pos = rng.choice([0, 2, 3, rng.randrange(len(data)), min(len(data) - 1, 12 + rng.randrange(6))])
        pos = min(pos, len(data) - 1)
        data[pos] = (data[pos] + rng.choice([-1, 1]) * rng.randrange(1, 9)) & 255
        return bytes(data)
    if r < 0.75 and data:
        for _ in range(rng.choice([1, 1, 2, 4])):
            pos = rng.randrange(len(data))
            data[pos] ^= 1 << rng.randrange(8)
        return bytes(data)
    if r < 0.85:
        return bytes(data) + bytes(gbytes(rng, rng.randrange(1, 9)))
    if r < 0.92 and data:
        data[0] |= 0x20  # padding bit
        data[-1] = rng.choice([0, 1, 2, 4, len(data) & 255, (len(data) - 4) & 255, 255])
        return bytes(data)
    return bytes(gbytes(rng, rng.choice([0, 1, 3, 4, 8, 11, 12, 13, 16, 28, 60])))


def delta(rng):
    return rng.choice([-1, 1]) * rng.randrange(1, 9)


def mutate_rtcp_fields(rng, data):
    """length / count / padding fields of one packet header inside a compound packet, +-1..8"""
    data = bytearray(data)
    offs = []
    pos = 0
    while pos + 4 <= len(data):
        offs.append(pos)
        pos += 4 + 4 * struct.unpack_from("!H", data, pos + 2)[0]
    if not offs:
        return bytes(data)
    o = rng.choice(offs)
    r = rng.random()
    if r < 0.35:      # count / fmt bits
        data[o] = (data[o] & 0xE0) | ((data[o] + delta(rng)) & 0x1F)
    elif r < 0.7:     # length in words
        w = (struct.unpack_from("!H", data, o + 2)[0] + delta(rng)) & 0xFFFF
        struct.pack_into("!H", data, o + 2, w)
    elif r < 0.8:     # padding bit with a plausible or implausible pad count
        data[o] |= 0x20
        end = min(len(data), o + 4 + 4 * struct.unpack_from("!H", data, o + 2)[0])
        if end > o + 4:
            data[end - 1] = rng.choice([0, 1, 2, 3, 4, 8, (end - o - 4) & 255, (end - o - 3) & 255, 255])
    elif r < 0.9:     # version / packet type
        if rng.random() < 0.5:
            data[o] = (data[o] & 0x3F) | (rng.randrange(4) << 6)
        else:
            data[o + 1] = rng.choice([200, 201, 202, 203, 204, 205, 206, 207, 192, 199, 0])
    else:             # inner length byte (SDES item length, REMB count ...)
        k = min(len(data) - 1, o + rng.choice([4, 5, 8, 9, 12, 13, 16]))
        data[k] = (data[k] + delta(rng)) & 255
    return bytes(data)


def mutate_rtp_fields(rng, data):
    """CSRC count, X / P bits, extension length, element length nibble / byte, pad count: +-1..8"""
    data = bytearray(data)
    if len(data) < 12:
        return bytes(data)
    cc = data[0] & 0x0F
    r = rng.random()
    if r < 0.2:
        data[0] = (data[0] & 0xF0) | ((cc + delta(rng)) & 0x0F)
    elif r < 0.3:
        data[0] ^= rng.choice([0x10, 0x20, 0x30, 0x40, 0x80])
    elif r < 0.55 and len(data) >= 12 + 4 * cc + 4:
        o = 12 + 4 * cc + 2
        w = (struct.unpack_from("!H", data, o)[0] + delta(rng)) & 0xFFFF
        struct.pack_into("!H", data, o, w)
    elif r < 0.85 and len(data) > 12 + 4 * cc + 5:
        o = 12 + 4 * cc + 4 + rng.choice([0, 0, 1, 1, 2, 3, 4, 5])
        o = min(o, len(data) - 1)
        data[o] = (data[o] + delta(rng)) & 255
    else:
        data[0] |= 0x20
        data[-1] = (data[-1] + delta(rng)) & 255 if rng.random() < 0.5 else rng.choice([0, 1, (len(data) - 12) & 255, (len(data) - 11) & 255, 255])
    return bytes(data)


# ----------------------------------------------------------------------------- the check
class C07(Check):
    prop = "C07"
    props_file = "Props/C07.v"
    models = ["Rtp", "Rtcp"]
    quick_cases = 6000
    thorough_cases = 200000
    case_timeout = 5.0
    level_note = (
        "Theorems are about Model/Rtp.v and Model/Rtcp.v (hand transcriptions of aiortc/rtp.py, bytes = list Z). "
        "Tie = differential run of the extracted models against the real functions in both directions "
        "(pack/serialize/__bytes__ and unpack/parse/get) on boundary-biased well-formed values, out-of-range values "
        "(struct.error class) and a malformed byte stream; str values are modelled by their UTF-8 encoding; "
        "os.urandom padding is an input; UnicodeError counts as ValueError (it is a subclass and is caught by the "
        "receive path).")
    rule = ("cases are single calls (model, op, args); distinct by (case, output); non-trivial = serialise "
            "direction returned bytes, or parse direction returned a value containing at least one packet / "
            "extension / non-empty payload")

    # ---- generation
    def gen_case(self, rng, i):
        fixed = self._fixed = getattr(self, "_fixed", None) or fixed_malformed()
        if i < len(fixed):
            kind, data = fixed[i]
            if kind == "rtcp":
                return ["Rtcp", 5, list(data)]
            return ["Rtp", 5, gids(rng), list(data)]
        r = rng.random()
        bad = 0.0 if rng.random() < 0.8 else 0.5
        if r < 0.05:
            n = rng.choice([0, 1, -1, 8388607, 8388608, -8388608, -8388609, (1 << 31) - 1, 1 << 31, -(1 << 31),
                            -(1 << 31) - 1, rng.randrange(-(1 << 25), 1 << 25), rng.randrange(-(1 << 33), 1 << 33)])
            return ["Rtcp", rng.choice([0, 6]), n]
        if r < 0.08:
            n = rng.choice([3, 3, 3, 3, 0, 1, 2, 4])
            d = gbytes(rng, n)
            if d and rng.random() < 0.5:
                d[0] = rng.choice([0, 127, 128, 255])
            return ["Rtcp", 1, d]
        if r < 0.14:
            cnt = rng.choice([0, 1, 2, 3, 255, 256] if bad else [0, 0, 1, 2, 3, 31, 255])
            return ["Rtcp", 2, gbitrate(rng), [gu(rng, 32, bad / 20) for _ in range(cnt)]]
        if r < 0.19:
            d = remb_bytes(rng)
            if rng.random() < 0.3:
                d = mutate(rng, d)
            return ["Rtcp", 3, list(d)]
        if r < 0.37:
            ps = [grtcp(rng, bad) for _ in range(rng.choice([1, 1, 1, 2, 3, 5]))]
            return ["Rtcp", 4, ps]
        if r < 0.52:
            data = self._valid_rtcp_bytes(rng)
            k = rng.random()
            if k < 0.4:
                data = mutate(rng, data)
            elif k < 0.8:
                data = mutate_rtcp_fields(rng, data)
            return ["Rtcp", 5, list(data)]
        ids = gids(rng, 0.3 if bad else 0.0)
        if r < 0.57:
            xs = self._gexts(rng, bad)
            return ["Rtp", 0, xs]
        if r < 0.64:
            prof, val = self._valid_ext_bytes(rng)
            if rng.random() < 0.6:
                val = mutate(rng, val)
            if rng.random() < 0.15:
                prof = rng.choice([0, 0xBEDE, 0x1000, 0x1001, rng.randrange(65536)])
            return ["Rtp", 1, prof, list(val)]
        if r < 0.70:
            return ["Rtp", 2, ids, ghext(rng, ids, bad)]
        if r < 0.77:
            prof, val = self._valid_ext_bytes(rng, ids)
            if rng.random() < 0.6:
                val = mutate(rng, val)
            return ["Rtp", 3, ids, prof, list(val)]
        if r < 0.87:
            p, pad = grtp(rng, ids, bad)
            return ["Rtp", 4, ids, p, pad]
        if r < 0.96:
            data = self._valid_rtp_bytes(rng, ids)
            k = rng.random()
            if k < 0.4:
                data = mutate(rng, data)
            elif k < 0.8:
                data = mutate_rtp_fields(rng, data)
            return ["Rtp", 5, ids, list(data)]
        p, _ = grtp(rng, ids, bad / 4)
        if r < 0.98:
            return ["Rtp", 6, p, gu(rng, 7), gu(rng, 16), gu(rng, 32)]
        if rng.random() < 0.3:
            p[7] = p[7][: rng.randrange(0, 3)]
        return ["Rtp", 7, p, gu(rng, 7), gu(rng, 32)]

    def _gexts(self, rng, bad):
        xs = []
        mode = rng.random()
        for _ in range(rng.choice([0, 1, 1, 2, 3, 7])):
            i = rng.choice([1, 2, 13, 14, 14, 15, 15, 16, 255, rng.randrange(1, 256)]) if mode > 0.4 else rng.randrange(1, 15)
            n = rng.choice([0, 1, 2, 3, 15, 16, 16, 17, 17, 255, rng.randrange(0, 40)]) if mode > 0.4 else rng.randrange(1, 17)
            if rng.random() < bad / 2:
                i = rng.choice([0, 256, -1])
            if rng.random() < bad / 4:
                n = 256
            xs.append([i, gbytes(rng, n)])
        return xs

    def _valid_ext_bytes(self, rng, ids=None):
        from aiortc import rtp
        for _ in range(20):
            try:
                if ids is not None and rng.random() < 0.7:
                    return mk_map(ids).set(mk_hext(ghext(rng, ids)))
                xs = self._gexts(rng, 0.0)
                if ids is not None:
                    conf = [i[0] for i in ids if i]
                    xs = [[rng.choice(conf) if conf and rng.random() < 0.7 else i,
                           v if rng.random() < 0.5 else gbytes(rng, rng.choice([1, 2, 3]))] for i, v in xs]
                return rtp.pack_header_extensions([(i, bytes(v)) for i, v in xs])
            except Exception:
                continue
        return (0xBEDE, b"")

    def _valid_rtp_bytes(self, rng, ids):
        for _ in range(20):
            p, pad = grtp(rng, ids)
            try:
                with FakeUrandom(pad):
                    return mk_rtp(p).serialize(mk_map(ids))
            except Exception:
                continue
        return bytes(12)

    def _valid_rtcp_bytes(self, rng):
        for _ in range(20):
            try:
                data = b"".join(bytes(mk_rtcp(grtcp(rng))) for _ in range(rng.choice([1, 1, 2, 3, 5])))
                if rng.random() < 0.15:
                    # unknown packet type / padded packet in the compound
                    extra = bytes([0x80 | rng.randrange(32), rng.choice([192, 204, 207, 199]), 0, 1]) + bytes(gbytes(rng, 4))
                    data = data + extra if rng.random() < 0.5 else extra + data
                if rng.random() < 0.15:
                    npad = 4 * rng.randrange(1, 3)
                    body = bytes(mk_rtcp(grtcp(rng)))
                    words = (len(body) - 4 + npad) // 4
                    data += bytes([body[0] | 0x20, body[1]]) + struct.pack("!H", words) + body[4:] + bytes(npad - 1) + bytes([npad])
                return data
            except Exception:
                continue
        return b""

    # ---- model side
    def model_name(self, case):
        return case[0]

    def encode(self, case):
        return case[1:]

    # ---- implementation side
    def impl_run(self, case):
        from aiortc import rtp
        m, op = case[0], case[1]
        if m == "Rtcp":
            if op == 0:
                return guard(lambda: list(rtp.pack_packets_lost(case[2])))
            if op == 1:
                return guard(lambda: rtp.unpack_packets_lost(bytes(case[2])))
            if op == 2:
                return guard(lambda: list(rtp.pack_remb_fci(case[2], list(case[3]))))
            if op == 3:
                def f():
                    b, s = rtp.unpack_remb_fci(bytes(case[2]))
                    return [b, list(s)]
                return guard(f)
            if op == 4:
                return guard(lambda: list(b"".join(bytes(mk_rtcp(p)) for p in case[2])))
            if op == 5:
                return guard(lambda: [enc_rtcp(p) for p in rtp.RtcpPacket.parse(bytes(case[2]))])
            return guard(lambda: rtp.clamp_packets_lost(case[2]))
        if op == 0:
            def f():
                prof, val = rtp.pack_header_extensions([(i, bytes(v)) for i, v in case[2]])
                return [prof, list(val)]
            return guard(f)
        if op == 1:
            return guard(lambda: [[i, list(v)] for i, v in rtp.unpack_header_extensions(case[2], bytes(case[3]))])
        if op == 2:
            def f():
                prof, val = mk_map(case[2]).set(mk_hext(case[3]))
                return [prof, list(val)]
            return guard(f)
        if op == 3:
            return guard(lambda: enc_hext(mk_map(case[2]).get(case[3], bytes(case[4]))))
        if op == 4:
            def f():
                with FakeUrandom(case[4]):
                    return list(mk_rtp(case[3]).serialize(mk_map(case[2])))
            return guard(f)
        if op == 5:
            return guard(lambda: enc_rtp(rtp.RtpPacket.parse(bytes(case[3]), mk_map(case[2]))))
        if op == 6:
            return guard(lambda: enc_rtp(rtp.wrap_rtx(mk_rtp(case[2]), case[3], case[4], case[5])))
        return guard(lambda: enc_rtp(rtp.unwrap_rtx(mk_rtp(case[2]), case[3], case[4])))

    # ---- the property, on the implementation
    def oracle(self, case, out):
        from aiortc import rtp
        m, op = case[0], case[1]
        parse_dir = (m == "Rtcp" and op in (1, 3, 5)) or (m == "Rtp" and op in (1, 3, 5))
        if parse_dir and not (m == "Rtcp" and op == 1):
            # C05 side: a parser returns a value or raises ValueError on every byte string
            if out[0] not in (0, -1):
                return ("parser-raised-non-valueerror", f"{m} op {op} raised a non-ValueError on {case[2:]}")
        try:
            if m == "Rtcp":
                return self._oracle_rtcp(rtp, op, case, out)
            return self._oracle_rtp(rtp, op, case, out)
        except CaseTimeout:
            raise
        except Exception as exc:  # parsing back the library's own output raised
            return (f"{m.lower()}-op{op}-roundtrip-raised", f"round trip raised {exc!r} on {case}")

    def _oracle_rtcp(self, rtp, op, case, out):
        if op in (0, 6):
            n = case[2]
            c = rtp.clamp_packets_lost(n)
            if not (-(1 << 23) <= c < (1 << 23)) or (-(1 << 23) <= n < (1 << 23) and c != n) or \
                    (n >= (1 << 23) and c != (1 << 23) - 1) or (n < -(1 << 23) and c != -(1 << 23)):
                return ("packets-lost-clamp", f"clamp_packets_lost({n}) = {c}")
            back = rtp.unpack_packets_lost(rtp.pack_packets_lost(c))
            if back != c:
                return ("packets-lost-roundtrip", f"unpack(pack(clamp({n}))) = {back}, expected {c}")
        elif op == 2:
            b, ssrcs = case[2], case[3]
            if 0 <= b < (1 << 81) and len(ssrcs) <= 255 and all(u(32, s) for s in ssrcs):
                if out[0] != 0:
                    return ("remb-pack-failed", f"pack_remb_fci({b}, {len(ssrcs)} ssrcs) raised")
                b2, s2 = rtp.unpack_remb_fci(bytes(out[1]))
                if not (b2 <= b and (b - b2) * (1 << 17) < max(b, 1)) or (b < (1 << 18) and b2 != b):
                    return ("remb-bitrate", f"bitrate {b} decoded as {b2}")
                if list(s2) != list(ssrcs):
                    return ("remb-ssrcs", f"ssrc list {ssrcs} decoded as {s2}")
        elif op == 5 and out[0] == 0:
            ps = out[1]
            for p in ps:
                if p[0] == 4 and any(not u(16, x) for x in p[4]):
                    return ("nack-not-16-bit", f"parsed NACK list {p[4]}")
                if p[0] in (0, 1) and any(not wf_rinfo(r) for r in p[-1]):
                    return ("report-out-of-range", f"parsed report block out of wire range in {p}")
            if all(wf_rtcp(p, exact=False) for p in ps) and rtcp_size_ok(ps):
                again = [enc_rtcp(p) for p in rtp.RtcpPacket.parse(b"".join(bytes(mk_rtcp(p)) for p in ps))]
                norm = lambda q: q[:4] + [sorted(set(q[4]))] if q[0] == 4 else q
                if [norm(p) for p in again] != [norm(p) for p in ps]:
                    return ("rtcp-reparse", f"parsed {ps}, re-serialised and parsed: {again}")
        elif op == 3 and out[0] == 0:
            d = bytes(case[2])
            want = (((d[5] & 3) << 16) | (d[6] << 8) | d[7]) << (d[5] >> 2)
            if out[1][0] != want or len(out[1][1]) != d[4]:
                return ("remb-decode", f"REMB {list(d)} decoded as {out[1]}")
        elif op == 4:
            ps = case[2]
            if all(wf_rtcp(p, exact=False) for p in ps) and rtcp_size_ok(ps):
                if out[0] != 0:
                    return ("rtcp-serialise-failed", f"bytes() raised on well-formed packets {ps}")
                back = [enc_rtcp(p) for p in rtp.RtcpPacket.parse(bytes(out[1]))]
                if len(back) != len(ps):
                    return ("rtcp-roundtrip", f"{len(ps)} packets parsed back as {len(back)}")
                for a, b in zip(ps, back):
                    if a[0] == 4:
                        if any(not u(16, x) for x in b[4]):
                            return ("nack-not-16-bit", f"NACK {a[4]} parsed back as {b[4]}")
                        if a[:4] != b[:4] or set(a[4]) != set(b[4]):
                            return ("nack-set", f"NACK {a[4]} parsed back as {b[4]}")
                        if nack_canonical(a[4]) and a[4] != b[4]:
                            return ("nack-list", f"NACK {a[4]} parsed back as {b[4]}")
                    elif a != b:
                        return ("rtcp-roundtrip", f"packet {a} parsed back as {b}")
        return None

    def _oracle_rtp(self, rtp, op, case, out):
        if op == 0:
            xs = case[2]
            if wf_ext_list(xs):
                if out[0] != 0:
                    return ("hdrext-pack-failed", f"pack_header_extensions raised on {xs}")
                prof, val = out[1]
                back = [[i, list(v)] for i, v in rtp.unpack_header_extensions(prof, bytes(val))]
                if back != [[i, list(v)] for i, v in xs]:
                    return ("hdrext-roundtrip", f"elements {xs} unpacked as {back}")
                one = all(i <= 14 and 1 <= len(v) <= 16 for i, v in xs)
                if xs and prof != (0xBEDE if one else 0x1000):
                    return ("hdrext-form", f"profile {prof:#x} for {xs}")
                if len(val) % 4:
                    return ("hdrext-alignment", f"extension value of {len(val)} bytes")
        elif op == 2:
            ids, h = case[2], case[3]
            if wf_hext(ids, h):
                if out[0] != 0:
                    return ("hdrext-set-failed", f"set raised on ids={ids} values={h}")
                prof, val = out[1]
                back = enc_hext(mk_map(ids).get(prof, bytes(val)))
                if back != h:
                    return ("hdrext-get-set", f"ids={ids}: values {h} read back as {back}")
        elif op == 4:
            ids, p, pad = case[2], case[3], case[4]
            if wf_rtp(ids, p, pad):
                if out[0] != 0:
                    return ("rtp-serialise-failed", f"serialize raised on well-formed {p}")
                back = enc_rtp(rtp.RtpPacket.parse(bytes(out[1]), mk_map(ids)))
                if back != p:
                    return ("rtp-roundtrip", f"ids={ids}: packet {p} parsed back as {back}")
        elif op == 5 and out[0] == 0:
            ids, p = case[2], out[1]
            pad = [0] * max(0, p[8] - 1)
            if wf_rtp(ids, p, pad):
                with FakeUrandom(pad):
                    again = enc_rtp(rtp.RtpPacket.parse(mk_rtp(p).serialize(mk_map(ids)), mk_map(ids)))
                if again != p:
                    return ("rtp-reparse", f"ids={ids}: parsed {p}, re-serialised and parsed: {again}")
        elif op == 6:
            p, pt, seq, ssrc = case[2], case[3], case[4], case[5]
            if u(16, p[2]):
                if out[0] != 0:
                    return ("rtx-wrap-failed", f"wrap_rtx raised on {p}")
                back = enc_rtp(rtp.unwrap_rtx(rtp.wrap_rtx(mk_rtp(p), pt, seq, ssrc), p[1], p[4]))
                want = p[:8] + [0]
                if back != want:
                    return ("rtx-inverse", f"unwrap(wrap({p})) = {back}")
                w = out[1]
                if w[1] != pt or w[2] != seq or w[4] != ssrc or w[3] != p[3] or w[0] != p[0]:
                    return ("rtx-header", f"wrap_rtx header {w[:5]}")
        return None

    def shrink_candidates(self, case):
        m, op = case[0], case[1]
        if m == "Rtcp" and op == 4:
            ps = case[2]
            for i in range(len(ps)):
                if len(ps) > 1:
                    yield [m, op, ps[:i] + ps[i + 1:]]
            for i, p in enumerate(ps):
                if p[0] in (0, 1) and p[-1]:          # fewer report blocks
                    for j in range(len(p[-1])):
                        yield [m, op, ps[:i] + [p[:-1] + [p[-1][:j] + p[-1][j + 1:]]] + ps[i + 1:]]
                if p[0] == 4 and len(p[4]) > 1:       # shorter NACK list
                    for j in range(len(p[4])):
                        yield [m, op, ps[:i] + [p[:4] + [p[4][:j] + p[4][j + 1:]]] + ps[i + 1:]]
                if p[0] == 2 and p[1]:                # fewer SDES chunks
                    for j in range(len(p[1])):
                        yield [m, op, ps[:i] + [[2, p[1][:j] + p[1][j + 1:]]] + ps[i + 1:]]
        elif m == "Rtp" and op == 4:
            ids, p, pad = case[2], case[3], case[4]
            if p[7]:
                yield [m, op, ids, p[:7] + [[]] + p[8:], pad]
            if p[5]:
                yield [m, op, ids, p[:5] + [[]] + p[6:], pad]
            for k in range(7):
                if p[6][k]:
                    h = [x if j != k else [] for j, x in enumerate(p[6])]
                    yield [m, op, ids, p[:6] + [h] + p[7:], pad]
            if p[8]:
                yield [m, op, ids, p[:8] + [0], []]
        elif m == "Rtp" and op == 2:
            ids, h = case[2], case[3]
            for k in range(7):
                if h[k]:
                    yield [m, op, ids, [x if j != k else [] for j, x in enumerate(h)]]
        elif m == "Rtp" and op == 0:
            xs = case[2]
            for i in range(len(xs)):
                if len(xs) > 1:
                    yield [m, op, xs[:i] + xs[i + 1:]]

    def nontrivial(self, case, out):
        if out[0] != 0:
            return False
        v = out[1]
        m, op = case[0], case[1]
        if (m, op) == ("Rtcp", 5):
            return len(v) > 0
        if (m, op) == ("Rtp", 5):
            return len(v[7]) > 0 or any(v[6])
        if (m, op) in (("Rtp", 1), ("Rtp", 3)):
            return any(v)
        return True

    def distribution(self, cases, outs):
        d = {}
        for c, o in zip(cases, outs):
            key = f"{c[0]}.{c[1]}"
            e = d.setdefault(key, {"n": 0, "ok": 0, "valueerror": 0, "crash": 0})
            e["n"] += 1
            e["ok" if o[0] == 0 else "valueerror" if o[0] == -1 else "crash"] += 1
        kinds = {}
        for c, o in zip(cases, outs):
            if c[0] == "Rtcp" and c[1] == 5 and o[0] == 0:
                for p in o[1]:
                    kinds[p[0]] = kinds.get(p[0], 0) + 1
        d["parsed_rtcp_kinds(SR,RR,SDES,BYE,RTPFB,PSFB)"] = [kinds.get(k, 0) for k in range(6)]
        two = sum(1 for c, o in zip(cases, outs) if c[0] == "Rtp" and c[1] in (0, 2) and o[0] == 0 and o[1][0] == 0x1000)
        one = sum(1 for c, o in zip(cases, outs) if c[0] == "Rtp" and c[1] in (0, 2) and o[0] == 0 and o[1][0] == 0xBEDE)
        d["ext_forms"] = {"one_byte": one, "two_byte": two}
        wrap = sum(1 for c in cases if c[0] == "Rtcp" and c[1] == 4 and any(
            p[0] == 4 and p[4] and max(p[4]) > 65500 and min(p[4]) < 40 for p in c[2]))
        d["nack_lists_straddling_wrap"] = wrap
        return d

    def describe_case(self, case):
        return case


if __name__ == "__main__":
    import sys
    sys.exit(C07().main(sys.argv[1:]))
