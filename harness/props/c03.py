"""C03 -- offer/answer negotiation: correspondence with Model/Nego.v and property oracle.

Case formats (all nested ints; strings are lists of character codes):
  [0, codecs, prefs]            filter_preferred_codecs
  [1, local, remote]            find_common_codecs
  [2, local_ext, remote_ext]    find_common_header_extensions
  [3, a, b]                     is_codec_compatible
  [4, a, b]                     and_direction / or_direction / reverse_direction (-1 = None)
  [5, mids]                     allocate_mid
  [6, tables, kind, caps]       RTCRtpTransceiver.setCodecPreferences
  [7]                           constants (DIRECTIONS, H264_PROFILE_PATTERNS, H264Level)
  [8, tables]                   the real CODECS / HEADER_EXTENSIONS satisfy Nego.tables_ok; get_capabilities
  [10, tables, polA, polB, steps, connect]   a session on two real RTCPeerConnections
        step = [0, side, op] | [9, offerer_side]
        op   = [0, kind] addTrack | [1, kind, dir, withtrack] addTransceiver | [2] createDataChannel
             | [3, index, caps] setCodecPreferences | [4, index, dir] direction setter
"""
import asyncio
import json
import logging

from harness.framework import Check, canon, classify_exc

KINDS = ["audio", "video", "application"]
STATES = ["stable", "have-local-offer", "have-remote-offer", "closed"]
ROLES = ["auto", "client", "server"]
POLICIES = ["balanced", "max-compat", "max-bundle"]


# ------------------------------------------------------------------ encoding of real objects
def es(s):
    return [ord(ch) for ch in s]


def ds(l):
    return "".join(chr(c) for c in l)


def eopt(x, f=lambda v: v):
    return [] if x is None else [f(x)]


def epval(v):
    if v is None:
        return [2]
    if isinstance(v, int):
        return [0, v]
    return [1, es(v)]


def dpval(x):
    if x[0] == 0:
        return x[1]
    if x[0] == 1:
        return ds(x[1])
    return None


def eparams(d):
    return [[es(k), epval(v)] for k, v in d.items()]


def ecodec(c):
    kind, name = c.mimeType.split("/")
    return [es(kind), es(name), c.clockRate, eopt(c.channels), c.payloadType,
            [[es(f.type), eopt(f.parameter, es)] for f in c.rtcpFeedback], eparams(c.parameters)]


def dcodec(x):
    from aiortc.rtcrtpparameters import RTCRtcpFeedback, RTCRtpCodecParameters
    return RTCRtpCodecParameters(
        mimeType=ds(x[0]) + "/" + ds(x[1]), clockRate=x[2], channels=(x[3][0] if x[3] else None), payloadType=x[4],
        rtcpFeedback=[RTCRtcpFeedback(type=ds(f[0]), parameter=(ds(f[1][0]) if f[1] else None)) for f in x[5]],
        parameters={ds(k): dpval(v) for k, v in x[6]})


def ecap(c):
    kind, name = c.mimeType.split("/")
    return [es(kind), es(name), c.clockRate, eopt(c.channels), eparams(c.parameters)]


def dcap(x):
    from aiortc.rtcrtpparameters import RTCRtpCodecCapability
    return RTCRtpCodecCapability(mimeType=ds(x[0]) + "/" + ds(x[1]), clockRate=x[2],
                                 channels=(x[3][0] if x[3] else None), parameters={ds(k): dpval(v) for k, v in x[4]})


def eext(x):
    return [x.id, es(x.uri)]


def dext(x):
    from aiortc.rtcrtpparameters import RTCRtpHeaderExtensionParameters
    return RTCRtpHeaderExtensionParameters(id=x[0], uri=ds(x[1]))


def real_tables():
    from aiortc.codecs import CODECS, HEADER_EXTENSIONS
    return [[ecodec(c) for c in CODECS["audio"]], [ecodec(c) for c in CODECS["video"]],
            [eext(x) for x in HEADER_EXTENSIONS["audio"]], [eext(x) for x in HEADER_EXTENSIONS["video"]]]


def outcome(fn, enc):
    try:
        return [0, enc(fn())]
    except Exception as exc:  # noqa
        return [classify_exc(exc)]


# ------------------------------------------------------------------ snapshots of a real peer connection
def project_description(desc_obj):
    """RTCSessionDescription -> abstract description, through aiortc's own parser."""
    from aiortc import sdp
    d = sdp.SessionDescription.parse(desc_obj.sdp)
    medias = []
    for m in d.media:
        medias.append([
            KINDS.index(m.kind), int(m.rtp.muxId),
            eopt(None if m.kind == "application" else m.direction, sdp.DIRECTIONS.index),
            [ecodec(c) for c in m.rtp.codecs], [eext(x) for x in m.rtp.headerExtensions],
            ROLES.index(m.dtls.role) if m.dtls is not None else -1,
        ])
    bundle = next((g for g in d.group if g.semantic == "BUNDLE"), None)
    return [["offer", "answer"].index(desc_obj.type), medias, [int(x) for x in bundle.items] if bundle else []]


class Numbering:
    """canonical numbers for transports: order of first appearance in a snapshot scan"""

    def __init__(self):
        self.ids = {}

    def get(self, key):
        if key not in self.ids:
            self.ids[key] = len(self.ids)
        return self.ids[key]


def snap_transport(pc, dtls, num):
    ice = dtls.transport
    live = dtls in pc._RTCPeerConnection__dtlsTransports and ice in pc._RTCPeerConnection__iceTransports
    return [num.get(id(dtls)), ROLES.index(dtls._role), int(ice._role_set), int(bool(ice._connection.ice_controlling)),
            int(live)]


def snapshot(pc):
    from aiortc import sdp
    num = Numbering()
    trs = []
    for t in pc.getTransceivers():
        assert t.receiver.transport is t.sender.transport
        trs.append([
            KINDS.index(t.kind), sdp.DIRECTIONS.index(t.direction), eopt(t.mid, int), eopt(t._get_mline_index()),
            eopt(t._offerDirection, sdp.DIRECTIONS.index), eopt(t.currentDirection, sdp.DIRECTIONS.index),
            [ecap(c) for c in t._preferred_codecs], [ecodec(c) for c in t._codecs],
            [eext(x) for x in t._headerExtensions], int(t.sender.track is not None), int(t._bundled),
            snap_transport(pc, t.receiver.transport, num)])
    s = pc.sctp
    sctp = [] if s is None else [[eopt(s.mid, int), int(s._bundled), snap_transport(pc, s.transport, num)]]
    assert len(pc._RTCPeerConnection__dtlsTransports) == len(pc._RTCPeerConnection__iceTransports)
    return [STATES.index(pc.signalingState), trs, sctp, eopt(pc._RTCPeerConnection__sctp_mline_index),
            sorted(int(m) for m in pc._RTCPeerConnection__seenMids), len(pc._RTCPeerConnection__dtlsTransports)]


def renumber_snapshot(snap):
    """same canonical transport numbering for a snapshot printed by the model"""
    num = Numbering()
    st, trs, sctp, smline, seen, live = snap
    trs2 = []
    for t in trs:
        tr = list(t[11])
        tr[0] = num.get(tr[0])
        trs2.append(list(t[:11]) + [tr])
    sctp2 = []
    for s in sctp:
        tr = list(s[2])
        tr[0] = num.get(tr[0])
        sctp2.append([s[0], s[1], tr])
    return [st, trs2, sctp2, smline, sorted(seen), live]


# ------------------------------------------------------------------ driving real peer connections
class Session:
    def __init__(self, case):
        self.case = case
        self.trace = []
        self.runtime = {"connected": None, "message": None, "leaked_tasks": 0, "exc": None}

    async def apply_op(self, pc, op, channels):
        from aiortc import sdp
        from aiortc.mediastreams import AudioStreamTrack, VideoStreamTrack
        t = op[0]
        if t == 0:
            pc.addTrack(AudioStreamTrack() if op[1] == 0 else VideoStreamTrack())
        elif t == 1:
            arg = KINDS[op[1]]
            if op[3]:
                arg = AudioStreamTrack() if op[1] == 0 else VideoStreamTrack()
            pc.addTransceiver(arg, direction=sdp.DIRECTIONS[op[2]])
        elif t == 2:
            channels.append(pc.createDataChannel("c%d" % len(channels)))
        elif t == 3:
            pc.getTransceivers()[op[1]].setCodecPreferences([dcap(c) for c in op[2]])
        elif t == 4:
            pc.getTransceivers()[op[1]].direction = sdp.DIRECTIONS[op[2]]
        else:
            raise AssertionError("bad op")

    async def negotiate(self, o, n):
        """returns the trace of the six calls; stops at the first exception"""
        tr = []
        try:
            offer = await o.createOffer()
            tr.append([0, project_description(offer), snapshot(o)])
            await o.setLocalDescription(offer)
            tr.append([0, snapshot(o)])
            await n.setRemoteDescription(o.localDescription)
            tr.append([0, snapshot(n)])
            answer = await n.createAnswer()
            tr.append([0, project_description(answer)])
            await n.setLocalDescription(answer)
            tr.append([0, snapshot(n)])
            await o.setRemoteDescription(n.localDescription)
            tr.append([0, snapshot(o)])
            return tr, True
        except Exception as exc:  # noqa
            self.runtime["exc"] = "%s: %s" % (type(exc).__name__, exc)
            tr.append([classify_exc(exc)])
            return tr, False

    async def wait_connected(self, pcs, chans):
        """the runtime residue: both sides reach 'connected', every negotiated channel carries a message"""
        a, b = pcs
        need = [p for p in pcs if p.getTransceivers() or p.sctp]
        has_media = any(t.mid is not None for p in pcs for t in p.getTransceivers()) or \
            any(p.sctp is not None and p.sctp.mid is not None for p in pcs)
        if not has_media:
            return
        deadline = asyncio.get_event_loop().time() + 10

        def negotiated(p):
            ts = [t.receiver.transport for t in p.getTransceivers() if t.mid is not None]
            if p.sctp is not None and p.sctp.mid is not None:
                ts.append(p.sctp.transport)
            return ts

        def idle(p):
            """live transports never started because only un-negotiated transceivers use them"""
            neg = negotiated(p)
            return [d for d in p._RTCPeerConnection__dtlsTransports if d not in neg and d.state == "new"]
        while asyncio.get_event_loop().time() < deadline:
            if all(d.state == "connected" for p in pcs for d in negotiated(p)) and \
                    all(p.connectionState == "connected" or idle(p) for p in need):
                break
            await asyncio.sleep(0.02)
        self.runtime["connected"] = [p.connectionState for p in pcs]
        self.runtime["transports_connected"] = int(all(d.state == "connected" for p in pcs for d in negotiated(p)))
        self.runtime["idle_transports"] = [len(idle(p)) for p in pcs]
        if not self.runtime["transports_connected"]:
            return
        if (chans[0] or chans[1]) and a.sctp is not None and b.sctp is not None and a.sctp.mid is not None:
            got = self.received
            want = 0
            for side in (0, 1):
                for ch in chans[side]:
                    want += 1
                    if ch.readyState == "open":
                        ch.send("hello " + ch.label)
                    else:
                        ch.on("open", lambda ch=ch: ch.send("hello " + ch.label))
            while asyncio.get_event_loop().time() < deadline and len(got) < want:
                await asyncio.sleep(0.02)
            self.runtime["message"] = [want, sorted(got)]

    async def run(self):
        from aiortc import RTCBundlePolicy, RTCConfiguration, RTCPeerConnection
        _, tables, pol_a, pol_b, steps, connect = self.case
        pcs = [RTCPeerConnection(RTCConfiguration(bundlePolicy=RTCBundlePolicy(POLICIES[pol_a]))),
               RTCPeerConnection(RTCConfiguration(bundlePolicy=RTCBundlePolicy(POLICIES[pol_b])))]
        chans = [[], []]
        self.received = []
        for p in pcs:
            p.on("datachannel", lambda ch: ch.on("message", lambda m, ch=ch: self.received.append([ch.label, m])))
        ok = True
        try:
            for st in steps:
                if st[0] == 9:
                    o, n = (pcs[0], pcs[1]) if st[1] == 0 else (pcs[1], pcs[0])
                    tr, ok = await self.negotiate(o, n)
                    self.trace.append(tr)
                    if not ok:
                        break
                else:
                    side = st[1]
                    try:
                        await self.apply_op(pcs[side], st[2], chans[side])
                    except Exception as exc:  # noqa
                        self.runtime["exc"] = "%s: %s" % (type(exc).__name__, exc)
                        self.trace.append([classify_exc(exc)])
                        ok = False
                        break
                    self.trace.append([0, snapshot(pcs[side])])
            if ok and connect and any(st[0] == 9 for st in steps):
                await self.wait_connected(pcs, chans)
        finally:
            for p in pcs:
                try:
                    await asyncio.wait_for(p.close(), 10)
                except Exception as exc:  # noqa
                    self.runtime["exc"] = "close: %r" % (exc,)
            await asyncio.sleep(0)
            left = [t for t in asyncio.all_tasks() if t is not asyncio.current_task() and not t.done()]
            if left:
                await asyncio.sleep(0.05)
                left = [t for t in asyncio.all_tasks() if t is not asyncio.current_task() and not t.done()]
            self.runtime["leaked_tasks"] = len(left)
            self.runtime["leaked_names"] = sorted(set(getattr(t.get_coro(), "__qualname__", "?") for t in left))
            for t in left:
                t.cancel()
        return self.trace


# ------------------------------------------------------------------ generators (layer 1)
FB_POOL = [["nack", None], ["nack", "pli"], ["goog-remb", None], ["ccm", "fir"], ["transport-cc", None]]
MIMES = [("video", "VP8", 90000), ("video", "vp8", 90000), ("video", "H264", 90000), ("video", "h264", 90000),
         ("VIDEO", "H264", 90000), ("video", "VP9", 90000), ("video", "rtx", 90000), ("video", "RTX", 90000),
         ("video", "rtx", 48000), ("audio", "opus", 48000), ("audio", "PCMU", 8000), ("audio", "pcmu", 8000),
         ("audio", "PCMA", 8000), ("audio", "G722", 8000), ("audio", "rtx", 48000), ("audio", "opus", 16000)]
PLI = ["42001f", "42e01f", "42E01F", "4d001f", "4D0028", "640c1f", "64001f", "f4001f", "58e01f", "588028", "420009",
       "42001", "zz001f", "42e01fzz", "4200b", "42100b", "640033", "", 420029, 42, None]
PM = ["0", "1", 1, 0, " 1", "1 ", "+1", "1_0", "_1", "x", "", "01", "-0", None, "2"]
PTS = [0, 8, 9, 35, 63, 95, 96, 97, 98, 99, 100, 101, 102, 111, 127, 128]


def gen_codec(rng, pts=None, mimes=None):
    kind, name, clock = rng.choice(mimes or MIMES)
    pt = rng.choice(pts or PTS)
    fb = [[es(t), eopt(p, es)] for t, p in rng.sample(FB_POOL, rng.randrange(0, 4))]
    params = {}
    if name.lower() == "rtx":
        r = rng.random()
        if r < 0.8:
            params["apt"] = rng.choice(pts or PTS)
        elif r < 0.9:
            params["apt"] = str(rng.choice(pts or PTS))
    elif name.lower() == "h264":
        if rng.random() < 0.8:
            params["packetization-mode"] = rng.choice(PM if rng.random() < 0.4 else ["0", "1", "1"])
        if rng.random() < 0.85:
            params["profile-level-id"] = rng.choice(PLI if rng.random() < 0.5 else PLI[:6])
        if rng.random() < 0.5:
            params["level-asymmetry-allowed"] = "1"
    elif rng.random() < 0.2:
        params[rng.choice(["minptime", "useinbandfec", "x"])] = rng.choice([10, "1", None])
    keys = list(params)
    rng.shuffle(keys)
    channels = rng.choice([None, 1, 2]) if kind.lower() == "audio" else None
    return [es(kind), es(name), clock, eopt(channels), pt, fb, [[es(k), epval(params[k])] for k in keys]]


def perturb_table(rng, table):
    """a remote view of one of our own codec tables: subset, reorder, remapped payload types, other feedback"""
    out = [json.loads(json.dumps(c)) for c in table]
    if rng.random() < 0.5:
        remap = {}
        free = [p for p in range(96, 128)]
        rng.shuffle(free)
        for c in out:
            if c[4] >= 96:
                remap[c[4]] = free.pop()
        for c in out:
            c[4] = remap.get(c[4], c[4])
            for kv in c[6]:
                if ds(kv[0]) == "apt" and kv[1][0] == 0:
                    kv[1][1] = remap.get(kv[1][1], kv[1][1])
    if rng.random() < 0.5:
        out = [c for c in out if rng.random() < 0.75]
    if rng.random() < 0.3:
        rng.shuffle(out)
    for c in out:
        if rng.random() < 0.3:
            c[5] = [[es(t), eopt(p, es)] for t, p in rng.sample(FB_POOL, rng.randrange(0, 4))]
        if rng.random() < 0.1:
            c[2] = rng.choice([8000, 48000, 90000])
    return out


def cap_of_codec(c, rng=None):
    return [c[0], c[1], c[2], c[3], c[6]]


# ------------------------------------------------------------------ the check
class C03(Check):
    prop = "C03"
    props_file = "Props/C03.v"
    models = ["Nego"]
    quick_cases = 1500
    thorough_cases = 40000
    case_timeout = 60.0
    session_every = 6          # every n-th generated case is a session on two real peer connections
    level_note = (
        "Theorems are about Model/Nego.v, a hand transcription of the negotiation code of rtcpeerconnection.py "
        "(52-147, 183-193, 259-272, 456-511, 548-602, 636-745, 782-875, 877-1070, 1155-1214, 1347-1412), "
        "rtcrtptransceiver.setCodecPreferences, codecs.get_capabilities and sdp.parse_h264_profile_level_id, on "
        "structured descriptions (SDP text is C09, the JSEP state machine is C14). Proved for ALL inputs: the helper "
        "laws (find_common_codecs, filter_preferred_codecs, header extensions, directions, allocate_mid); for every "
        "session (any interleaving of configuration calls and exchanges in either direction): answer mirrors offer, "
        "answered codecs/feedback/extensions drawn from the offer, definite DTLS role, complementary current "
        "directions, a well-formedness invariant, and C03_exchange_succeeds (the next exchange returns Ok) under "
        "tables_ok(T) - evaluated on the real CODECS/HEADER_EXTENSIONS every run - and compatible capability-drawn "
        "codec preferences. Tie: differential runs of the real helper functions on generated codec lists, the real "
        "tables, and sessions on pairs of real RTCPeerConnection objects whose SDP is parsed by aiortc's parser and "
        "compared call by call (descriptions, transceiver/sctp/transport state) with the model. PARTIAL: (1) the last "
        "sentence of the property (both sides reach 'connected', channels open and carry messages) is ICE/DTLS/SCTP "
        "runtime behaviour, only observed on real loop-back pairs; (2) complementarity of the DTLS/ICE roles of the two "
        "transports and 'no negotiated section on a discarded transport' are checked by the oracle on the real "
        "objects and by two computed witnesses, not proved for all sessions; (3) alwaysNegotiateDataChannels, "
        "transceiver.stop(), rollback and pranswer are not modelled; payloadType None, non-ASCII strings and MIME "
        "types without exactly one '/' are outside the generator.")
    rule = ("layer 1: random and table-derived codec/extension/capability lists through filter_preferred_codecs, "
            "find_common_codecs, find_common_header_extensions, is_codec_compatible, direction functions, "
            "allocate_mid, setCodecPreferences; layer 2: sessions over 0-3 transceivers per side x kind x 4 directions "
            "x addTrack/addTransceiver x data channel x codec-preference subsets x 3 bundle policies, 1-3 "
            "negotiations with either side offering; distinct by (case, output); non-trivial = result list non-empty "
            "(layer 1) or a complete exchange with at least one m-section (layer 2)")

    def __init__(self):
        self._tables = None
        self._rt = {}

    def tables(self):
        if self._tables is None:
            self._tables = real_tables()
        return self._tables

    # ---------------------------------------------------------------- generation
    def gen_case(self, rng, i):
        if i == 0:
            return [7]
        if i == 1:
            return [8, self.tables()]
        if i % self.session_every == 2:
            return self.gen_session(rng, i)
        return self.gen_pure(rng)

    def gen_pure(self, rng):
        T = self.tables()
        k = rng.random()
        if k < 0.22:       # filter_preferred_codecs
            if rng.random() < 0.6:
                codecs = T[rng.randrange(2)]
                if rng.random() < 0.3:
                    codecs = perturb_table(rng, codecs)
            else:
                codecs = [gen_codec(rng) for _ in range(rng.randrange(0, 7))]
            prefs = []
            pool = codecs + [gen_codec(rng) for _ in range(2)]
            for _ in range(rng.randrange(0, 5)):
                c = rng.choice(pool)
                cap = cap_of_codec(c)
                if ds(c[1]).lower() == "rtx" and rng.random() < 0.7:
                    cap = [c[0], c[1], c[2], [], []]
                if rng.random() < 0.15:
                    cap = [cap[0], es(ds(cap[1]).swapcase()), cap[2], cap[3], cap[4]]
                prefs.append(cap)
            return [0, codecs, prefs]
        if k < 0.55:       # find_common_codecs
            r = rng.random()
            if r < 0.5:
                local = T[rng.randrange(2)]
                remote = perturb_table(rng, local)
                if rng.random() < 0.3:
                    remote += [gen_codec(rng) for _ in range(rng.randrange(1, 3))]
                    rng.shuffle(remote)
            elif r < 0.75:
                mimes = [m for m in MIMES if m[0].lower() == "video"]
                pts = [96, 97, 98, 99, 100, 35, 8]
                local = [gen_codec(rng, pts, mimes) for _ in range(rng.randrange(0, 6))]
                remote = [gen_codec(rng, pts, mimes) for _ in range(rng.randrange(0, 8))]
            else:
                local = [gen_codec(rng) for _ in range(rng.randrange(0, 6))]
                remote = [gen_codec(rng) for _ in range(rng.randrange(0, 8))]
            return [1, local, remote]
        if k < 0.63:       # header extensions
            uris = ["urn:ietf:params:rtp-hdrext:sdes:mid", "urn:ietf:params:rtp-hdrext:ssrc-audio-level",
                    "http://www.webrtc.org/experiments/rtp-hdrext/abs-send-time", "urn:3gpp:video-orientation", "x"]
            local = T[2 + rng.randrange(2)] if rng.random() < 0.6 else \
                [[rng.randrange(1, 15), es(rng.choice(uris))] for _ in range(rng.randrange(0, 5))]
            remote = [[rng.randrange(1, 15), es(rng.choice(uris))] for _ in range(rng.randrange(0, 6))]
            return [2, local, remote]
        if k < 0.83:       # is_codec_compatible
            mimes = [m for m in MIMES if m[1].lower() in ("h264", "vp8")] if rng.random() < 0.8 else None
            a = gen_codec(rng, None, mimes)
            b = gen_codec(rng, None, mimes)
            if rng.random() < 0.5:
                b[0], b[1], b[2] = a[0], es(ds(a[1]).swapcase()) if rng.random() < 0.3 else a[1], a[2]
            return [3, a, b]
        if k < 0.88:
            return [4, rng.randrange(-1, 4), rng.randrange(-1, 4)]
        if k < 0.93:
            n = rng.randrange(0, 8)
            return [5, sorted(set(rng.randrange(0, n + 2) for _ in range(n)))]
        kind = rng.randrange(2)
        caps = self.capabilities(kind)
        pool = caps + [cap_of_codec(gen_codec(rng))]
        return [6, T, kind, [rng.choice(pool) if rng.random() < 0.93 else cap_of_codec(gen_codec(rng))
                             for _ in range(rng.randrange(0, 6))]]

    def capabilities(self, kind):
        from aiortc.codecs import get_capabilities
        return [ecap(c) for c in get_capabilities(KINDS[kind]).codecs]

    def gen_config_ops(self, rng, side, existing, nmax=3, allow_prefs=True):
        """configuration calls for one side; `existing` = kinds of the transceivers it already has"""
        ops = []
        kinds = list(existing)
        n = rng.choice([0, 1, 1, 2, 2, 3]) if nmax >= 3 else rng.randrange(0, nmax + 1)
        dc = rng.random() < 0.45
        dc_at = rng.randrange(0, n + 1)
        for j in range(n + 1):
            if dc and j == dc_at:
                ops.append([0, side, [2]])
            if j == n:
                break
            kind = rng.randrange(2)
            if rng.random() < 0.4:
                ops.append([0, side, [0, kind]])
                if not any(k == kind for k in kinds if True) or True:
                    pass
                # addTrack may reuse a track-less transceiver of that kind: mirror that in `kinds`
                reuse = False
                for idx, (k, has) in enumerate(kinds):
                    if k == kind and not has:
                        kinds[idx] = (k, True)
                        reuse = True
                        break
                if not reuse:
                    kinds.append((kind, True))
            else:
                wt = rng.random() < 0.5
                ops.append([0, side, [1, kind, rng.randrange(4), int(wt)]])
                kinds.append((kind, wt))
        if allow_prefs and kinds:
            for idx, (k, _) in enumerate(kinds):
                r = rng.random()
                if r < 0.3:
                    caps = self.capabilities(k)
                    real = [c for c in caps if ds(c[1]).lower() != "rtx"]
                    rtx = [c for c in caps if ds(c[1]).lower() == "rtx"]
                    pick = rng.sample(real, rng.randrange(1, len(real) + 1))
                    if rtx and rng.random() < 0.6:
                        pick.insert(rng.randrange(0, len(pick) + 1), rtx[0])
                    if rng.random() < 0.1:
                        pick.append(pick[0])
                    ops.append([0, side, [3, idx, pick]])
                elif r < 0.4:
                    ops.append([0, side, [4, idx, rng.randrange(4)]])
        return ops, kinds

    def gen_session(self, rng, i):
        pol_a, pol_b = rng.randrange(3), rng.randrange(3)
        if rng.random() < 0.5:
            pol_b = pol_a
        steps = []
        ops_a, kinds_a = self.gen_config_ops(rng, 0, [])
        ops_b, kinds_b = self.gen_config_ops(rng, 1, []) if rng.random() < 0.6 else ([], [])
        if rng.random() < 0.3:        # interleave the two sides, keeping each side's own order
            first, qa, qb = [], list(ops_a), list(ops_b)
            while qa or qb:
                q = qa if (qa and (not qb or rng.random() < 0.5)) else qb
                first.append(q.pop(0))
        else:
            first = ops_a + ops_b
        steps += first
        offerer = 0 if rng.random() < 0.8 else 1
        steps.append([9, offerer])
        rounds = rng.choice([0, 0, 1, 1, 2])
        for _ in range(rounds):
            # follow-up negotiation: add media on either side and/or swap the offerer
            # (transceivers created by setRemoteDescription are not tracked here, so follow-up calls never index)
            more_a, _ = self.gen_config_ops(rng, 0, [], nmax=1, allow_prefs=False) if rng.random() < 0.6 else ([], [])
            more_b, _ = self.gen_config_ops(rng, 1, [], nmax=1, allow_prefs=False) if rng.random() < 0.5 else ([], [])
            steps += more_a + more_b
            steps.append([9, rng.randrange(2)])
        connect = int(rng.random() < 0.35)
        return [10, self.tables(), pol_a, pol_b, steps, connect]

    # ---------------------------------------------------------------- implementation
    def impl_run(self, case):
        from aiortc import rtcpeerconnection as pcmod
        from aiortc import sdp
        t = case[0]
        if t == 0:
            return outcome(lambda: pcmod.filter_preferred_codecs([dcodec(c) for c in case[1]], [dcap(c) for c in case[2]]),
                           lambda l: [ecodec(c) for c in l])
        if t == 1:
            return outcome(lambda: pcmod.find_common_codecs([dcodec(c) for c in case[1]], [dcodec(c) for c in case[2]]),
                           lambda l: [ecodec(c) for c in l])
        if t == 2:
            return outcome(lambda: pcmod.find_common_header_extensions([dext(x) for x in case[1]],
                                                                       [dext(x) for x in case[2]]),
                           lambda l: [eext(x) for x in l])
        if t == 3:
            return outcome(lambda: pcmod.is_codec_compatible(dcodec(case[1]), dcodec(case[2])), int)
        if t == 4:
            a = None if case[1] < 0 else sdp.DIRECTIONS[case[1]]
            b = None if case[2] < 0 else sdp.DIRECTIONS[case[2]]
            return [outcome(lambda: pcmod.and_direction(a, b), sdp.DIRECTIONS.index),
                    outcome(lambda: pcmod.or_direction(a, b), sdp.DIRECTIONS.index),
                    eopt(None if a is None else pcmod.reverse_direction(a), sdp.DIRECTIONS.index)]
        if t == 5:
            return outcome(lambda: pcmod.allocate_mid(set(str(m) for m in case[1])), int)
        if t == 6:
            from aiortc.rtcrtptransceiver import RTCRtpTransceiver

            def run():
                tr = RTCRtpTransceiver(kind=KINDS[case[2]], receiver=None, sender=None)
                tr.setCodecPreferences([dcap(c) for c in case[3]])
                return tr._preferred_codecs
            return outcome(run, lambda l: [ecap(c) for c in l])
        if t == 7:
            return [[es(d) for d in sdp.DIRECTIONS],
                    [[idc, p._mask, p._masked_value, prof.value] for idc, p, prof in sdp.H264_PROFILE_PATTERNS],
                    sorted(l.value for l in sdp.H264Level if l.value >= 0)]
        if t == 8:
            return [1, self.capabilities(0), self.capabilities(1)]
        if t == 10:
            s = Session(case)
            logging.getLogger("aiortc").setLevel(logging.CRITICAL)
            logging.getLogger("aioice").setLevel(logging.CRITICAL)
            try:
                trace = asyncio.run(s.run())
            finally:
                self._rt[json.dumps(case)] = s.runtime
            return trace
        raise AssertionError("unknown case tag")

    def model_canon(self, case, out):
        if case[0] == 4:
            return out
        if case[0] == 10:
            res = []
            for e in out:
                if e and isinstance(e[0], list):      # a negotiation: list of call entries
                    calls = []
                    for j, c in enumerate(e):
                        if c[0] != 0:
                            calls.append(c)
                        elif j == 0:
                            calls.append([0, c[1], renumber_snapshot(c[2])])
                        elif j == 3:
                            calls.append(c)
                        else:
                            calls.append([0, renumber_snapshot(c[1])])
                    res.append(calls)
                elif e[0] == 0:
                    res.append([0, renumber_snapshot(e[1])])
                else:
                    res.append(e)
            return res
        return out

    # ---------------------------------------------------------------- oracle
    def oracle(self, case, out):
        t = case[0]
        if t == 1:
            return oracle_common_codecs(case, out)
        if t == 0:
            return oracle_filter(case, out)
        if t == 2:
            return oracle_ext(case, out)
        if t == 4:
            return oracle_dir(case, out)
        if t == 8:
            if out[0] != 1:
                return ("tables-not-ok", "CODECS / HEADER_EXTENSIONS violate the sanity conditions the theorems assume")
            return None
        if t == 10:
            return oracle_session(case, out, self._rt.get(json.dumps(case)))
        return None

    def nontrivial(self, case, out):
        t = case[0]
        if t in (0, 1, 2, 6):
            return len(out) == 2 and out[0] == 0 and len(out[1]) > 0
        if t == 10:
            return any(isinstance(e[0], list) and len(e) == 6 and e[5][0] == 0 and len(e[0][1][1]) > 0 for e in out if e)
        return True

    def shrink_candidates(self, case):
        if case[0] == 10:
            steps = case[4]
            for i in range(len(steps)):
                cand = steps[:i] + steps[i + 1:]
                # dropping a transceiver creation invalidates indices of later setCodecPreferences: drop those too
                if steps[i][0] == 0 and steps[i][2][0] in (0, 1):
                    cand = [s for s in cand if not (s[0] == 0 and s[2][0] in (3, 4))]
                yield [10, case[1], case[2], case[3], cand, case[5]]
            if case[5]:
                yield [10, case[1], case[2], case[3], steps, 0]
        elif case[0] in (0, 1, 2):
            for k in (1, 2):
                for i in range(len(case[k])):
                    c = list(case)
                    c[k] = case[k][:i] + case[k][i + 1:]
                    yield c

    def describe_case(self, case):
        t = case[0]
        if t == 10:
            return {"session": {"policies": [POLICIES[case[2]], POLICIES[case[3]]], "connect": case[5],
                                "steps": [describe_step(s) for s in case[4]]}}
        names = {0: "filter_preferred_codecs", 1: "find_common_codecs", 2: "find_common_header_extensions",
                 3: "is_codec_compatible", 4: "directions", 5: "allocate_mid", 6: "setCodecPreferences",
                 7: "constants", 8: "tables"}
        try:
            if t in (0,):
                return {names[t]: [[describe_codec(c) for c in case[1]], [describe_cap(c) for c in case[2]]]}
            if t == 1:
                return {names[t]: [[describe_codec(c) for c in case[1]], [describe_codec(c) for c in case[2]]]}
            if t == 3:
                return {names[t]: [describe_codec(case[1]), describe_codec(case[2])]}
        except Exception:  # noqa
            pass
        return {names.get(t, "?"): case[1:] if t not in (6, 8) else "..."}

    def distribution(self, cases, outs):
        d = {"filter_preferred": 0, "find_common": 0, "find_common_nonempty": 0, "find_common_rtx_kept": 0,
             "hdrext": 0, "compatible": 0, "compatible_true": 0, "compatible_h264": 0, "directions": 0,
             "allocate_mid": 0, "set_prefs": 0, "set_prefs_valueerror": 0, "crash_outcomes": 0,
             "sessions": 0, "sessions_complete": 0, "negotiations": 0, "renegotiations": 0, "sessions_connected": 0,
             "sessions_with_datachannel": 0, "sessions_with_prefs": 0, "m_sections": 0, "sessions_with_tasks_pending_after_close": 0,
             "policies": {}, "session_errors": 0}
        for c, o in zip(cases, outs):
            t = c[0]
            if t == 0:
                d["filter_preferred"] += 1
            elif t == 1:
                d["find_common"] += 1
                if o[0] == 0 and o[1]:
                    d["find_common_nonempty"] += 1
                    if any(ds(x[1]).lower() == "rtx" for x in o[1]):
                        d["find_common_rtx_kept"] += 1
            elif t == 2:
                d["hdrext"] += 1
            elif t == 3:
                d["compatible"] += 1
                if o == [0, 1]:
                    d["compatible_true"] += 1
                if ds(c[1][1]).lower() == "h264":
                    d["compatible_h264"] += 1
            elif t == 4:
                d["directions"] += 1
            elif t == 5:
                d["allocate_mid"] += 1
            elif t == 6:
                d["set_prefs"] += 1
                if o == [-1]:
                    d["set_prefs_valueerror"] += 1
            if t in (0, 1, 3) and o and o[0] == -2:
                d["crash_outcomes"] += 1
            if t == 10:
                d["sessions"] += 1
                negs = [e for e in o if e and isinstance(e[0], list)]
                d["negotiations"] += len(negs)
                d["renegotiations"] += max(0, len(negs) - 1)
                complete = bool(negs) and all(len(e) == 6 and e[5][0] == 0 for e in negs)
                if complete:
                    d["sessions_complete"] += 1
                    d["m_sections"] += len(negs[-1][0][1][1])
                else:
                    d["session_errors"] += 1
                if any(s[0] == 0 and s[2][0] == 2 for s in c[4]):
                    d["sessions_with_datachannel"] += 1
                if any(s[0] == 0 and s[2][0] == 3 for s in c[4]):
                    d["sessions_with_prefs"] += 1
                key = POLICIES[c[2]] + "/" + POLICIES[c[3]]
                d["policies"][key] = d["policies"].get(key, 0) + 1
                rt = self._rt.get(json.dumps(c))
                if rt and rt.get("leaked_tasks"):
                    d["sessions_with_tasks_pending_after_close"] += 1
                if rt and rt.get("connected") and all(x == "connected" for x in rt["connected"]):
                    d["sessions_connected"] += 1
        return d


def describe_codec(c):
    return "%s/%s/%d pt=%d fb=%s %s" % (ds(c[0]), ds(c[1]), c[2], c[4],
                                       [ds(f[0]) + (" " + ds(f[1][0]) if f[1] else "") for f in c[5]],
                                       {ds(k): dpval(v) for k, v in c[6]})


def describe_cap(c):
    return "%s/%s/%d %s" % (ds(c[0]), ds(c[1]), c[2], {ds(k): dpval(v) for k, v in c[4]})


def describe_step(s):
    if s[0] == 9:
        return "negotiate(offerer=%s)" % "ab"[s[1]]
    op = s[2]
    side = "ab"[s[1]]
    dirs = ["inactive", "sendonly", "recvonly", "sendrecv"]
    if op[0] == 0:
        return "%s.addTrack(%s)" % (side, KINDS[op[1]])
    if op[0] == 1:
        return "%s.addTransceiver(%s%s, %s)" % (side, KINDS[op[1]], " track" if op[3] else "", dirs[op[2]])
    if op[0] == 2:
        return "%s.createDataChannel()" % side
    if op[0] == 3:
        return "%s.transceivers[%d].setCodecPreferences(%s)" % (side, op[1], [describe_cap(c) for c in op[2]])
    return "%s.transceivers[%d].direction=%s" % (side, op[1], dirs[op[2]])


# ------------------------------------------------------------------ oracles: the property itself on implementation outputs
def is_rtx_enc(c):
    return ds(c[1]).lower() == "rtx"


def oracle_common_codecs(case, out):
    """find_common_codecs: sub-list of remote in remote order; remote payload type when dynamic; feedback subset;
    RTX only behind an accepted base codec it names, with the same clock rate."""
    if out[0] != 0:
        return None          # raising on malformed parameters is C05 territory; nothing claimed here
    local, remote, res = case[1], case[2], out[1]

    def same_codec(x, y):
        return ds(x[0]).lower() == ds(y[0]).lower() and ds(x[1]).lower() == ds(y[1]).lower() and x[2] == y[2]

    def drawn_from(r, c):
        if is_rtx_enc(c) != is_rtx_enc(r):
            return False
        if is_rtx_enc(c):
            return r == c
        return (same_codec(r, c) and (not (96 <= c[4] < 128) or r[4] == c[4]) and all(f in c[5] for f in r[5])
                and any(same_codec(l, r) and all(f in l[5] for f in r[5]) and l[6] == r[6] and
                        (r[4] == c[4] if 96 <= c[4] < 128 else r[4] == l[4]) for l in local))
    j = 0
    accepted = []
    for r in res:
        while j < len(remote) and not drawn_from(r, remote[j]):
            j += 1
        if j == len(remote):
            return ("common-codec-not-drawn-from-offer",
                    f"{describe_codec(r)} is not an offered codec (in order, offered payload type, offered feedback)")
        j += 1
        if is_rtx_enc(r):
            apt = dict((ds(k), dpval(v)) for k, v in r[6]).get("apt")
            if not any(not is_rtx_enc(b) and b[4] == apt and b[2] == r[2] for b in accepted):
                return ("rtx-without-base", f"{describe_codec(r)} accepted without an earlier accepted base codec")
        accepted.append(r)
    return None


def oracle_filter(case, out):
    """filter_preferred_codecs: empty preferences = identity; otherwise every entry is one of the given codecs,
    real codecs appear in preference order, an RTX entry directly follows the codec it retransmits."""
    if out[0] != 0:
        return None
    codecs, prefs, res = case[1], case[2], out[1]
    if not prefs:
        return None if res == codecs else ("filter-not-identity", "empty preferences changed the codec list")
    prev = None
    for r in res:
        if r not in codecs:
            return ("filter-invented-codec", describe_codec(r))
        if is_rtx_enc(r):
            apt = dict((ds(k), dpval(v)) for k, v in r[6]).get("apt")
            if prev is None or is_rtx_enc(prev) or prev[4] != apt:
                return ("filter-rtx-misplaced", describe_codec(r))
        else:
            if not any(not (ds(p[1]).lower() == "rtx") and ds(p[0]).lower() == ds(r[0]).lower() and
                       ds(p[1]).lower() == ds(r[1]).lower() and
                       dict((ds(k), dpval(v)) for k, v in p[4]) == dict((ds(k), dpval(v)) for k, v in r[6])
                       for p in prefs):
                return ("filter-not-preferred", describe_codec(r))
        prev = r
    return None


def oracle_ext(case, out):
    local, remote, res = case[1], case[2], out[1]
    for x in res:
        if x not in remote:
            return ("hdrext-not-offered", str(x))
        if not any(l[1] == x[1] for l in local):
            return ("hdrext-not-supported", str(x))
    return None


def oracle_dir(case, out):
    a, b = case[1], case[2]
    if a < 0 or b < 0:
        return None
    names = ["inactive", "sendonly", "recvonly", "sendrecv"]

    def sends(d):
        return names[d] in ("sendonly", "sendrecv")

    def recvs(d):
        return names[d] in ("recvonly", "sendrecv")
    if out[0][0] != 0 or out[1][0] != 0 or not out[2]:
        return ("direction-raised", f"direction function raised on {names[a]}, {names[b]}")
    nd, od, rv = out[0][1], out[1][1], out[2][0]
    if sends(nd) != (sends(a) and sends(b)) or recvs(nd) != (recvs(a) and recvs(b)):
        return ("and-direction-wrong", f"and_direction({names[a]},{names[b]}) = {names[nd]}")
    if sends(od) != (sends(a) or sends(b)) or recvs(od) != (recvs(a) or recvs(b)):
        return ("or-direction-wrong", f"or_direction({names[a]},{names[b]}) = {names[od]}")
    if sends(rv) != recvs(a) or recvs(rv) != sends(a):
        return ("reverse-direction-wrong", f"reverse_direction({names[a]}) = {names[rv]}")
    return None


def prefs_in_conflict(case):
    """precondition of the property: same-kind transceivers on opposite sides share a preferred real codec,
    and every preference list names at least one real codec"""
    prefs = {0: {}, 1: {}}
    kinds = {0: [], 1: []}
    for s in case[4]:
        if s[0] != 0:
            continue
        side, op = s[1], s[2]
        if op[0] == 0:
            if not any(k == op[1] and not has for k, has in kinds[side]):
                kinds[side].append((op[1], True))
            else:
                for idx, (k, has) in enumerate(kinds[side]):
                    if k == op[1] and not has:
                        kinds[side][idx] = (k, True)
                        break
        elif op[0] == 1:
            kinds[side].append((op[1], bool(op[3])))
        elif op[0] == 3:
            real = [json.dumps(c) for c in op[2] if ds(c[1]).lower() != "rtx"]
            if op[2] and not real:
                return True
            prefs[side][op[1]] = (kinds[side][op[1]][0] if op[1] < len(kinds[side]) else None, set(real))
    for ka, pa in prefs[0].values():
        for kb, pb in prefs[1].values():
            if ka == kb and pa and pb and not (pa & pb):
                return True
    return False


def oracle_session(case, out, rt):
    """The property, stated on the snapshots of the real objects."""
    names = ["inactive", "sendonly", "recvonly", "sendrecv"]
    for e in out:
        if not e:
            continue
        if not isinstance(e[0], list):
            if e[0] != 0:
                return ("config-call-raised", f"a configuration call raised ({rt and rt.get('exc')})")
            continue
        # one negotiation
        if len(e) < 6 or e[5][0] != 0:
            if prefs_in_conflict(case):
                return None              # no codec in common: failing is the specified behaviour
            stage = ["createOffer", "setLocalDescription(offer)", "setRemoteDescription(offer)", "createAnswer",
                     "setLocalDescription(answer)", "setRemoteDescription(answer)"][len(e) - 1]
            return ("exchange-raised:" + stage, f"{stage} raised {rt and rt.get('exc')}")
        offer, o1 = e[0][1], e[0][2]
        o2, n1, answer, n2, o3 = e[1][1], e[2][1], e[3][1], e[4][1], e[5][1]
        if o3[0] != 0 or n2[0] != 0:
            return ("not-stable", f"signalling states after the exchange: {STATES[o3[0]]}, {STATES[n2[0]]}")
        om, am = offer[1], answer[1]
        if [(m[0], m[1]) for m in om] != [(m[0], m[1]) for m in am]:
            return ("answer-does-not-mirror-offer", f"offer sections {[(m[0], m[1]) for m in om]}, answer {[(m[0], m[1]) for m in am]}")
        if len(set(m[1] for m in om)) != len(om):
            return ("duplicate-mid", f"offer mids {[m[1] for m in om]}")
        if offer[2] != [m[1] for m in om] or answer[2] != offer[2]:
            return ("bundle-mismatch", f"offer BUNDLE {offer[2]}, answer BUNDLE {answer[2]}, mids {[m[1] for m in om]}")
        for mo, ma in zip(om, am):
            if ma[5] not in (1, 2):
                return ("answer-without-definite-dtls-role", f"mid {ma[1]} setup {ROLES[ma[5]] if ma[5] >= 0 else None}")
            if mo[0] == 2:
                continue
            if not ma[3] or all(is_rtx_enc(c) for c in ma[3]):
                return ("answer-without-codec", f"mid {ma[1]}")
            prev = None
            for c in ma[3]:
                off = [x for x in mo[3] if x[4] == c[4]]
                if not off or ds(off[0][0]).lower() != ds(c[0]).lower() or ds(off[0][1]).lower() != ds(c[1]).lower() \
                        or off[0][2] != c[2]:
                    return ("answer-codec-not-offered", f"mid {ma[1]}: {describe_codec(c)} not offered under that payload type")
                if not all(f in off[0][5] for f in c[5]):
                    return ("answer-feedback-not-offered", f"mid {ma[1]}: {describe_codec(c)}")
                if is_rtx_enc(c):
                    apt = dict((ds(k), dpval(v)) for k, v in c[6]).get("apt")
                    if prev is None or is_rtx_enc(prev) or prev[4] != apt:
                        return ("answer-rtx-not-next-to-base", f"mid {ma[1]}: {describe_codec(c)}")
                prev = c
            for x in ma[4]:
                if x not in mo[4]:
                    return ("answer-extension-not-offered", f"mid {ma[1]}: {x[0]} {ds(x[1])}")
            # directions: the answer never sends what the offerer does not receive and vice versa
            do, da = mo[2][0], ma[2][0]
            if (da & 1) and not (do & 2) or (da & 2) and not (do & 1):
                return ("answer-direction-exceeds-offer", f"mid {ma[1]}: offer {names[do]}, answer {names[da]}")
        # per m-section state of the two sides
        for side_name, snap in (("offerer", o3), ("answerer", n2)):
            for i, m in enumerate(om):
                if m[0] == 2:
                    if not snap[2] or snap[2][0][0] != [m[1]] or snap[3] != [i]:
                        return ("sctp-not-on-its-m-line", f"{side_name}: sctp {snap[2]} m-line {snap[3]}, section {i} mid {m[1]}")
                    continue
                ts = [t for t in snap[1] if t[2] == [m[1]]]
                if len(ts) != 1 or ts[0][0] != m[0] or ts[0][3] != [i]:
                    return ("transceiver-not-on-its-m-line", f"{side_name}: section {i} kind {m[0]} mid {m[1]}: {len(ts)} transceivers")
        for i, m in enumerate(om):
            if m[0] == 2:
                tro, trn = o3[2][0][2], n2[2][0][2]
            else:
                to = [t for t in o3[1] if t[2] == [m[1]]][0]
                tn = [t for t in n2[1] if t[2] == [m[1]]][0]
                if not to[5] or not tn[5]:
                    return ("no-current-direction", f"mid {m[1]}: {to[5]} / {tn[5]}")
                co, cn = to[5][0], tn[5][0]
                if bool(co & 1) != bool(cn & 2) or bool(co & 2) != bool(cn & 1):
                    return ("current-directions-not-complementary", f"mid {m[1]}: offerer {names[co]}, answerer {names[cn]}")
                if (co & 1) and not (to[1] & 1) or (cn & 1) and not (tn[1] & 1):
                    return ("sending-against-own-direction", f"mid {m[1]}: {names[co]}/{names[to[1]]}, {names[cn]}/{names[tn[1]]}")
                if cn != am[i][2][0]:
                    return ("current-direction-differs-from-answer", f"mid {m[1]}")
                if sorted(c[4] for c in to[7]) != sorted(c[4] for c in tn[7]) or \
                        sorted(c[4] for c in tn[7]) != sorted(c[4] for c in am[i][3]):
                    return ("negotiated-codecs-differ", f"mid {m[1]}: offerer uses {[c[4] for c in to[7]]}, answerer {[c[4] for c in tn[7]]}, answer {[c[4] for c in am[i][3]]}")
                tro, trn = to[11], tn[11]
            if sorted([tro[1], trn[1]]) != [1, 2]:
                return ("dtls-roles-not-complementary", f"mid {m[1]}: offerer {ROLES[tro[1]]}, answerer {ROLES[trn[1]]}")
            if trn[1] != am[i][5]:
                return ("dtls-role-differs-from-answer", f"mid {m[1]}")
            if not tro[4] or not trn[4]:
                return ("transport-discarded", f"mid {m[1]}: the transport of a negotiated section was stopped and discarded")
            if not (tro[2] and trn[2]) or tro[3] == trn[3]:
                return ("ice-roles-not-complementary", f"mid {m[1]}: controlling {tro[3]}/{trn[3]}")
    if rt is not None:
        if rt.get("connected") is not None:
            if not rt.get("transports_connected"):
                return ("not-connected", f"a negotiated transport is not connected after 10 s; connection states {rt['connected']}")
            for st, idle in zip(rt["connected"], rt["idle_transports"]):
                if st != "connected" and idle:
                    return ("not-connected:idle-transport-of-unnegotiated-transceiver",
                            f"every negotiated transport is connected but connectionState stays {rt['connected']}: a "
                            "transceiver that took part in no offer holds a transport that is never started")
                if st != "connected":
                    return ("not-connected", f"connection states after 10 s: {rt['connected']}")
        if rt.get("message") is not None:
            want, got = rt["message"]
            if len(got) != want:
                return ("datachannel-silent", f"{want} channels created, messages received: {got}")
    return None


if __name__ == "__main__":
    import sys
    sys.exit(C03().main(sys.argv[1:]))
