"""C12 -- RtpRouter: correspondence with Model/Router.v and property oracle."""
import struct

import types

from harness.framework import Check, canon, classify_exc


def _mk_fci(rng, valid):
    if valid == 0:  # well-formed REMB
        n = rng.randrange(0, 4)
        ssrcs = [rng.choice(SSRCS) for _ in range(n)]
        return b"REMB" + struct.pack("!BBH", n, rng.randrange(256), rng.randrange(65536)) + b"".join(
            struct.pack("!L", s) for s in ssrcs)
    if valid == 1:  # count exceeds data
        n = rng.randrange(1, 4)
        ssrcs = [rng.choice(SSRCS) for _ in range(n)]
        return b"REMB" + struct.pack("!BBH", n + rng.randrange(1, 200), 0, 0) + b"".join(
            struct.pack("!L", s) for s in ssrcs) + bytes(rng.randrange(0, 4))
    if valid == 2:  # bad prefix / short
        return bytes(rng.randrange(256) for _ in range(rng.randrange(0, 14)))
    # extra trailing data
    return b"REMB" + struct.pack("!BBH", 1, 0, 0) + struct.pack("!L", rng.choice(SSRCS)) + bytes(rng.randrange(0, 9))


def mk_rtcp(op):
    """the RTCP packet object of a [5, kind, ...] operation"""
    from aiortc import rtp
    k = op[1]
    if k == 0:
        info = rtp.RtcpSenderInfo(ntp_timestamp=0, rtp_timestamp=0, packet_count=0, octet_count=0)
        return rtp.RtcpSrPacket(ssrc=op[2], sender_info=info, reports=[
            rtp.RtcpReceiverInfo(ssrc=x, fraction_lost=0, packets_lost=0, highest_sequence=0, jitter=0, lsr=0, dlsr=0)
            for x in op[3]])
    if k == 1:
        return rtp.RtcpRrPacket(ssrc=77, reports=[
            rtp.RtcpReceiverInfo(ssrc=x, fraction_lost=0, packets_lost=0, highest_sequence=0, jitter=0, lsr=0, dlsr=0)
            for x in op[2]])
    if k == 2:
        return rtp.RtcpSdesPacket(chunks=[])
    if k == 3:
        return rtp.RtcpByePacket(sources=list(op[2]))
    if k == 4:
        return rtp.RtcpRtpfbPacket(fmt=1, ssrc=77, media_ssrc=op[2])
    return rtp.RtcpPsfbPacket(fmt=op[2], ssrc=77, media_ssrc=op[3], fci=bytes(op[4]))


def gen_compound(rng):
    """a compound RTCP datagram for RTCDtlsTransport._handle_rtcp_data: 2-5 packets with different targets, receivers
    and senders registered beforehand, and handlers that - after suspending once - unregister another endpoint"""
    recv = [[n, rng.sample(SSRCS[:6], rng.randrange(1, 3)), rng.sample(PTS, 1)] for n in range(1, rng.randrange(2, 5))]
    send = [[n, rng.choice(SSRCS[:6])] for n in range(11, rng.randrange(12, 14))]
    pkts = []
    for _ in range(rng.randrange(2, 6)):
        kind = rng.choice([0, 0, 1, 2, 3, 4, 4, 5])
        if kind == 0:
            pkts.append([5, 0, rng.choice(SSRCS[:6]), [rng.choice(SSRCS[:6]) for _ in range(rng.randrange(0, 3))]])
        elif kind == 1:
            pkts.append([5, 1, [rng.choice(SSRCS[:6]) for _ in range(rng.randrange(1, 3))]])
        elif kind == 2:
            pkts.append([5, 2])
        elif kind == 3:
            pkts.append([5, 3, [rng.choice(SSRCS[:6]) for _ in range(rng.randrange(1, 3))]])
        elif kind == 4:
            pkts.append([5, 4, rng.choice(SSRCS[:6])])
        else:
            pkts.append([5, 5, 1, rng.choice(SSRCS[:6]), []])
    effects = []
    if rng.random() < 0.6:
        everyone = [r[0] for r in recv] + [x[0] for x in send]
        for _ in range(rng.randrange(1, 3)):
            effects.append([rng.choice(everyone), rng.choice(everyone)])      # [who reacts, whom it unregisters]
    return {"recv": recv, "send": send, "packets": pkts, "effects": effects}


def run_compound(spec):
    """[actual, expected]: which endpoint was handed which packet (index) of the datagram - by the real
    RTCDtlsTransport._handle_rtcp_data, and by the per-packet rule 'route the packet, deliver it, then go on'"""
    import asyncio
    import types
    from aiortc.rtcdtlstransport import RTCDtlsTransport, RtpRouter

    def build(log):
        router = RtpRouter()
        ends = {}

        class End:
            def __init__(self, n):
                self.n = n
                self._ssrc = 0
                self.reacted = False

            async def _handle_rtcp_packet(self, packet):
                log.append([self.n, packet])
                for who, target in spec["effects"]:
                    if who == self.n and not self.reacted:
                        self.reacted = True
                        await asyncio.sleep(0)       # the handler suspends (as a sender retransmitting on NACK does)
                        t = ends.get(target)
                        if t is not None:
                            (router.unregister_receiver if target < 10 else router.unregister_sender)(t)

        for n, ssrcs, pts in spec["recv"]:
            ends[n] = End(n)
            router.register_receiver(ends[n], list(ssrcs), list(pts))
        for n, ssrc in spec["send"]:
            ends[n] = End(n)
            router.register_sender(ends[n], ssrc)
        return router, ends

    packets = [mk_rtcp(op) for op in spec["packets"]]
    data = b"".join(bytes(p) for p in packets)

    async def go():
        # the real dispatcher
        log = []
        router, _ = build(log)
        stub = types.SimpleNamespace(_rtp_router=router)
        setattr(stub, "_RTCDtlsTransport__log_debug", lambda *a: None)
        import aiortc.rtcdtlstransport as D
        real = D.RtcpPacket
        seen = []

        class Spy:
            @staticmethod
            def parse(d):
                lst = real.parse(d)
                seen.append(lst)
                return lst

        D.RtcpPacket = Spy
        try:
            await RTCDtlsTransport._handle_rtcp_data(stub, data)
        finally:
            D.RtcpPacket = real
        order = [id(pk) for pk in (seen[0] if seen else [])]
        actual = sorted([n, order.index(id(pk))] for n, pk in log)
        # the reference: packet by packet
        from aiortc.rtp import RtcpPacket
        log2 = []
        router2, _ = build(log2)
        parsed = RtcpPacket.parse(data)
        expected = []
        for j, pk in enumerate(parsed):
            for r in list(router2.route_rtcp(pk)):
                expected.append([r.n, j])
                await r._handle_rtcp_packet(pk)
        return [actual, sorted(expected)]

    loop = asyncio.new_event_loop()
    try:
        return loop.run_until_complete(go())
    finally:
        loop.close()


SSRCS = [1, 2, 3, 4, 5, 1000, 4294967295, 0]
PTS = [0, 8, 96, 97, 98, 111]


_CERT = None


class C12(Check):
    prop = "C12"
    props_file = "Props/C12.v"
    models = ["Router"]
    quick_cases = 1500
    thorough_cases = 40000
    level_note = ("Theorems are about Model/Router.v; its tie to RtpRouter is the differential run of random "
                  "register/unregister/route histories (outputs and final tables compared after canonical sorting). "
                  "Receivers/senders are integer handles standing for object identity.")
    rule = ("random operation histories (3-40 ops) over 4 receivers, 3 senders, 8 SSRCs, 6 payload types, all RTCP "
            "kinds, REMB FCIs valid/truncated/garbage; registrations go through the real RTCDtlsTransport._register_rtp_receiver / "
            "_register_rtp_sender / _unregister_* (one encoding per SSRC, one codec per payload type), packets through its router; distinct by (history, outputs); non-trivial = at least one "
            "route result is non-empty and at least one unregister occurs")

    def gen_case(self, rng, i):
        ops = []
        n = rng.randrange(3, 40)
        for _ in range(n):
            k = rng.random()
            if k < 0.2:
                ops.append([0, rng.randrange(1, 5), rng.sample(SSRCS, rng.randrange(0, 3)),
                            rng.sample(PTS, rng.randrange(0, 3)), rng.choice([[], [], [rng.randrange(1, 4)]])])
            elif k < 0.3:
                ops.append([1, rng.randrange(11, 14), rng.choice(SSRCS)])
            elif k < 0.4:
                ops.append([2, rng.randrange(1, 5)])
            elif k < 0.45:
                ops.append([3, rng.randrange(11, 14)])
            elif k < 0.75:
                ops.append([4, rng.choice(SSRCS), rng.choice(PTS)])
            else:
                kind = rng.randrange(6)
                if kind == 0:
                    ops.append([5, 0, rng.choice(SSRCS), [rng.choice(SSRCS) for _ in range(rng.randrange(0, 3))]])
                elif kind == 1:
                    ops.append([5, 1, [rng.choice(SSRCS) for _ in range(rng.randrange(0, 3))]])
                elif kind == 2:
                    ops.append([5, 2])
                elif kind == 3:
                    ops.append([5, 3, [rng.choice(SSRCS) for _ in range(rng.randrange(0, 3))]])
                elif kind == 4:
                    ops.append([5, 4, rng.choice(SSRCS)])
                else:
                    fmt = rng.choice([15, 15, 15, 1, 4])
                    ops.append([5, 5, fmt, rng.choice(SSRCS), list(_mk_fci(rng, rng.randrange(4)))])
        return ops

    # ------------------------------------------------------------ the dispatcher around the router
    def extra_checks(self, ctx):
        """RTCDtlsTransport._handle_rtcp_data on compound datagrams: every packet goes to exactly the endpoints the router
        names for it at that moment - also when an earlier packet's handler suspended and unregistered somebody"""
        import random
        rng = random.Random(20240 + getattr(ctx["rng"], "randrange")(1 << 30) % 7)
        n = 4000 if ctx["tier"] == "thorough" else 400
        out = []
        self.compound = {"datagrams": n, "with_unregistration": 0, "deliveries": 0}
        for _ in range(n):
            spec = gen_compound(rng)
            actual, expected = run_compound(spec)
            self.compound["with_unregistration"] += 1 if spec["effects"] else 0
            self.compound["deliveries"] += len(expected)
            if actual != expected and not out:
                out.append(("rtcp-compound-misdelivered", self._compound_text(actual, expected), ["compound", spec]))
        return out

    @staticmethod
    def _compound_text(actual, expected):
        extra = [x for x in actual if x not in expected]
        missing = [x for x in expected if x not in actual]
        return ("compound RTCP datagram: [endpoint, packet index] deliveries that should not have happened " + str(extra) +
                ", missing " + str(missing))

    # ------------------------------------------------------------ implementation
    def impl_run(self, case):
        if case and case[0] == "compound":
            return run_compound(case[1])
        from aiortc import rtp
        from aiortc.rtcdtlstransport import RtpRouter

        class H:
            def __init__(self, n):
                self.n = n
                self._ssrc = 0

        handles = {}

        def h(n):
            if n not in handles:
                handles[n] = H(n)
            return handles[n]

        # registrations go through the real RTCDtlsTransport methods RTCRtpReceiver.receive / RTCRtpSender.send / stop call
        # (one encoding per SSRC, one codec per payload type), packets through the transport's router
        from aiortc.rtcdtlstransport import RTCDtlsTransport, RTCCertificate
        from aiortc.rtcrtpparameters import (RTCRtpCodecParameters, RTCRtpDecodingParameters, RTCRtpReceiveParameters,
                                             RTCRtpSendParameters)
        global _CERT
        if _CERT is None:
            _CERT = RTCCertificate.generateCertificate()
        transport = RTCDtlsTransport(types.SimpleNamespace(role="controlling"), [_CERT])
        router = transport._rtp_router
        assert isinstance(router, RtpRouter)
        outs = []
        for op in case:
            t = op[0]
            if t == 0:
                params = RTCRtpReceiveParameters(
                    codecs=[RTCRtpCodecParameters(mimeType="video/VP8", clockRate=90000, payloadType=pt) for pt in op[3]],
                    encodings=[RTCRtpDecodingParameters(ssrc=s, payloadType=(op[3][0] if op[3] else 0)) for s in op[2]],
                    muxId=(str(op[4][0]) if op[4] else None))
                transport._register_rtp_receiver(h(op[1]), params)
                outs.append([])
            elif t == 1:
                h(op[1])._ssrc = op[2]
                transport._register_rtp_sender(h(op[1]), RTCRtpSendParameters())
                outs.append([])
            elif t == 2:
                transport._unregister_rtp_receiver(h(op[1]))
                outs.append([])
            elif t == 3:
                transport._unregister_rtp_sender(h(op[1]))
                outs.append([])
            elif t == 4:
                pkt = rtp.RtpPacket(payload_type=op[2], ssrc=op[1])
                r = router.route_rtp(pkt)
                outs.append([1, [] if r is None else [r.n]])
            else:
                k = op[1]
                if k == 0:
                    info = rtp.RtcpSenderInfo(ntp_timestamp=0, rtp_timestamp=0, packet_count=0, octet_count=0)
                    p = rtp.RtcpSrPacket(ssrc=op[2], sender_info=info, reports=[
                        rtp.RtcpReceiverInfo(ssrc=s, fraction_lost=0, packets_lost=0, highest_sequence=0, jitter=0,
                                             lsr=0, dlsr=0) for s in op[3]])
                elif k == 1:
                    p = rtp.RtcpRrPacket(ssrc=77, reports=[
                        rtp.RtcpReceiverInfo(ssrc=s, fraction_lost=0, packets_lost=0, highest_sequence=0, jitter=0,
                                             lsr=0, dlsr=0) for s in op[2]])
                elif k == 2:
                    p = rtp.RtcpSdesPacket(chunks=[])
                elif k == 3:
                    p = rtp.RtcpByePacket(sources=list(op[2]))
                elif k == 4:
                    p = rtp.RtcpRtpfbPacket(fmt=1, ssrc=77, media_ssrc=op[2])
                else:
                    p = rtp.RtcpPsfbPacket(fmt=op[2], ssrc=77, media_ssrc=op[3], fci=bytes(op[4]))
                try:
                    rec = router.route_rtcp(p)
                    rs = sorted(x.n for x in rec if x.n < 10)
                    ss = sorted(x.n for x in rec if x.n >= 10)
                    outs.append([2, rs, ss, 0])
                except Exception:
                    outs.append([2, [], [], 1])
        state = [
            sorted(x.n for x in router.receivers),
            sorted([k, v.n] for k, v in router.senders.items()),
            sorted([int(k), v.n] for k, v in router.mid_table.items()),
            sorted([k, v.n] for k, v in router.ssrc_table.items()),
            sorted([k, sorted(x.n for x in v)] for k, v in router.payload_type_table.items()),
        ]
        return [outs, state]

    def model_canon(self, case, out):
        outs, st = out
        outs2 = []
        for o in outs:
            if o and o[0] == 2:
                outs2.append([2, sorted(o[1]), sorted(o[2]), o[3]])
            else:
                outs2.append(o)
        st2 = [sorted(st[0]), sorted(st[1]), sorted(st[2]), sorted(st[3]), sorted([k, sorted(v)] for k, v in st[4])]
        return [outs2, st2]

    # ------------------------------------------------------------ oracle (the property, on the implementation)
    def oracle(self, case, impl_out):
        if case and case[0] == "compound":
            actual, expected = impl_out
            return None if actual == expected else ("rtcp-compound-misdelivered", self._compound_text(actual, expected))
        outs = impl_out[0]
        owner = {}      # ssrc -> receiver (registration or latch)
        accepts = {}    # receiver -> set of pts
        senders = {}    # ssrc -> sender
        for op, o in zip(case, outs):
            t = op[0]
            if t == 0:
                accepts.setdefault(op[1], set()).update(op[3])
                for s in op[2]:
                    owner[s] = op[1]
            elif t == 1:
                senders[op[2]] = op[1]
            elif t == 2:
                accepts.pop(op[1], None)
                owner = {k: v for k, v in owner.items() if v != op[1]}
            elif t == 3:
                senders = {k: v for k, v in senders.items() if v != op[1]}
            elif t == 4:
                ssrc, pt = op[1], op[2]
                acc = sorted(r for r, p in accepts.items() if pt in p)
                if ssrc in owner:
                    want = [owner[ssrc]] if owner[ssrc] in acc else []
                elif len(acc) == 1:
                    want = [acc[0]]
                    owner[ssrc] = acc[0]
                else:
                    want = []
                if o != [1, want]:
                    if o[1] and o[1][0] not in accepts:
                        return ("rtp-routed-to-unregistered", f"RTP ssrc={ssrc} pt={pt} went to {o[1]} which is not registered")
                    return ("rtp-misrouted", f"RTP ssrc={ssrc} pt={pt} routed to {o[1]}, property says {want}")
            else:
                k = op[1]
                want_r, want_s = set(), set()
                if k == 0:
                    want_r |= {owner[op[2]]} if op[2] in owner else set()
                    want_s |= {senders[s] for s in op[3] if s in senders}
                elif k == 1:
                    want_s |= {senders[s] for s in op[2] if s in senders}
                elif k == 3:
                    want_r |= {owner[s] for s in op[2] if s in owner}
                elif k == 4:
                    want_s |= {senders[op[2]]} if op[2] in senders else set()
                elif k == 5:
                    want_s |= {senders[op[3]]} if op[3] in senders else set()
                    fci = bytes(op[4])
                    if op[2] == 15 and len(fci) >= 8 and fci[:4] == b"REMB" and len(fci) >= 8 + 4 * fci[4]:
                        for j in range(fci[4]):
                            s = struct.unpack_from("!L", fci, 8 + 4 * j)[0]
                            if s in senders:
                                want_s.add(senders[s])
                if o[3]:
                    return ("rtcp-route-raised", f"route_rtcp raised on {op}")
                if o != [2, sorted(want_r), sorted(want_s), 0]:
                    return ("rtcp-misrouted", f"RTCP {op} routed to receivers {o[1]} senders {o[2]}, "
                                              f"property says {sorted(want_r)} / {sorted(want_s)}")
        return None

    def shrink_candidates(self, case):
        if case and case[0] == "compound":
            spec = case[1]
            for key in ("effects", "packets", "recv", "send"):
                for i in range(len(spec[key])):
                    if key != "packets" or len(spec[key]) > 1:
                        yield ["compound", dict(spec, **{key: spec[key][:i] + spec[key][i + 1:]})]
            return
        yield from super().shrink_candidates(case)

    def describe_case(self, case):
        return case

    def nontrivial(self, case, impl_out):
        if case and case[0] == "compound":
            return bool(impl_out[1])
        outs = impl_out[0]
        routed = any(o and ((o[0] == 1 and o[1]) or (o[0] == 2 and (o[1] or o[2]))) for o in outs)
        return routed and any(op[0] in (2, 3) for op in case)

    def distribution(self, cases, outs):
        d = {"compound_rtcp_dispatch": getattr(self, "compound", None), "ops": 0, "reg_recv": 0, "reg_send": 0, "unreg": 0, "rtp": 0, "rtcp": 0, "rtp_routed": 0,
             "rtp_dropped": 0, "rtcp_nonempty": 0, "latched": 0}
        for c, o in zip(cases, outs):
            for op, oo in zip(c, o[0]):
                d["ops"] += 1
                if op[0] == 0:
                    d["reg_recv"] += 1
                elif op[0] == 1:
                    d["reg_send"] += 1
                elif op[0] in (2, 3):
                    d["unreg"] += 1
                elif op[0] == 4:
                    d["rtp"] += 1
                    d["rtp_routed" if oo[1] else "rtp_dropped"] += 1
                else:
                    d["rtcp"] += 1
                    if oo[1] or oo[2]:
                        d["rtcp_nonempty"] += 1
        return d


if __name__ == "__main__":
    import sys
    sys.exit(C12().main(sys.argv[1:]))
