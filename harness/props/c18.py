"""C18 -- RTCP receiver reports: correspondence with Model/Stats.v and property oracle.

A case is [S, rs, mode, clockrate, events]:
  S   SSRC of the remote RTP stream, rs the receiver's own RTCP SSRC
  mode 0: RTP packets go through RTCRtpReceiver._handle_rtp_packet (which creates the
          StreamStatistics object itself); mode 1: a StreamStatistics(clockrate) object is
          placed in the receiver and driven directly (as tests/test_rtcrtpreceiver.py does)
  events: [0, seq, ts, arrival]  RTP packet; time.time() is replaced so that
                                 int(time.time() * clockrate) == arrival
          [1, ssrc, ntp, now]    RTCP SR handled at wall clock now * 2^-20 s
          [2, now]               one iteration of the RTCRtpReceiver._run_rtcp loop at that time
          [3]                    read packets_expected / packets_lost / jitter / packets_received (mode 0:
                                 the last three through RTCRtpReceiver.getStats())
The model sees [S, rs, events].
"""
import fractions
import struct

from harness.framework import Check

U16 = 1 << 16
U32 = 1 << 32


def hash_ints(o):
    """deterministic hash of nested ints (no dependence on PYTHONHASHSEED)"""
    h = 1469598103934665603
    stack = [o]
    while stack:
        x = stack.pop()
        if isinstance(x, list):
            stack.extend(x)
        else:
            h = ((h ^ (x & 0xFFFFFFFFFFFF)) * 1099511628211) % (1 << 64)
    return h


class _FakeTime:
    def __init__(self):
        self.value = 0

    def time(self):
        return self.value


class _AsyncioShim:
    """asyncio with `sleep` replaced: the first sleep of a run returns at once, the second
    cancels the RTCP task (so exactly one loop iteration of _run_rtcp is executed)."""

    def __init__(self, real):
        self._real = real
        self.calls = 0

    def __getattr__(self, name):
        return getattr(self._real, name)

    async def sleep(self, delay):
        self.calls += 1
        if self.calls > 1:
            raise self._real.CancelledError()


class _Transport:
    state = "connected"
    _stats_id = "transport_0"

    def __init__(self):
        self.sent = []

    async def _send_rtp(self, data):
        self.sent.append(data)

    def _get_stats(self):
        return {}


def _drive(coro):
    """Run a coroutine that must not suspend (atomic-handler assumption of the model)."""
    try:
        coro.send(None)
    except StopIteration as exc:
        return exc.value
    coro.close()
    raise RuntimeError("handler suspended: atomicity assumption violated")


def _time_value(arrival, clockrate):
    """A time.time() value t with int(t * clockrate) == arrival exactly."""
    if clockrate == 1:
        if abs(arrival) < (1 << 53) and arrival % 2 == 0:
            return float(arrival)
        return arrival
    return fractions.Fraction(arrival, clockrate)


def gen_rtx_case(rng):
    """media packets (SSRC 1234, payload type 100) with holes and repair packets on the RTX stream (SSRC 5678, payload
    type 101, carrying the original sequence number): which stream's counters does each arrival feed?"""
    seq = rng.choice([0, 1000, 65500, 65530])
    rtx_seq = rng.randrange(65536)
    pk = []
    lost = []
    for _ in range(rng.randrange(3, 30)):
        seq = (seq + 1) & 0xFFFF
        if rng.random() < 0.25:
            lost.append(seq)
            continue
        pk.append([0, seq])
        if lost and rng.random() < 0.5:
            rtx_seq = (rtx_seq + 1) & 0xFFFF
            pk.append([1, rtx_seq, lost.pop(0)])
    return ["rtx", pk]


def run_rtx_case(case):
    """{ssrc: packets_received} of a real video RTCRtpReceiver with RTX negotiated, and what the wire says"""
    from aiortc import rtp
    from harness.props.c11 import ReceiverRig, _loop_run
    out = {}

    async def go():
        rig = ReceiverRig([[[100, [0]], [101, [3, [100]]]], [[5678, 1234]], [99]], None)
        await rig.start()
        try:
            ts = 1000
            for i, p in enumerate(case[1]):
                ts += 3000
                if p[0] == 0:
                    pkt = rtp.RtpPacket(payload_type=100, sequence_number=p[1], timestamp=ts, ssrc=1234, payload=b"\x10\x00\x00\x01data")
                else:
                    pkt = rtp.RtpPacket(payload_type=101, sequence_number=p[1], timestamp=ts, ssrc=5678,
                                        payload=struct.pack("!H", p[2]) + b"\x10\x00\x00\x01data")
                await rig.handle(pkt, arrival_ms=i * 10)
            streams = getattr(rig.receiver, "_RTCRtpReceiver__remote_streams")
            out["got"] = sorted([ssrc, st.packets_received] for ssrc, st in streams.items())
        finally:
            await rig.stop()
    _loop_run(go())
    media = sum(1 for p in case[1] if p[0] == 0)
    repair = sum(1 for p in case[1] if p[0] == 1)
    out["want"] = sorted(x for x in ([1234, media], [5678, repair]) if x[1])
    return out


def gen_rr_case(rng):
    """well-formed RTP from n synchronisation sources at one receiver, then one round of its reporting loop while
    media keeps arriving"""
    n = rng.choice([1, 2, 5, 30, 31, 32, 33, 62, 63, 70, 130])
    return ["rr", n, rng.randrange(65536), rng.randrange(1, 4)]


def run_rr_case(case):
    """one round of the real RTCRtpReceiver._run_rtcp (the first packet of a new source is handled during each
    transport send): how many report blocks parse back from the wire, and whether the loop survived"""
    import struct as _struct
    from harness.props import c05
    _, n, seq, per = case
    pkts = []
    for i in range(n):
        for k in range(per):
            hdr = _struct.pack("!BBHLL", 0x80, 100, (seq + k) & 0xFFFF, 1000 + 3000 * k, 1000000 + i)
            pkts.append(list(hdr + b"\x10\x00\x00\x01data"))
    return c05.run_rx({"k": "rx", "codec": 0, "packets": pkts})


def oracle_rr_case(case, out):
    if out.get("harness_error"):
        return None
    if out.get("raised"):
        return ("receiver-raised", f"_handle_rtp_packet raised {out['raised']}")
    if out.get("report_raised"):
        return ("receiver-report-raised", f"{case[1]} synchronisation sources, media arriving while the reports are sent: the "
                                          f"receiver's RTCP loop (_run_rtcp) dies with {out['report_raised']}; no further reports are sent")
    if out.get("report_unparsable") or "report_blocks" in out:
        return ("receiver-report-malformed", f"{case[1]} synchronisation sources: the reports on the wire are malformed or incomplete "
                                             f"({out.get('report_unparsable') or str(out.get('report_blocks')) + ' report blocks parse back'})")
    return None


class C18(Check):
    prop = "C18"
    props_file = "Props/C18.v"
    models = ["Stats"]
    quick_cases = 1500
    thorough_cases = 40000
    case_timeout = 20.0
    level_note = (
        "Theorems are about Model/Stats.v (the repaired StreamStatistics, the LSR bookkeeping and one iteration of "
        "RTCRtpReceiver._run_rtcp, RtcpReceiverInfo/RtcpRrPacket packing) for ONE remote SSRC per receiver; the tie "
        "to aiortc is the differential run (every probe, every report's fields and the bytes handed to the "
        "transport, final StreamStatistics fields). time.time() is an input: the arrival clock "
        "int(time.time()*clockrate) is an arbitrary integer per packet and SR/report instants are multiples of "
        "2^-20 s (exact as floats). Not modelled: several SSRCs in one receiver report (count > 1), the float "
        "rounding of real wall-clock values, RtcpReceiverInfo.parse; getStats() is only observed (probes of the "
        "receiver-driven cases read packetsLost / jitter / packetsReceived through it).")
    rule = (
        "(extra checks, oracle only: RTX repair packets at a real receiver; one round of the real _run_rtcp with 1-130 sources "
        "while the first packet of a new source is handled during every transport send) "
        "random arrival histories of 1-120 events (one of 600-2500 events per 50 cases, one of >131000 in-order "
        "packets per 400 cases so that the extended highest sequence number passes 2^32 and cumulative loss passes "
        "the 24-bit clamp): start sequence anywhere (half of them within 300 of the wrap), per-case rates of loss "
        "bursts, duplicates/late packets, far reordering and jumps up to +-32768 incl. the exact half distances; "
        "RTP timestamps starting within a few steps of 2^32, repeated timestamps (frames), random timestamps; "
        "arrival clock with noise, jumps of +-2^31..2^40 and negative values; SR packets for the stream and for "
        "other SSRCs with 64-bit NTP times; reports and probes at random instants incl. before the first packet "
        "and back to back; dlsr delays <=0, small, around the 65536 s limit; 3-5% of cases with an SSRC outside "
        "32 bits (pack must raise: Crash path of the model); both driving modes (through "
        "RTCRtpReceiver._handle_rtp_packet / StreamStatistics directly), clock rates 1, 8000, 48000, 90000. "
        "Oracle: RFC 3550 A.1/A.3/A.8 recomputed independently (own unwrapping, transit-based 32-bit jitter), "
        "wire bytes decoded with struct, plus for 2/3 of the cases a second implementation run with shifted "
        "sequence-number and timestamp origins (C17). distinct by (case, outputs); non-trivial = a report was "
        "sent after a sequence wrap or with non-zero cumulative loss")

    # ------------------------------------------------------------ generator
    def gen_huge(self, rng):
        """More than 2^32 / 32767 in-order packets: the extended highest sequence number passes 2^32
        (its 16-bit cycle count wraps) and cumulative loss is far beyond the 24-bit clamp."""
        seq = rng.randrange(U16)
        ts = rng.randrange(U32)
        arrival = rng.randrange(1 << 40)
        now = 1 << 50
        evs = []
        n = 131073 + rng.randrange(0, 3000)
        marks = {n // 3, n - 2000, n - 1}
        for j in range(n):
            seq += rng.choice([32767, 32767, 32767, 32766, 32700])
            ts += 3000
            arrival += 3000 + rng.randrange(-5, 6)
            evs.append([0, seq % U16, ts % U32, arrival])
            if j in marks:
                evs.append([3])
                evs.append([2, now + j])
        while seq - (evs[0][1]) < U32 + 70000:
            seq += 32767
            evs.append([0, seq % U16, ts % U32, arrival])
        evs.append([2, now + n])
        evs.append([0, (seq - 5) % U16, ts % U32, arrival])
        evs.append([2, now + n + 1])
        return [rng.randrange(U32), rng.randrange(U32), 1, 1, evs]

    def gen_case(self, rng, i):
        if i % 400 == 11:
            return self.gen_huge(rng)
        r = rng.random()
        if r < 0.03:
            S = rng.choice([U32, -1, U32 + 5])
        else:
            S = rng.choice([0, 1, 1234, U32 - 1, rng.randrange(U32)])
        r = rng.random()
        if r < 0.02:
            rs = rng.choice([U32, -1])
        else:
            rs = rng.choice([0, 1, U32 - 1, rng.randrange(U32)])
        mode = rng.randrange(2)
        clockrate = rng.choice([1, 1, 8000, 48000, 90000])
        long_case = (i % 50 == 7)
        n = rng.randrange(600, 2500) if long_case else rng.randrange(1, 120)

        # true (unbounded) sender-side values; the wire carries them mod 2^16 / 2^32
        k = rng.random()
        if k < 0.5:
            seq = rng.randrange(U16 - 300, U16 + 300)
        else:
            seq = rng.randrange(0, 4 * U16)
        top = seq
        k = rng.random()
        if k < 0.5:
            ts = U32 - rng.randrange(0, 20) * rng.choice([160, 960, 3000]) - rng.randrange(2)
        elif k < 0.8:
            ts = rng.randrange(0, 3 * U32)
        else:
            ts = rng.choice([0, U32 - 1, U32 // 2, U32 // 2 - 1])
        ts_step = rng.choice([160, 960, 3000, 1, 90000])
        k = rng.random()
        if k < 0.4:
            arrival = rng.randrange(10 ** 13, 2 * 10 ** 14)
        elif k < 0.7:
            arrival = rng.randrange(U32 - 5000, U32 + 5000)
        elif k < 0.85:
            arrival = rng.randrange(-10 ** 6, 10 ** 6)
        else:
            arrival = rng.randrange(-(1 << 45), 1 << 45)
        now = rng.randrange(1 << 50, 1 << 51)
        p_report = rng.choice([0.03, 0.1, 0.3])
        p_jump = rng.choice([0.0, 0.02, 0.3]) if not long_case else rng.choice([0.0, 0.5, 0.9])
        p_clock = rng.choice([0.0, 0.03, 0.3, 0.8])
        p_loss = rng.choice([0.0, 0.02, 0.15])
        p_dup = rng.choice([0.0, 0.05, 0.3])
        p_far = rng.choice([0.0, 0.1])
        evs = []
        for _ in range(n):
            now += rng.choice([0, 1, 7, 1 << 14, 1 << 20, rng.randrange(1 << 22)])
            k = rng.random()
            if k < p_report:
                evs.append([2, now])
                continue
            if k < p_report + 0.04:
                evs.append([3])
                continue
            if k < p_report + 0.10:
                kind = rng.random()
                if kind < 0.5:
                    t = now
                elif kind < 0.7:
                    t = now - rng.choice([1, 15, 16, 17, 1 << 20, rng.randrange(1 << 30)])
                elif kind < 0.9:
                    t = now - (1 << 36) + rng.randrange(-40, 40)
                else:
                    t = now + rng.choice([1, 1 << 20, rng.randrange(1 << 40)])
                t = max(t, 0)
                ssrc = S if rng.random() < 0.8 else rng.choice([S + 1, 0, 77])
                ntp = rng.choice([rng.randrange(1 << 64), rng.randrange(1 << 64), 0, (1 << 64) - 1, 0xFFFFFFFFFFFF0000,
                                  0xFFFF])
                evs.append([1, ssrc, ntp, t])
                continue
            # an RTP packet
            k = rng.random()
            if k < p_jump:
                d = rng.choice([32767, 32766, 32768, -32768, -32767, 20000, 30000, rng.randrange(-32768, 32769),
                                rng.randrange(1000, 32768)])
                s = top + d
            elif k < p_jump + p_loss:
                s = top + rng.randrange(2, 6)                  # loss
            elif k < p_jump + p_loss + p_dup:
                s = top - rng.randrange(0, 4)                  # duplicate / late
            elif k < p_jump + p_loss + p_dup + p_far:
                s = top + rng.choice([-1, 1]) * rng.randrange(0, 300)
            else:
                s = top + 1
            if -32768 < s - top <= 32767 and s > top:
                top = s
            elif not (-32768 <= s - top <= 32768):
                s = top + 1
                top = s
            k = rng.random()
            if k < 0.6:
                ts += ts_step
            elif k < 0.7:
                ts += rng.randrange(0, 5) * ts_step
            elif k < 0.75:
                ts = rng.randrange(0, 2 * U32)
            elif k < 0.78:
                ts -= ts_step
            arrival += ts_step + rng.randrange(-50, 51)
            if rng.random() < p_clock:
                arrival += rng.choice([1 << 31, -(1 << 31), 1 << 32, -(1 << 32), 1 << 40, -(1 << 40), (1 << 31) + 1,
                                       (1 << 31) - 1, rng.randrange(-(1 << 33), 1 << 33)])
            evs.append([0, s % U16, ts % U32, arrival])
        if rng.random() < 0.7:
            evs.append([3])
            evs.append([2, now + rng.randrange(1 << 21)])
        return [S, rs, mode, clockrate, evs]

    def encode(self, case):
        return [case[0], case[1], case[4]]

    def describe_case(self, case):
        if case and case[0] == "rr":
            return {"report_round": {"sources": case[1], "first_seq": case[2], "packets_per_source": case[3]}}
        if case and case[0] == "rtx":
            return {"rtx_case": case[1]}
        if len(case[4]) > 60:
            return [case[0], case[1], case[2], case[3], case[4][:60] + [["...", len(case[4])]]]
        return case

    def shrink_candidates(self, case):
        if case and case[0] == "rr":
            for n in range(1, case[1]):
                yield ["rr", n, case[2], 1]
            return
        if case and case[0] == "rtx":
            for i in range(len(case[1])):
                yield ["rtx", case[1][:i] + case[1][i + 1:]]
            return
        S, rs, mode, clockrate, evs = case
        if len(evs) > 4000:
            n = len(evs)
            step = n // 2
            while step >= n // 32:
                for i in range(0, n, step):
                    yield [S, rs, mode, clockrate, evs[:i] + evs[i + step:]]
                step //= 2
            return
        for cand in Check.shrink_candidates(self, evs):
            yield [S, rs, mode, clockrate, cand]
        if clockrate != 1:
            yield [S, rs, mode, 1, evs]

    # ------------------------------------------------------------ implementation
    def extra_checks(self, ctx):
        """`counts packets received exactly` per stream when retransmissions arrive on a separate RTX stream: every
        arrival feeds the counters of the stream (SSRC) it arrived on"""
        import random
        rng = random.Random(1818)
        n = 300 if ctx["tier"] == "thorough" else 40
        out = []
        self.rtx_cases = n
        for _ in range(n):
            case = gen_rtx_case(rng)
            res = run_rtx_case(case)
            if res.get("got") != res.get("want"):
                out.append(("packets-received-wrong-stream", f"RTP arrivals per SSRC on the wire {res.get('want')}, counted "
                                                             f"{res.get('got')}", case))
                break
        # `building and sending a receiver report never fails`: the real reporting loop, 1..130 sources (a report holds
        # 31 blocks), media arriving while the reports are being sent
        m = 60 if ctx["tier"] == "thorough" else 12
        self.rr_cases = m
        for _ in range(m):
            case = gen_rr_case(rng)
            res = oracle_rr_case(case, run_rr_case(case))
            if res:
                out.append((res[0], res[1], case))
                break
        return out

    def impl_run(self, case):
        if case and case[0] == "rr":
            return run_rr_case(case)
        if case and case[0] == "rtx":
            return run_rtx_case(case)
        import asyncio

        import aiortc.rtcrtpreceiver as R
        from aiortc.rtcrtpparameters import RTCRtpCodecParameters
        from aiortc.rtp import RtcpSenderInfo, RtcpSrPacket, RtpPacket

        S, rs, mode, clockrate, evs = case
        fake_time = _FakeTime()
        shim = _AsyncioShim(asyncio)
        old_time, old_asyncio = R.time, R.asyncio
        R.time, R.asyncio = fake_time, shim
        try:
            transport = _Transport()
            receiver = R.RTCRtpReceiver("audio", transport)
            receiver._RTCRtpReceiver__rtcp_ssrc = rs
            receiver._RTCRtpReceiver__codecs[0] = RTCRtpCodecParameters(
                mimeType="audio/PCMU", clockRate=clockrate, channels=1, payloadType=0)
            streams = receiver._RTCRtpReceiver__remote_streams
            captured = []
            real_send = receiver._send_rtcp

            async def capture(packet):
                captured.append(packet)
                await real_send(packet)

            receiver._send_rtcp = capture
            outs = []
            crashed = False
            for e in evs:
                if e[0] == 0:
                    fake_time.value = _time_value(e[3], clockrate)
                    packet = RtpPacket(payload_type=0, sequence_number=e[1], timestamp=e[2], ssrc=S)
                    try:
                        if mode == 0:
                            _drive(receiver._handle_rtp_packet(packet, arrival_time_ms=0))
                        else:
                            if S not in streams:
                                streams[S] = R.StreamStatistics(clockrate)
                            streams[S].add(packet)
                        outs.append([])
                    except Exception:
                        outs.append(-2)
                        crashed = True
                        break
                elif e[0] == 1:
                    fake_time.value = e[3] / 1048576.0
                    info = RtcpSenderInfo(ntp_timestamp=e[2], rtp_timestamp=0, packet_count=0, octet_count=0)
                    _drive(receiver._handle_rtcp_packet(RtcpSrPacket(ssrc=e[1], sender_info=info)))
                    outs.append([])
                elif e[0] == 2:
                    fake_time.value = e[1] / 1048576.0
                    del captured[:]
                    del transport.sent[:]
                    shim.calls = 0
                    try:
                        _drive(receiver._run_rtcp())
                        raised = False
                    except Exception:
                        raised = True
                    if captured:
                        assert len(captured) == 1 and len(captured[0].reports) == 1
                        assert captured[0].ssrc == rs
                        ri = captured[0].reports[0]
                        fields = [ri.ssrc, ri.fraction_lost, ri.packets_lost, ri.highest_sequence, ri.jitter, ri.lsr,
                                  ri.dlsr]
                        if raised:
                            outs.append([2, fields, -2])
                        else:
                            assert len(transport.sent) == 1
                            outs.append([2, fields, list(transport.sent[0])])
                    elif raised:
                        outs.append([2, -2])
                    else:
                        assert not transport.sent
                        outs.append([2])
                else:
                    st = streams.get(S)
                    if st is None:
                        outs.append([3, []])
                    else:
                        try:
                            if mode == 0:
                                # observe through the public API: RTCRtpReceiver.getStats()
                                rep = _drive(receiver.getStats())["inbound-rtp_" + str(id(receiver))]
                                assert rep.ssrc == S
                                outs.append([3, [st.packets_expected, rep.packetsLost, rep.jitter,
                                                 rep.packetsReceived]])
                            else:
                                outs.append([3, [st.packets_expected, st.packets_lost, st.jitter,
                                                 st.packets_received]])
                        except Exception:
                            outs.append([3, -2])
            if crashed:
                return [outs, []]
            st = streams.get(S)
            lsr = receiver._RTCRtpReceiver__lsr
            lsr_time = receiver._RTCRtpReceiver__lsr_time

            def opt(v):
                return [] if v is None else [v]

            state = [
                [] if st is None else [[opt(st.base_seq), opt(st.max_seq), st.cycles, st.packets_received,
                                        st._jitter_q4, opt(st._last_arrival), opt(st._last_timestamp),
                                        st._expected_prior, st._received_prior]],
                opt(lsr.get(S)),
                int(lsr_time[S] * 1048576) if S in lsr_time else 0,
            ]
            assert set(streams) <= {S}
            return [outs, state]
        finally:
            R.time, R.asyncio = old_time, old_asyncio

    # ------------------------------------------------------------ oracle: the property on the implementation
    def oracle(self, case, impl_out):
        if case and case[0] == "rr":
            return oracle_rr_case(case, impl_out)
        if case and case[0] == "rtx":
            if impl_out.get("got") != impl_out.get("want"):
                return ("packets-received-wrong-stream", f"RTP arrivals per SSRC on the wire {impl_out.get('want')}, counted "
                                                         f"{impl_out.get('got')}")
            return None
        """RFC 3550 A.1/A.3/A.8 recomputed from the wire history with an independent unwrapping of the
        sequence numbers; every report of the implementation must carry exactly these figures, fit the
        wire, and parse back."""
        S, rs, mode, clockrate, evs = case
        if impl_out == [-3]:
            return ("report-hang", "implementation run timed out")
        outs = impl_out[0]
        in_range = 0 <= S < U32 and 0 <= rs < U32
        first = None        # first wire sequence number
        ext = None          # unwrapped highest sequence number (starts at the first wire value)
        received = 0
        jq4 = 0
        transit = None
        last_ts = None
        exp_prior = 0
        rec_prior = 0
        lsr = None
        lsr_time = None
        for idx, e in enumerate(evs):
            if idx >= len(outs):
                return ("rtp-handler-raised", f"event {idx - 1} {evs[idx - 1]} raised")
            o = outs[idx]
            if e[0] == 0:
                if o == -2:
                    return ("rtp-handler-raised", f"RTP packet {e} raised in StreamStatistics.add")
                seq, ts, arrival = e[1], e[2], e[3]
                received += 1
                if ext is None:
                    first = seq
                    ext = seq
                    newer = True
                else:
                    d = ((seq - ext + 32768) % U16) - 32768       # serial distance to the highest so far
                    newer = 0 < d
                    if newer:
                        ext += d
                if newer:
                    tr = (arrival - ts) % U32                          # RFC 3550 A.8, 32-bit arithmetic
                    if transit is not None and ts != last_ts:
                        dd = (tr - transit) % U32
                        if dd >= 1 << 31:
                            dd = U32 - dd
                        jq4 += dd - ((jq4 + 8) >> 4)
                    transit = tr
                    last_ts = ts
            elif e[0] == 1:
                if e[1] == S:
                    lsr = (e[2] >> 16) % U32                           # middle 32 bits of the NTP time
                    lsr_time = e[3]
            elif e[0] == 2:
                if ext is None:
                    if o != [2]:
                        return ("report-without-packets", f"report {o} although no packet was received")
                    continue
                expected = ext - first + 1
                exp_int = expected - exp_prior
                rec_int = received - rec_prior
                exp_prior, rec_prior = expected, received
                lost_int = exp_int - rec_int
                fraction = 0 if exp_int == 0 or lost_int <= 0 else (lost_int * 256) // exp_int
                lost = max(-(1 << 23), min(expected - received, (1 << 23) - 1))
                w_lsr, w_dlsr = 0, 0
                if lsr is not None:
                    w_lsr = lsr
                    delay = e[1] - lsr_time
                    if 0 < delay < (1 << 36):
                        w_dlsr = delay >> 4
                want = [S, fraction, lost, ext % U32, jq4 >> 4, w_lsr, w_dlsr]
                if len(o) < 3:
                    return ("report-raised", f"report at event {idx} raised before a packet was built")
                got = o[1]
                names = ["ssrc", "fraction-lost", "packets-lost", "highest-sequence", "jitter", "lsr", "dlsr"]
                for nm, g, w in zip(names, got, want):
                    if g != w:
                        return (nm + "-wrong", f"report at event {idx}: {nm} = {g}, RFC 3550 says {w} "
                                               f"(expected={expected} received={received} ext={ext})")
                limits = [(0, U32), (0, 256), (-(1 << 23), 1 << 23), (0, U32), (0, U32), (0, U32), (0, U32)]
                for nm, g, (lo, hi) in list(zip(names, got, limits))[1:]:
                    if not lo <= g < hi:
                        return ("field-out-of-range", f"report at event {idx}: {nm} = {g} does not fit the wire")
                if in_range:
                    if o[2] == -2:
                        return ("report-raised", f"report at event {idx} raised while being serialised: {got}")
                    data = bytes(o[2])
                    if len(data) != 32:
                        return ("report-bytes-wrong", f"report at event {idx}: {len(data)} bytes")
                    # decode the wire bytes independently of aiortc's parser (RFC 3550 6.4.2)
                    v_p_rc, pt, words, w_rs, w_ssrc, w_fl, l0, l1, l2, w_hs, w_jit, w_lsr2, w_dlsr2 = struct.unpack(
                        "!BBHLLBBBBLLLL", data)
                    w_lost = (l0 << 16) | (l1 << 8) | l2
                    if w_lost >= 1 << 23:
                        w_lost -= 1 << 24
                    back = [w_ssrc, w_fl, w_lost, w_hs, w_jit, w_lsr2, w_dlsr2]
                    if (v_p_rc, pt, words, w_rs) != (0x81, 201, 7, rs) or back != want:
                        return ("report-bytes-wrong", f"report at event {idx}: bytes decode to header "
                                                      f"{(v_p_rc, pt, words, w_rs)} fields {back}, want {want}")
            else:
                if ext is None:
                    if o != [3, []]:
                        return ("probe-wrong", f"probe {o} before any packet")
                    continue
                expected = ext - first + 1
                want = [3, [expected, max(-(1 << 23), min(expected - received, (1 << 23) - 1)), jq4 >> 4, received]]
                if o != want:
                    return ("stats-wrong", f"StreamStatistics at event {idx}: [expected, lost, jitter, received] = "
                                           f"{o[1]}, RFC 3550 says {want[1]}")
        return self.shift_oracle(case, impl_out)

    def shift_oracle(self, case, impl_out):
        """Origin independence (C17), on the implementation: re-run the history with every sequence number
        moved by d16 (mod 2^16) and every RTP timestamp by d32 (mod 2^32); every probe and report must be
        identical except highest_sequence, which moves by (first' - first) mod 2^32."""
        S, rs, mode, clockrate, evs = case
        if len(evs) > 4000 or not (0 <= S < U32 and 0 <= rs < U32):
            return None
        h = hash_ints(evs[:6] + [len(evs)])
        if h % 3 == 0:
            return None
        d16 = [1, 65535, 32768, h % U16, 300, 65236][(h // 3) % 6]
        d32 = [0, 1, U32 - 1, 1 << 31, (h * 2654435761) % U32][(h // 18) % 5]
        shifted = [[0, (e[1] + d16) % U16, (e[2] + d32) % U32, e[3]] if e[0] == 0 else e for e in evs]
        out2 = self.safe_impl([S, rs, mode, clockrate, shifted])
        first = next((e[1] for e in evs if e[0] == 0), None)
        if first is None:
            k = 0
        else:
            k = (first + d16) % U16 - first
        want = []
        for o in impl_out[0]:
            if isinstance(o, list) and len(o) == 3 and o[0] == 2:
                f = list(o[1])
                f[3] = (f[3] + k) % U32
                want.append([2, f])
            else:
                want.append(o)
        got = []
        for o in out2[0] if isinstance(out2, list) and len(out2) == 2 else []:
            if isinstance(o, list) and len(o) == 3 and o[0] == 2:
                got.append([2, list(o[1])])
            else:
                got.append(o)
        if got != want:
            j = next((j for j, (a, b) in enumerate(zip(got, want)) if a != b), min(len(got), len(want)))
            return ("origin-dependent", f"with sequence numbers +{d16} and timestamps +{d32} output {j} is "
                                        f"{got[j] if j < len(got) else None}, expected "
                                        f"{want[j] if j < len(want) else None}")
        return None

    def nontrivial(self, case, impl_out):
        if not isinstance(impl_out, list) or len(impl_out) != 2:
            return False
        sent = [o for o in impl_out[0] if isinstance(o, list) and len(o) == 3 and o[0] == 2]
        if not sent:
            return False
        st = impl_out[1][0] if impl_out[1] else []
        if not st:
            return False
        st = st[0]
        wrapped = st[2] > 0
        lossy = any(o[1][2] != 0 for o in sent)
        return wrapped or lossy

    def distribution(self, cases, outs):
        d = {"cases": len(cases), "mode_receiver": 0, "mode_direct": 0, "rtp": 0, "sr": 0, "reports_sent": 0,
             "reports_empty": 0, "reports_pack_raised": 0, "probes": 0, "cases_with_seq_wrap": 0,
             "cases_multi_cycle": 0, "max_cycles": 0, "reports_fraction_nonzero": 0, "reports_lost_negative": 0,
             "reports_lost_positive": 0, "reports_jitter_ge_2^28": 0, "reports_dlsr_nonzero": 0,
             "ssrc_out_of_range_cases": 0, "ts_wraps": 0, "max_events": 0}
        for c, o in zip(cases, outs):
            d["mode_direct" if c[2] else "mode_receiver"] += 1
            d["max_events"] = max(d["max_events"], len(c[4]))
            if not (0 <= c[0] < U32 and 0 <= c[1] < U32):
                d["ssrc_out_of_range_cases"] += 1
            prev_ts = None
            for e in c[4]:
                if e[0] == 0:
                    d["rtp"] += 1
                    if prev_ts is not None and e[2] < prev_ts and prev_ts - e[2] > (1 << 31):
                        d["ts_wraps"] += 1
                    prev_ts = e[2]
                elif e[0] == 1:
                    d["sr"] += 1
                elif e[0] == 3:
                    d["probes"] += 1
            if not isinstance(o, list) or len(o) != 2:
                continue
            for x in o[0]:
                if isinstance(x, list) and x and x[0] == 2:
                    if len(x) == 1:
                        d["reports_empty"] += 1
                    elif len(x) == 3:
                        if x[2] == -2:
                            d["reports_pack_raised"] += 1
                        else:
                            d["reports_sent"] += 1
                        f = x[1]
                        d["reports_fraction_nonzero"] += 1 if f[1] else 0
                        d["reports_lost_negative"] += 1 if f[2] < 0 else 0
                        d["reports_lost_positive"] += 1 if f[2] > 0 else 0
                        d["reports_jitter_ge_2^28"] += 1 if f[4] >= (1 << 28) else 0
                        d["reports_dlsr_nonzero"] += 1 if f[6] else 0
            if o[1] and o[1][0]:
                cyc = o[1][0][0][2] >> 16
                d["cases_with_seq_wrap"] += 1 if cyc >= 1 else 0
                d["cases_multi_cycle"] += 1 if cyc >= 2 else 0
                d["max_cycles"] = max(d["max_cycles"], cyc)
        return d


if __name__ == "__main__":
    import sys
    sys.exit(C18().main(sys.argv[1:]))
