"""C01 -- reliable channels deliver exactly once, intact, in order.

Two case kinds:
  k=0  receiver-level: a list of DATA / FORWARD-TSN events fed to a real RTCSctpTransport and to
       Model/SctpRecv.v (correspondence: deliveries, SACK contents, state snapshot after every event);
       'honest' cases are arrival lists (loss / duplication / reordering) over chunks a sender produced,
       and carry the oracle: deliveries are exact, duplicate-free, per ordered stream a prefix.
  k=1  two real endpoints under a scripted fault schedule (sim/scenario.py); oracle only.
"""
import asyncio

from harness.framework import Check, canon
from harness.sim import scenario as SC
from harness.sim import sctp as M

ORIGINS = [7, 0xFFFFFFF0, 0xFFFFFFFF, 0, 0x7FFFFFF8, 0xFFFFFF00, 123456789]


def make_sender_chunks(rng, base, nmsg=None, streams=None):
    """What RTCSctpTransport._send produces: TSN-contiguous fragments, per-stream sequence numbers."""
    tsn = (base + 1) & 0xFFFFFFFF
    nstreams = rng.randrange(1, 4)
    ordered_of = {sid: rng.random() < 0.6 for sid in range(nstreams)}
    seq = {}
    chunks, sent = [], []
    for m in range(nmsg or rng.randrange(1, 7)):
        sid = rng.randrange(nstreams)
        ordered = ordered_of[sid]
        nfrag = rng.choice([1, 1, 1, 2, 3, 4])
        ppid = rng.choice([51, 53, 56, 57])
        sq = seq.get(sid, 0) if ordered else 0
        data = []
        for f in range(nfrag):
            d = [m + 1, f + 1] + [rng.randrange(256) for _ in range(rng.randrange(0, 3))]
            data.append(d)
            chunks.append([tsn, sid, sq, 0 if ordered else 1, 1 if f == 0 else 0, 1 if f == nfrag - 1 else 0, ppid, d])
            tsn = (tsn + 1) & 0xFFFFFFFF
        if ordered:
            seq[sid] = (sq + 1) & 0xFFFF
        sent.append([sid, 1 if ordered else 0, ppid, [b for d in data for b in d]])
    return chunks, sent


class C01(Check):
    prop = "C01"
    props_file = "Props/C01.v"
    models = ["SctpRecv", "SctpSend", "Chan"]
    quick_cases = 1200
    thorough_cases = 30000
    case_timeout = 20.0
    level_note = ("Theorems are about Model/SctpRecv.v (receiver data path) and the sender's fragmentation; the "
                  "model is tied to RTCSctpTransport._receive_chunk/_send_sack by differential runs of DATA / "
                  "FORWARD-TSN event lists (deliveries, SACK contents and state after every event). The network is "
                  "abstracted as an arbitrary arrival list over the chunks the sender produced; two-endpoint runs "
                  "under scripted fault schedules with a virtual clock are the implementation-level oracle.")
    rule = ("k=0: arrival lists (permutation, loss, duplication) over 1-6 messages x 1-4 fragments x 1-3 streams, "
            "TSN origins at wrap points, plus adversarial lists (random flags/TSNs, FORWARD-TSN); k=1: two real "
            "endpoints, 1-3 channels, 8-70 scheduled ops (a quarter of them: one stream id used by 2-3 channels in a row, closed by either "
            "side, DCEP-opened or negotiated, with reordering on every incarnation); distinct by (case, outputs); non-trivial = at least one "
            "message delivered and at least one duplicate, reordering or loss")

    @staticmethod
    def gen_send_case(rng, origins=None):
        """k=2: what _send makes of a list of messages: TSNs, stream sequence numbers (counters at any origin, also
        just below the 16-bit wrap), B/E/U flags, payload slices at the 1200-byte fragment boundary"""
        nstreams = rng.randrange(1, 4)
        seqs = [[sid, rng.choice(origins or [0, 0, 1, 65534, 65535, 32767, 32768, rng.randrange(65536)])]
                for sid in range(nstreams) if rng.random() < 0.8]
        msgs = []
        for _ in range(rng.randrange(2, 10)):
            size = rng.choice([0, 1, 2, 100, 100, 100, 1199, 1200, 1201, 2399, 2400, 2401, 3600, 5000, rng.randrange(0, 4000)])
            body = [rng.randrange(256) for _ in range(min(size, 4))]
            # position-dependent filler: a fragment cut at the wrong offset or a swapped slice shows
            data = body + [(j * 7 + 3) % 251 for j in range(max(0, size - len(body)))]
            msgs.append([rng.randrange(nstreams + 1), 1 if rng.random() < 0.75 else 0, rng.choice([50, 51, 53, 56, 57]), data])
        return {"k": 2, "tsn0": rng.choice(ORIGINS + [0xFFFFFFFE]), "msgs": msgs, "seqs": seqs}

    def gen_case(self, rng, i):
        r = rng.random()
        if r < 0.10:
            # what the data-channel layer hands to _send for a message (stream id, PPID, payload, ordered flag, and no
            # lifetime / retransmission limit on a reliable channel): C13's layer cases against Model/Chan.v
            from harness.props import c13 as C13mod
            return {"k": 3, "c13": C13mod.gen_layer_case(rng)}
        if r < 0.16:
            return self.gen_send_case(rng)
        if r < 0.30:
            # reliable channels alone, or sharing the association with partially reliable ones (the oracle
            # judges the reliable channels only; abandonment next door must not disturb them)
            q = rng.random()
            if q < 0.25:
                # a stream id used by several channels in a row (closed by either side, DCEP-opened or negotiated)
                return SC.gen_recycle(rng, origins=ORIGINS)
            if q < 0.6:
                return SC.gen_scenario(rng, reliable_only=True, origins=ORIGINS)
            return SC.gen_scenario(rng, pr=True, origins=ORIGINS, big=(rng.random() < 0.3))
        base = rng.choice(ORIGINS)
        chunks, sent = make_sender_chunks(rng, base)
        if r < 0.75:
            # honest arrival list
            idxs = list(range(len(chunks)))
            arr = []
            for _ in range(rng.randrange(1, 3 * len(chunks) + 2)):
                arr.append(rng.choice(idxs))
            if rng.random() < 0.5:
                perm = idxs[:]
                rng.shuffle(perm)
                arr += perm
            events = [[0, chunks[j]] for j in arr]
            return {"k": 0, "base": base, "events": events, "sent": sent, "honest": 1, "rwnd0": self._rwnd0(rng)}
        # adversarial: mutate flags / tsns, add FORWARD-TSN
        events = []
        for _ in range(rng.randrange(1, 14)):
            if rng.random() < 0.2:
                cum = (base + rng.randrange(-2, 12)) & 0xFFFFFFFF
                events.append([1, cum, [[rng.randrange(3), rng.randrange(4)] for _ in range(rng.randrange(0, 3))]])
            else:
                c = list(rng.choice(chunks))
                if rng.random() < 0.5:
                    c[0] = (base + rng.randrange(-3, 14)) & 0xFFFFFFFF
                if rng.random() < 0.4:
                    c[3], c[4], c[5] = rng.randrange(2), rng.randrange(2), rng.randrange(2)
                if rng.random() < 0.3:
                    c[2] = rng.choice([0, 1, 2, 65535, 32768])
                if rng.random() < 0.05:
                    c[0] = (base + rng.choice([65535, 65536, 65537, 70000, 2 ** 31 - 1, 2 ** 31, 2 ** 31 + 1])) & 0xFFFFFFFF
                events.append([0, c])
        return {"k": 0, "base": base, "events": events, "sent": [], "honest": 0, "rwnd0": self._rwnd0(rng)}

    @staticmethod
    def _rwnd0(rng):
        """receiver window at the start: mostly the default; small ones so that a few undeliverable chunks exhaust it
        (a peer that ignores a_rwnd)"""
        return 0 if rng.random() < 0.7 else rng.choice([1, 50, 300, 1500, 5000])

    def model_name(self, case):
        return {0: "SctpRecv", 2: "SctpSend", 3: "Chan"}.get(case["k"])

    def encode(self, case):
        if case["k"] == 3:
            from harness.props.c13 import C13
            return C13().encode(case["c13"])
        if case["k"] == 2:
            return [case["tsn0"], case["msgs"], case["seqs"]]
        return [case["base"], case["events"], case.get("rwnd0", 0)]

    def describe_case(self, case):
        if case["k"] == 3:
            from harness.props.c13 import C13
            return C13().describe_case(case["c13"])
        if case["k"] == 2:
            return {"k": 2, "tsn0": case["tsn0"], "seqs": case["seqs"], "msgs": [m[:3] + [len(m[3])] for m in case["msgs"]]}
        if case["k"] == 0:
            return {"k": 0, "base": case["base"], "honest": case["honest"],
                    "events": [[e[0], e[1][:7] if e[0] == 0 else e[1:]] for e in case["events"][:12]]}
        return {"k": 1, "tsn": case["tsn"], "ops": case["ops"][:30]}

    # ------------------------------------------------------------ implementation
    def impl_run(self, case):
        if case["k"] == 1:
            return SC.run_scenario(case)
        if case["k"] == 3:
            from harness.props.c13 import C13
            return C13().impl_run(case["c13"])
        if case["k"] == 2:
            return M.run(self._send(case))
        return M.run(self._recv(case))

    async def _send(self, case):
        """the real RTCSctpTransport._send with transmission switched off: the chunks it queues"""
        from aiortc import rtcsctptransport as S
        sim = M.Sim([1, 2, 3, 4])
        sim._patch()
        try:
            t = S.RTCSctpTransport(M._Dtls(sim, 1), port=5000)
            t._local_tsn = case["tsn0"]
            t._outbound_stream_seq = {sid: sq for sid, sq in case["seqs"]}

            async def no_transmit():
                return None

            t._transmit = no_transmit
            outs = []
            for sid, ordered, ppid, data in case["msgs"]:
                t._outbound_queue.clear()
                await t._send(sid, ppid, bytes(data), ordered=bool(ordered))
                outs.append([[c.tsn, c.stream_id, c.stream_seq, 1 if c.flags & 4 else 0, 1 if c.flags & 2 else 0,
                              1 if c.flags & 1 else 0, c.protocol, list(c.user_data)] for c in t._outbound_queue])
            return outs
        finally:
            sim._unpatch()

    async def _recv(self, case):
        from aiortc import rtcsctptransport as S
        sim = M.Sim([1, 2, 3, 4])
        sim._patch()
        try:
            t = S.RTCSctpTransport(M._Dtls(sim, 1), port=5000)
            t._last_received_tsn = case["base"]
            if case.get("rwnd0"):
                t._advertised_rwnd = case["rwnd0"]
            delivered = []
            sacks = []

            async def rx(stream_id, pp_id, data):
                delivered.append([stream_id, pp_id, list(data)])

            async def tx(chunk):
                sacks.append(chunk)

            t._receive = rx
            t._send_chunk = tx
            ssn0 = case.get("ssn0", 0)
            if ssn0:
                # origin of the stream sequence numbers (C17): every inbound stream starts expecting ssn0
                get_stream = t._get_inbound_stream

                def get_stream_at_origin(stream_id):
                    fresh = stream_id not in t._inbound_streams
                    st = get_stream(stream_id)
                    if fresh:
                        st.sequence_number = ssn0
                    return st

                t._get_inbound_stream = get_stream_at_origin
            outs = []
            for ev in case["events"]:
                delivered.clear()
                sacks.clear()
                try:
                    if ev[0] == 0:
                        c = S.DataChunk()
                        f = ev[1]
                        c.tsn, c.stream_id, c.stream_seq = f[0], f[1], f[2]
                        c.flags = (4 if f[3] else 0) | (2 if f[4] else 0) | (1 if f[5] else 0)
                        c.protocol = f[6]
                        c.user_data = bytes(f[7])
                    else:
                        c = S.ForwardTsnChunk()
                        c.cumulative_tsn = ev[1]
                        c.streams = [tuple(x) for x in ev[2]]
                    await t._receive_chunk(c)
                    if t._sack_needed:
                        await t._send_sack()
                    sk = []
                    if sacks:
                        k = sacks[-1]
                        sk = [k.cumulative_tsn, k.advertised_rwnd, [list(g) for g in k.gaps], list(k.duplicates)]
                        try:
                            bytes(k)
                        except Exception as exc:  # noqa -- the SACK cannot be put on the wire
                            sk = [-3, type(exc).__name__]
                    out = [[list(m) for m in delivered], sk]
                except AssertionError:
                    out = [-2]
                base = t._last_received_tsn
                state = [
                    t._last_received_tsn,
                    sorted(t._sack_misordered, key=lambda x: (x - base) % 2 ** 32),
                    list(t._sack_duplicates),
                    [[sid, [c.tsn for c in st.reassembly], st.sequence_number]
                     for sid, st in t._inbound_streams.items()],
                    t._advertised_rwnd,
                ]
                outs.append([out, state])
            return outs
        finally:
            sim._unpatch()

    # ------------------------------------------------------------ oracle
    def oracle(self, case, out):
        if case["k"] == 3:
            # a reliable channel's messages go to _send without a lifetime or a retransmission limit
            for evs, state in out:
                chans = {c[0][0]: c for c in state[0] if c[0]}
                for e in evs:
                    if e and e[0] == 5 and e[2] != 50 and e[1] in chans:
                        c = chans[e[1]]
                        if c[5] == [] and c[6] == [] and (e[5] != [] or e[6] != []):
                            return ("reliable-message-sent-with-limit",
                                    f"a message of the fully reliable channel with stream id {e[1]} was handed to _send with "
                                    f"max_retransmits={e[5]} / lifetime={e[6]} ms: it can be abandoned")
            return None
        if case["k"] == 2:
            for (sid, ordered, ppid, data), chunks in zip(case["msgs"], out):
                if [b for c in chunks for b in c[7]] != list(data):
                    return ("fragments-do-not-reassemble", f"the fragments of a {len(data)}-byte message do not concatenate to it")
                if any(not (0 <= c[2] < 65536 and 0 <= c[0] < 2 ** 32) for c in chunks):
                    return ("chunk-field-out-of-range", "a DATA chunk carries a TSN / stream sequence number outside its "
                                                        "wire range (serialising it raises; the counter did not wrap)")
                if any(len(c[7]) > 1200 for c in chunks):
                    return ("fragment-too-long", "a fragment exceeds USERDATA_MAX_LENGTH")
                if chunks and ([c[4] for c in chunks] != [1] + [0] * (len(chunks) - 1)
                               or [c[5] for c in chunks] != [0] * (len(chunks) - 1) + [1]):
                    return ("fragment-flags", "B/E flags are not first-only / last-only")
            return None
        if case["k"] == 0:
            if any(o[0] == [-2] for o in out):
                return ("reassembly-assertion", "InboundStream.add_chunk assertion fired")
            for o in out:
                if len(o[0]) == 2 and o[0][1] and o[0][1][0] == -3:
                    return ("sack-unserialisable", f"the SACK answering a DATA / FORWARD-TSN chunk cannot be serialised ({o[0][1][1]})")
            if not case["honest"]:
                return None
            sent = case["sent"]
            delivered = [m for o in out for m in o[0][0]]
            keyed = [[s[0], s[2], s[3]] for s in sent]
            seen = []
            for m in delivered:
                if m not in keyed:
                    return ("corrupt-message", f"delivered {m[:2]} len {len(m[2])} is not a sent message")
                if m in seen:
                    return ("duplicate-delivery", f"message {m[:2]} delivered twice")
                seen.append(m)
            for sid in set(s[0] for s in sent):
                if all(s[1] for s in sent if s[0] == sid):
                    want = [[s[0], s[2], s[3]] for s in sent if s[0] == sid]
                    got = [m for m in delivered if m[0] == sid]
                    if got != want[:len(got)]:
                        return ("order-violation", f"ordered stream {sid}: deliveries are not a prefix of sends")
            return None
        return scenario_oracle_reliable(out)

    def nontrivial(self, case, out):
        if case["k"] == 3:
            return any(e and e[0] == 5 for evs, _ in out for e in evs)      # something was handed to _send
        if case["k"] == 2:
            return any(len(chunks) > 1 for chunks in out)
        if case["k"] == 0:
            n = sum(len(o[0][0]) for o in out if o[0] != [-2])
            tsns = [e[1][0] for e in case["events"] if e[0] == 0]
            return n > 0 and (len(set(tsns)) < len(tsns) or tsns != sorted(tsns))
        return any(e[1] == "message" for e in out["events"]) and out["datagrams"][0] > 6

    def distribution(self, cases, outs):
        d = {"recv_honest": 0, "recv_adversarial": 0, "scenario": 0, "events": 0, "deliveries": 0, "dups": 0,
             "fwd_tsn": 0, "scenario_msgs": 0, "send": 0, "send_msgs": 0, "send_fragments": 0, "send_ssn_wraps": 0}
        for c, o in zip(cases, outs):
            if c["k"] == 3:
                d["channel_layer"] = d.get("channel_layer", 0) + 1
            elif c["k"] == 2:
                d["send"] += 1
                d["send_msgs"] += len(c["msgs"])
                d["send_fragments"] += sum(len(chunks) for chunks in o)
                d["send_ssn_wraps"] += sum(1 for chunks in o for ch in chunks[:1] if ch[2] == 65535)
            elif c["k"] == 0:
                d["recv_honest" if c["honest"] else "recv_adversarial"] += 1
                d["events"] += len(c["events"])
                d["fwd_tsn"] += sum(1 for e in c["events"] if e[0] == 1)
                d["deliveries"] += sum(len(x[0][0]) for x in o if x[0] != [-2])
                d["dups"] += sum(len(x[0][1][3]) for x in o if x[0] != [-2] and x[0][1])
            else:
                d["scenario"] += 1
                d["scenario_msgs"] += sum(1 for e in o["events"] if e[1] == "message")
        return d

    def shrink_candidates(self, case):
        if case["k"] == 3:
            return
        key = {0: "events", 2: "msgs"}.get(case["k"], "ops")
        l = case[key]
        n = len(l)
        step = max(1, n // 2)
        while step >= 1:
            for i in range(0, n, step):
                c = dict(case)
                c[key] = l[:i] + l[i + step:]
                yield c
            if step == 1:
                break
            step //= 2


def scenario_oracle_reliable(obs, require_all=False):
    """C01 on a two-endpoint run: reliable channels only."""
    if obs["errors"]:
        return ("exception-escaped", f"exception escaped a handler: {obs['errors'][0]}")
    for ep, i, j, ch in SC.pair_channels(obs):
        if ch["maxRetransmits"] is not None or ch["maxPacketLifeTime"] is not None:
            continue
        sent = SC.sent_on(obs, ep, i)
        got = SC.delivered_on(obs, 1 - ep, j)
        for m in got:
            if m not in sent:
                return ("corrupt-message", f"channel id {ch['id']}: delivered value was never sent on it")
        for m in got:
            if got.count(m) > sent.count(m):
                return ("duplicate-delivery", f"channel id {ch['id']}: a message was delivered more often than sent")
        if ch["ordered"]:
            if got != sent[:len(got)]:
                return ("order-violation", f"ordered channel id {ch['id']}: deliveries are not a prefix of sends")
    return None


if __name__ == "__main__":
    import sys
    sys.exit(C01().main(sys.argv[1:]))
