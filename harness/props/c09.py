"""C09 -- session descriptions survive parse/serialise round trips.

Correspondence of Model/Sdp.v (structured lines) with aiortc.sdp, plus the
implementation-level oracles.  The character level is the lexer / printer in
this file (`lex`, `show`): they transcribe the split / re.match / int() /
ipaddress calls of sdp.py and are validated by the run, not proved.
"""
import ast
import asyncio
import ipaddress
import json
import os
import re

from harness.framework import REPO, Check, canon, classify_exc

E_VALUE, E_CRASH = -1, -2


def S(s):
    return [ord(c) for c in s]


def U(codes):
    return "".join(chr(c) for c in codes)


def opt(x, f=lambda v: v):
    return [] if x is None else [f(x)]


def ipver(text):
    try:
        return ipaddress.ip_address(text).version
    except ValueError:
        return 0


def addr(text):
    return [S(text), ipver(text)]


# ---------------------------------------------------------------------------------------------
# lexer: text -> structured lines (encoding of Model/Sdp.v `sx_line`)
# ---------------------------------------------------------------------------------------------
FMTP_INT_PARAMETERS = ["apt", "max-fr", "max-fs", "maxplaybackrate", "minptime", "stereo", "useinbandfec"]
DIRECTIONS = ["inactive", "sendonly", "recvonly", "sendrecv"]


def parse_attr(line):
    if ":" in line:
        bits = line[2:].split(":", 1)
        return bits[0], bits[1]
    return line[2:], None


def lex_addr(text):
    m = re.match("^IN (IP4|IP6) ([^ ]+)$", text)
    assert m
    return addr(m.group(2))


def lex_candidate_tokens(value):
    bits = value.split()
    if len(bits) < 8:
        return [[0, S(b)] for b in bits]          # the model raises the assert
    toks = [[0, S(b)] for b in bits]
    for i in (1, 5, 3):
        toks[i] = [1, int(bits[i])]
    for i in range(8, len(bits) - 1, 2):
        if bits[i] == "rport":
            toks[i + 1] = [1, int(bits[i + 1])]
    return toks


def lex_params(desc):
    out = []
    for param in desc.split(";"):
        if "=" in param:
            k, v = param.split("=", 1)
            if k in FMTP_INT_PARAMETERS:
                out.append([S(k), [1, int(v)]])
            else:
                out.append([S(k), [2, S(v)]])
        else:
            out.append([S(param), [0]])
    return out


def lex_session_line(line):
    if line.startswith("v="):
        return [0, int(line.strip()[2:])]
    if line.startswith("o="):
        return [1, S(line.strip()[2:])]
    if line.startswith("s="):
        return [2, S(line.strip()[2:])]
    if line.startswith("c="):
        return [4, lex_addr(line[2:])]
    if line.startswith("t="):
        return [3, S(line.strip()[2:])]
    if line.startswith("a="):
        attr, value = parse_attr(line)
        if attr == "fingerprint":
            algorithm, fingerprint = value.split()
            return [27, S(algorithm), S(fingerprint)]
        if attr == "ice-lite":
            return [26]
        if attr == "ice-options":
            return [25, opt(value, S)]
        if attr == "ice-pwd":
            return [24, opt(value, S)]
        if attr == "ice-ufrag":
            return [23, opt(value, S)]
        if attr == "group":
            return [29, [S(b) for b in value.split()]]
        if attr == "msid-semantic":
            return [30, [S(b) for b in value.split()]]
        if attr == "setup":
            return [28, opt(value, S)]
    return [33]


def lex_media_line(line):
    """Returns the structured line; exceptions escape and are classified by the caller."""
    if line.startswith("c="):
        return [4, lex_addr(line[2:])]
    if not line.startswith("a="):
        return [33]
    attr, value = parse_attr(line)
    if attr == "candidate":
        return [21, lex_candidate_tokens(value)]
    if attr == "end-of-candidates":
        return [22]
    if attr == "extmap":
        ext_id, ext_uri = value.split()
        if "/" in ext_id:
            ext_id, ext_direction = ext_id.split("/")
        return [8, int(ext_id), S(ext_uri)]
    if attr == "fingerprint":
        algorithm, fingerprint = value.split()
        return [27, S(algorithm), S(fingerprint)]
    if attr == "ice-options":
        return [25, opt(value, S)]
    if attr == "ice-pwd":
        return [24, opt(value, S)]
    if attr == "ice-ufrag":
        return [23, opt(value, S)]
    if attr == "max-message-size":
        return [20, int(value)]
    if attr == "mid":
        return [9, opt(value, S)]
    if attr == "msid":
        return [10, opt(value, S)]
    if attr == "rtcp":
        bits = value.split(" ", 1)
        port = int(bits[0])
        return [11, port, [lex_addr(bits[1])] if len(bits) > 1 else []]
    if attr == "rtcp-mux":
        return [12]
    if attr == "setup":
        return [28, opt(value, S)]
    if attr in DIRECTIONS:
        return [7, S(attr)]
    if attr == "rtpmap":
        format_id, format_desc = value.split(" ", 1)
        bits = format_desc.split("/")
        ch = []                                   # int(bits[2]) is only evaluated for audio: the model decides
        if len(bits) > 2:
            try:
                ch = [[int(bits[2])]]
            except ValueError:
                ch = [[]]
        name = bits[0]
        clock = int(bits[1])
        pt = int(format_id)
        return [15, pt, S(name), clock, ch]
    if attr == "sctpmap":
        format_id, format_desc = value.split(" ", 1)
        return [18, int(format_id), S(format_desc)]
    if attr == "sctp-port":
        return [19, int(value)]
    if attr == "ssrc-group":
        bits = value.split()
        if bits:
            return [13, [[S(bits[0]), list(map(int, bits[1:]))]]]
        return [13, []]
    if attr == "ssrc":
        ssrc_str, ssrc_desc = value.split(" ", 1)
        ssrc = int(ssrc_str)
        ssrc_attr, ssrc_value = ssrc_desc.split(":", 1)
        return [14, ssrc, S(ssrc_attr), S(ssrc_value)]
    return None        # second-pass attribute or unknown


def lex_media_line2(line):
    attr, value = parse_attr(line)
    if attr == "fmtp":
        format_id, format_desc = value.split(" ", 1)
        pt = int(format_id)
        try:
            ps = [lex_params(format_desc)]
        except ValueError:
            ps = []
        return [17, pt, ps]
    if attr == "rtcp-fb":
        bits = value.split(" ", 2)
        if bits[0] == "*":
            target = [0]
        else:
            try:
                z = int(bits[0])
                target = [1, z] if str(z) == bits[0] else [2]
            except ValueError:
                target = [2]
        ty = [] if len(bits) < 2 else [[S(bits[1]), opt(bits[2] if len(bits) > 2 else None, S)]]
        return [16, target, ty]
    return [33]


def lex_m(line):
    m = re.match("^m=([^ ]+) ([0-9]+) ([A-Z/]+) (.+)$", line)
    if not m:
        return [6, E_CRASH]
    kind = m.group(1)
    fmt = m.group(4).split()
    items = []
    for x in fmt:
        if kind in ["audio", "video"]:
            try:
                items.append([1, int(x)])
                continue
            except ValueError:
                pass
        items.append([0, S(x)])
    return [5, S(kind), int(m.group(2)), S(m.group(3)), items]


def lex(text):
    out = []
    in_media = False
    for line in text.splitlines():
        if line.startswith("m="):
            in_media = True
            out.append(lex_m(line))
            continue
        try:
            if in_media:
                r = lex_media_line(line)
                if r is None:
                    try:
                        r = lex_media_line2(line)
                    except Exception as exc:
                        r = [32, classify_exc(exc)]
            else:
                r = lex_session_line(line)
        except Exception as exc:
            r = [31, classify_exc(exc)]
        out.append(r)
    return out


# ---------------------------------------------------------------------------------------------
# printer: structured lines (as rendered by the model) -> text
# ---------------------------------------------------------------------------------------------
def show_addr(a):
    return "IN IP%d %s" % (a[1], U(a[0]))


def show_tok(t):
    return U(t[1]) if t[0] == 0 else str(t[1])


def show_pval(k, v):
    if v[0] == 0:
        return U(k)
    if v[0] == 1:
        return "%s=%d" % (U(k), v[1])
    return "%s=%s" % (U(k), U(v[1]))


def show_line(l):
    k = l[0]
    if k == 0:
        return "v=%d" % l[1]
    if k == 1:
        return "o=" + U(l[1])
    if k == 2:
        return "s=" + U(l[1])
    if k == 3:
        return "t=" + U(l[1])
    if k == 4:
        return "c=" + show_addr(l[1])
    if k == 5:
        return "m=%s %d %s %s" % (U(l[1]), l[2], U(l[3]), " ".join(show_tok(t) for t in l[4]))
    if k == 7:
        return "a=" + U(l[1])
    if k == 8:
        return "a=extmap:%d %s" % (l[1], U(l[2]))
    if k == 9:
        return "a=mid:" + U(l[1][0])
    if k == 10:
        return "a=msid:" + U(l[1][0])
    if k == 11:
        return "a=rtcp:%d" % l[1] + ("".join(" " + show_addr(a) for a in l[2]))
    if k == 12:
        return "a=rtcp-mux"
    if k == 13:
        g = l[1][0]
        return "a=ssrc-group:%s %s" % (U(g[0]), " ".join(str(i) for i in g[1]))
    if k == 14:
        return "a=ssrc:%d %s:%s" % (l[1], U(l[2]), U(l[3]))
    if k == 15:
        s = "a=rtpmap:%d %s/%d" % (l[1], U(l[2]), l[3])
        if l[4]:
            s += "/%d" % l[4][0][0]
        return s
    if k == 16:
        assert l[1][0] == 1
        ty = l[2][0]
        return "a=rtcp-fb:%d %s" % (l[1][1], U(ty[0])) + "".join(" " + U(p) for p in ty[1])
    if k == 17:
        return "a=fmtp:%d %s" % (l[1], ";".join(show_pval(p[0], p[1]) for p in l[2][0]))
    if k == 18:
        return "a=sctpmap:%d %s" % (l[1], U(l[2]))
    if k == 19:
        return "a=sctp-port:%d" % l[1]
    if k == 20:
        return "a=max-message-size:%d" % l[1]
    if k == 21:
        return "a=candidate:" + " ".join(show_tok(t) for t in l[1])
    if k == 22:
        return "a=end-of-candidates"
    if k == 23:
        return "a=ice-ufrag:" + U(l[1][0])
    if k == 24:
        return "a=ice-pwd:" + U(l[1][0])
    if k == 25:
        return "a=ice-options:" + U(l[1][0])
    if k == 26:
        return "a=ice-lite"
    if k == 27:
        return "a=fingerprint:%s %s" % (U(l[1]), U(l[2]))
    if k == 28:
        return "a=setup:" + U(l[1][0])
    if k == 29:
        return "a=group:%s %s" % (U(l[1][0]), " ".join(U(x) for x in l[1][1:]))
    if k == 30:
        return "a=msid-semantic:%s %s" % (U(l[1][0]), " ".join(U(x) for x in l[1][1:]))
    raise ValueError("line kind %d is never rendered" % k)


def show(lines):
    return "".join(show_line(l) + "\r\n" for l in lines)


# ---------------------------------------------------------------------------------------------
# projection SessionDescription -> encoded description (Model/Sdp.v `sx_desc`), and back
# ---------------------------------------------------------------------------------------------
def proj_pval(v):
    if v is None:
        return [0]
    if isinstance(v, int) and not isinstance(v, bool):
        return [1, v]
    return [2, S(v)]


def proj_cand(c):
    return [S(c.foundation), c.component, S(c.protocol), c.priority, S(c.ip), c.port, S(c.type),
            opt(c.relatedAddress, S), opt(c.relatedPort), opt(c.tcpType, S)]


def proj_codec(c):
    return [S(c.mimeType), c.clockRate, opt(c.channels), c.payloadType,
            [[S(f.type), opt(f.parameter, S)] for f in c.rtcpFeedback],
            [[S(k), proj_pval(v)] for k, v in c.parameters.items()]]


def proj_media(m):
    return [
        S(m.kind), m.port, opt(m.host, addr), S(m.profile), opt(m.direction, S), opt(m.msid, S),
        opt(m.rtcp_port), opt(m.rtcp_host, addr), 1 if m.rtcp_mux else 0,
        [[s.ssrc, opt(s.cname, S), opt(s.msid, S), opt(s.mslabel, S), opt(s.label, S)] for s in m.ssrc],
        [[S(g.semantic), list(g.items)] for g in m.ssrc_group],
        [[1, x] if isinstance(x, int) else [0, S(x)] for x in m.fmt],
        [proj_codec(c) for c in m.rtp.codecs],
        [[h.id, S(h.uri)] for h in m.rtp.headerExtensions],
        opt(m.rtp.muxId, S),
        opt(m.sctpCapabilities, lambda c: c.maxMessageSize),
        [[k, S(v)] for k, v in m.sctpmap.items()],
        opt(m.sctp_port),
        opt(m.dtls, lambda d: [[[S(f.algorithm), S(f.value)] for f in d.fingerprints], opt(d.role, S)]),
        opt(m.ice, lambda i: [opt(i.usernameFragment, S), opt(i.password, S), 1 if i.iceLite else 0]),
        [proj_cand(c) for c in m.ice_candidates],
        1 if m.ice_candidates_complete else 0,
        opt(m.ice_options, S),
    ]


def proj_desc(d):
    return [d.version, opt(d.origin, S), S(d.name), S(d.time), opt(d.host, addr),
            [[S(g.semantic), [S(str(i)) for i in g.items]] for g in d.group],
            [[S(g.semantic), [S(str(i)) for i in g.items]] for g in d.msid_semantic],
            [proj_media(m) for m in d.media]]


def un(o, f=lambda v: v):
    return f(o[0]) if o else None


def build_cand(c):
    from aiortc import RTCIceCandidate
    return RTCIceCandidate(foundation=U(c[0]), component=c[1], protocol=U(c[2]), priority=c[3], ip=U(c[4]),
                           port=c[5], type=U(c[6]), relatedAddress=un(c[7], U), relatedPort=un(c[8]),
                           tcpType=un(c[9], U))


def build_desc(e):
    from aiortc import sdp
    from aiortc.rtcdtlstransport import RTCDtlsFingerprint, RTCDtlsParameters
    from aiortc.rtcicetransport import RTCIceParameters
    from aiortc.rtcrtpparameters import (RTCRtcpFeedback, RTCRtpCodecParameters, RTCRtpHeaderExtensionParameters,
                                         RTCRtpParameters)
    from aiortc.rtcsctptransport import RTCSctpCapabilities
    d = sdp.SessionDescription()
    d.version = e[0]
    d.origin = un(e[1], U)
    d.name = U(e[2])
    d.time = U(e[3])
    d.host = un(e[4], lambda a: U(a[0]))
    d.group = [sdp.GroupDescription(semantic=U(g[0]), items=[U(i) for i in g[1]]) for g in e[5]]
    d.msid_semantic = [sdp.GroupDescription(semantic=U(g[0]), items=[U(i) for i in g[1]]) for g in e[6]]
    for m in e[7]:
        md = sdp.MediaDescription(kind=U(m[0]), port=m[1], profile=U(m[3]),
                                  fmt=[x[1] if x[0] == 1 else U(x[1]) for x in m[11]])
        md.host = un(m[2], lambda a: U(a[0]))
        md.direction = un(m[4], U)
        md.msid = un(m[5], U)
        md.rtcp_port = un(m[6])
        md.rtcp_host = un(m[7], lambda a: U(a[0]))
        md.rtcp_mux = bool(m[8])
        md.ssrc = [sdp.SsrcDescription(ssrc=s[0], cname=un(s[1], U), msid=un(s[2], U), mslabel=un(s[3], U),
                                       label=un(s[4], U)) for s in m[9]]
        md.ssrc_group = [sdp.GroupDescription(semantic=U(g[0]), items=list(g[1])) for g in m[10]]
        codecs = []
        for c in m[12]:
            params = {}
            for k, v in c[5]:
                params[U(k)] = None if v[0] == 0 else (v[1] if v[0] == 1 else U(v[1]))
            assert len(params) == len(c[5])
            codecs.append(RTCRtpCodecParameters(
                mimeType=U(c[0]), clockRate=c[1], channels=un(c[2]), payloadType=c[3],
                rtcpFeedback=[RTCRtcpFeedback(type=U(f[0]), parameter=un(f[1], U)) for f in c[4]],
                parameters=params))
        md.rtp = RTCRtpParameters(codecs=codecs,
                                  headerExtensions=[RTCRtpHeaderExtensionParameters(id=h[0], uri=U(h[1]))
                                                    for h in m[13]],
                                  muxId=un(m[14], U))
        md.sctpCapabilities = un(m[15], lambda n: RTCSctpCapabilities(maxMessageSize=n))
        md.sctpmap = {}
        for k, v in m[16]:
            md.sctpmap[k] = U(v)
        assert len(md.sctpmap) == len(m[16])
        md.sctp_port = un(m[17])
        md.dtls = un(m[18], lambda x: RTCDtlsParameters(
            fingerprints=[RTCDtlsFingerprint(algorithm=U(f[0]), value=U(f[1])) for f in x[0]], role=un(x[1], U)))
        md.ice = un(m[19], lambda x: RTCIceParameters(usernameFragment=un(x[0], U), password=un(x[1], U),
                                                      iceLite=bool(x[2])))
        md.ice_candidates = [build_cand(c) for c in m[20]]
        md.ice_candidates_complete = bool(m[21])
        md.ice_options = un(m[22], U)
        d.media.append(md)
    return d


# ---------------------------------------------------------------------------------------------
# inputs
# ---------------------------------------------------------------------------------------------
def browser_sdps():
    """The SDP texts embedded in tests/test_sdp.py, read as data."""
    path = os.path.join(REPO, "tests", "test_sdp.py")
    with open(path, encoding="utf8") as fp:
        tree = ast.parse(fp.read())
    out = []
    for n in ast.walk(tree):
        if isinstance(n, ast.Constant) and isinstance(n.value, str) and "m=" in n.value and "v=0" in n.value:
            out.append(n.value)
    return out


ATTRS = [
    "a=rtpmap:96 VP8/90000", "a=rtpmap:96 opus/48000/2", "a=rtpmap:97 rtx/90000", "a=rtpmap:0 PCMU/8000/6",
    "a=rtpmap:0 PC/MU/8000/2", "a=rtpmap:0 PCMU", "a=rtpmap:0 PCMU/x", "a=rtpmap:x PCMU/8000", "a=rtpmap:8 PCMA/8000/z",
    "a=rtpmap:-5 x/1", "a=rtpmap", "a=rtpmap:5",
    "a=rtcp-fb:96 nack", "a=rtcp-fb:* nack pli", "a=rtcp-fb:96 nack ", "a=rtcp-fb:96  nack", "a=rtcp-fb:096 nack",
    "a=rtcp-fb:96", "a=rtcp-fb:*", "a=rtcp-fb", "a=rtcp-fb:-5 ccm fir x y",
    "a=fmtp:96 apt=97;x", "a=fmtp:96 ", "a=fmtp:96 a=1;a=2;;b", "a=fmtp:96 apt=x", "a=fmtp:99 apt=x", "a=fmtp:x y",
    "a=fmtp:96", "a=fmtp", "a=fmtp:0 0-15", "a=fmtp:97 apt=096;stereo= 1", "a=fmtp:96 =;==",
    "a=rtcp-mux", "a=rtcp:9", "a=rtcp:9 IN IP4 0.0.0.0", "a=rtcp:9 IN IP4 host.example", "a=rtcp:9 IN IP6 ::1",
    "a=rtcp:x", "a=rtcp:9 IN IP5 1.1.1.1", "a=rtcp", "a=rtcp:10",
    "a=mid", "a=mid:", "a=mid:a b", "a=msid:", "a=msid", "a=msid:s t",
    "a=ice-options", "a=ice-options:trickle", "a=ice-lite", "a=ice-ufrag:abc", "a=ice-pwd:def", "a=ice-ufrag", "a=ice-pwd",
    "a=setup:active", "a=setup:passive", "a=setup:actpass", "a=setup:foo", "a=setup",
    "a=fingerprint:sha-256 AA:BB", "a=fingerprint:sha-256", "a=fingerprint:a b c", "a=fingerprint",
    "a=ssrc:1 foo:bar", "a=ssrc:1 cname:x", "a=ssrc:2 cname:", "a=ssrc:01 label:l", "a=ssrc:1 msid:a b", "a=ssrc:2 mslabel:m",
    "a=ssrc:x cname:y", "a=ssrc:3 nocolon", "a=ssrc:3", "a=ssrc",
    "a=ssrc-group:FID 1 2", "a=ssrc-group:FID", "a=ssrc-group:", "a=ssrc-group:FID a", "a=ssrc-group",
    "a=group:BUNDLE", "a=group:BUNDLE a b", "a=group:", "a=group", "a=msid-semantic:WMS *", "a=msid-semantic: WMS",
    "a=msid-semantic",
    "a=sctpmap:5000 webrtc-datachannel 256", "a=sctpmap:5000 x", "a=sctpmap:x y", "a=sctpmap:5", "a=sctp-port:5000",
    "a=sctp-port:x", "a=sctp-port", "a=max-message-size:65536", "a=max-message-size:1_0", "a=max-message-size:",
    "a=candidate:0 1 UDP 1 1.2.3.4 5 typ host",
    "a=candidate:0 1 UDP 1 1.2.3.4 5 typ host raddr 1.1.1.1 rport 5 tcptype active",
    "a=candidate:0 1 UDP 1 1.2.3.4 5 foo host rport 5 raddr x extra", "a=candidate:0 1 UDP 1 1.2.3.4 5 typ",
    "a=candidate:0 x UDP 1 1.2.3.4 5 typ host", "a=candidate:0 1 UDP 1 1.2.3.4 5 typ host rport x",
    "a=candidate:0 1 UDP 1 1.2.3.4 5 typ host x rport 7", "a=candidate:0 1 UDP 1 1.2.3.4 5 typ host rport",
    "a=candidate", "a=candidate:1 2 tcp 3 ::1 9 typ srflx tcptype passive generation 0 rport 8 rport 9",
    "a=end-of-candidates",
    "a=extmap:1 urn:x", "a=extmap:1/sendonly urn:x", "a=extmap:1/a/b urn:x", "a=extmap:x urn:y", "a=extmap:1", "a=extmap",
    "a=sendrecv", "a=inactive", "a=sendonly", "a=recvonly", "a=sendrecv:x",
    "c=IN IP4 1.2.3.4", "c=IN IP6 1.2.3.4", "c=IN IP4 example.com", "c=IN IP6 ::1", "c=IN IP4", "c=foo",
    "m=audio 9 UDP/TLS/RTP/SAVPF 96", "m=video 9 UDP/TLS/RTP/SAVPF 96 97", "m=application 9 DTLS/SCTP 5000",
    "m=application 9 UDP/DTLS/SCTP webrtc-datachannel", "m=au/dio 9 RTP/AVP 0", "m=audio/x/y 9 RTP/AVP 0",
    "m=audio 9 RTP/AVP 72", "m=audio 9 RTP/AVP 256", "m=audio 9 RTP/AVP x", "m=audio 9 RTP/AVP x 300", "m=audio x RTP/AVP 0",
    "m=audio 9 rtp 0", "m=video 9 RTP/AVP   ", "m=text 9 RTP/AVP 0 x",
    "v=1", "v=x", "v= 2 ", "o=- 1 2 IN IP4 0.0.0.0", "o= x ", "s=x", "t=1 2", "b=AS:30", "", "a=", "a", " a=mid:x",
    "i=info", "a=unknown:1",
    # separators and digits Python accepts beyond ASCII
    "a=rtpmap:96\tVP8/90000", "a=fingerprint:sha-256\tAA:BB", "a=sctp-port:\u0663", "a=rtpmap:\u0669 x/8000",
    "a=rtcp-fb:\u0663 nack", "a=ssrc:+7 cname:x", "a=extmap: 3  urn:y", "a=max-message-size: 12 ", "a=group:BUNDLE\ta  b",
    "a=candidate:0\t1 UDP 1 1.2.3.4 5 typ host", "a=mid:\u00e9", "a=msid:x\x0bm=audio 9 RTP/AVP 0", "a=mid:1\u2028a=mid:2",
    "m=audio 09 RTP/AVP 08", "m=video 9 RTP/AVP \u0663", "a=fmtp:96 apt=\u0663", "a=fmtp:96 stereo=+1;x=\u0663",
]


def mutate_lines(rng, text):
    lines = text.splitlines()
    for _ in range(rng.randrange(1, 6)):
        k = rng.random()
        if k < 0.3 and lines:
            del lines[rng.randrange(len(lines))]
        elif k < 0.7:
            lines.insert(rng.randrange(len(lines) + 1), rng.choice(ATTRS))
        elif k < 0.8 and lines:
            i = rng.randrange(len(lines))
            j = rng.randrange(len(lines))
            lines[i], lines[j] = lines[j], lines[i]
        elif k < 0.9 and lines:
            i = rng.randrange(len(lines))
            lines.insert(i, lines[rng.randrange(len(lines))])
        elif lines:
            # character level
            i = rng.randrange(len(lines))
            l = lines[i]
            if l:
                p = rng.randrange(len(l))
                c = rng.choice([" ", ":", "/", ";", "=", "0", "x", "*", "\t", "-", ""])
                lines[i] = l[:p] + c + (l[p + 1:] if rng.random() < 0.5 else l[p:])
    sep = rng.choice(["\r\n", "\r\n", "\n"])
    return sep.join(lines) + sep


class PcPool:
    """SDP produced by real RTCPeerConnections over a walk of configurations, together with the
    SessionDescription objects handed to wrap_session_description (what the library 'put in')."""

    def __init__(self):
        self.texts = []
        self.objects = []

    def build(self, rng, n):
        import aiortc.rtcpeerconnection as rpc
        from aiortc import RTCBundlePolicy, RTCConfiguration, RTCPeerConnection
        from aiortc.mediastreams import AudioStreamTrack, VideoStreamTrack

        captured = []
        orig = rpc.wrap_session_description

        def wrap(d):
            if d is not None:
                captured.append(d)
            return orig(d)

        rpc.wrap_session_description = wrap

        async def one(cfg):
            # the connections are closed right after negotiation: their background connect tasks die noisily
            asyncio.get_running_loop().set_exception_handler(lambda loop, ctx: None)
            pcs = []
            try:
                pc1 = RTCPeerConnection(RTCConfiguration(bundlePolicy=cfg["bundle1"]))
                pc2 = RTCPeerConnection(RTCConfiguration(bundlePolicy=cfg["bundle2"]))
                pcs += [pc1, pc2]
                pc1._sctpLegacySdp = cfg["legacy"]
                for kind, direction, track in cfg["media1"]:
                    if track:
                        pc1.addTrack(AudioStreamTrack() if kind == "audio" else VideoStreamTrack())
                    else:
                        pc1.addTransceiver(kind, direction=direction)
                if cfg["dc1"]:
                    pc1.createDataChannel("chat", protocol=cfg["proto"])
                if not pc1.getTransceivers() and not cfg["dc1"]:
                    pc1.createDataChannel("x")
                offer = await pc1.createOffer()
                self.texts.append(offer.sdp)
                await pc1.setLocalDescription(offer)
                self.texts.append(pc1.localDescription.sdp)
                await pc2.setRemoteDescription(pc1.localDescription)
                for kind, direction, track in cfg["media2"]:
                    if track:
                        pc2.addTrack(AudioStreamTrack() if kind == "audio" else VideoStreamTrack())
                for t, d in zip(pc2.getTransceivers(), cfg["dirs2"]):
                    t.direction = d
                answer = await pc2.createAnswer()
                self.texts.append(answer.sdp)
                await pc2.setLocalDescription(answer)
                self.texts.append(pc2.localDescription.sdp)
                await pc1.setRemoteDescription(pc2.localDescription)
                if cfg["renegotiate"]:
                    pc1.addTransceiver(cfg["renegotiate"], direction="sendrecv")
                    if not cfg["dc1"]:
                        pc1.createDataChannel("late")
                    offer = await pc1.createOffer()
                    self.texts.append(offer.sdp)
                    await pc1.setLocalDescription(offer)
                    self.texts.append(pc1.localDescription.sdp)
            finally:
                for pc in pcs:
                    await pc.close()

        bundles = [RTCBundlePolicy.BALANCED, RTCBundlePolicy.MAX_COMPAT, RTCBundlePolicy.MAX_BUNDLE]
        dirs = ["sendrecv", "sendonly", "recvonly", "inactive"]
        try:
            for i in range(n):
                cfg = {
                    "bundle1": rng.choice(bundles), "bundle2": rng.choice(bundles),
                    "legacy": rng.random() < 0.2,
                    "media1": [(rng.choice(["audio", "video"]), rng.choice(dirs), rng.random() < 0.4)
                               for _ in range(rng.randrange(0, 4))],
                    "dc1": rng.random() < 0.5, "proto": rng.choice(["", "bob"]),
                    "media2": [(rng.choice(["audio", "video"]), "sendrecv", True) for _ in range(rng.randrange(0, 2))],
                    "dirs2": [rng.choice(dirs) for _ in range(6)],
                    "renegotiate": rng.choice([None, None, "audio", "video"]),
                }
                try:
                    asyncio.run(one(cfg))
                except Exception:
                    # configurations the library refuses are not this property's concern
                    pass
        finally:
            rpc.wrap_session_description = orig
        seen = set()
        for d in captured:
            try:
                p = proj_desc(d)
            except Exception:
                continue
            key = json.dumps(p)
            if key not in seen:
                seen.add(key)
                self.objects.append(p)
        self.texts = sorted(set(self.texts))


ALPHA = "abcdefghijklmnopqrstuvwxyzABCDEFGHIJKLMNOPQRSTUVWXYZ0123456789+-_.{}"


def gtok(rng, lo=1, hi=8, extra=""):
    return "".join(rng.choice(ALPHA + extra) for _ in range(rng.randrange(lo, hi)))


def gen_ip(rng):
    return rng.choice(["0.0.0.0", "192.168.1.%d" % rng.randrange(256), "::1", "2a02:a03f:3eb0:e000::%x" % rng.randrange(65536),
                       "255.255.255.255", "::", "fe80::1"])


def gen_cand(rng, wild=False):
    z = lambda hi: rng.choice([0, 1, hi, rng.randrange(hi + 1)])
    c = [S(gtok(rng)), z(256), S(rng.choice(["udp", "tcp", "UDP", "TCP"])), z(2 ** 32 - 1), S(gen_ip(rng)), z(65535),
         S(rng.choice(["host", "srflx", "relay", "prflx"])),
         opt(rng.choice([None, gen_ip(rng)]), S), opt(rng.choice([None, z(65535)])),
         opt(rng.choice([None, "active", "passive", "so"]), S)]
    if wild and rng.random() < 0.3:
        c[3] = rng.choice([-1, 2 ** 40, 10 ** 30])
    return c


def gen_object(rng, wf):
    """An encoded description. wf=True: inside wf_generated_b by construction (the shape the peer
    connection builds, with boundary values); wf=False: arbitrary structurally valid objects."""
    def o(p, f):
        return [f()] if rng.random() < p else []

    def gen_params():
        keys = []
        for _ in range(rng.randrange(0, 4)):
            k = rng.choice(["apt", "minptime", "useinbandfec", "profile-level-id", "x", "packetization-mode", "0-15",
                            gtok(rng)])
            if k not in keys:
                keys.append(k)
        ps = []
        for k in keys:
            if k in FMTP_INT_PARAMETERS:
                ps.append([S(k), [1, rng.choice([0, 1, 97, 48000, 2 ** 31])]])
            elif rng.random() < 0.3:
                ps.append([S(k), [0]])
            else:
                ps.append([S(k), [2, S(gtok(rng, 0, 6))]])
        return ps

    medias = []
    lite = 1 if rng.random() < 0.2 else 0
    nm = rng.randrange(0, 4)
    for mi in range(nm):
        kind = rng.choice(["audio", "video", "application"] + ([] if wf else ["text", "au/dio"]))
        av = kind in ("audio", "video")
        pts = rng.sample([0, 8, 9, 13, 71, 77, 96, 97, 98, 100, 111, 127, 255], rng.randrange(1 if wf else 0, 5)) if av else []
        if not wf and rng.random() < 0.2:
            pts = pts + pts[:1]
        codecs = []
        for pt in pts:
            name = rng.choice(["opus", "VP8", "rtx", "H264", "PCMU", "telephone-event", gtok(rng)])
            mime = kind + "/" + name
            if not wf and rng.random() < 0.15:
                mime = rng.choice([name, kind + "/" + name + "/x", "video/" + name, "/"])
            if kind == "audio":
                ch = [rng.choice([1, 2])] if wf else rng.choice([[], [1], [2], [6]])
            else:
                ch = [] if wf else rng.choice([[], [], [2]])
            fbs = [[S(rng.choice(["nack", "ccm", "goog-remb", "transport-cc", ""])),
                    opt(rng.choice([None, "pli", "fir", "a b"] + ([] if wf else [""])), S)]
                   for _ in range(rng.randrange(0, 3))]
            ps = gen_params()
            if not wf and rng.random() < 0.1:
                ps = [[S(""), [0]]]
            codecs.append([S(mime), rng.choice([8000, 48000, 90000, 0, 1]), ch, pt, fbs, ps])
        fmt = [[1, pt] for pt in pts] if av else [[0, S(rng.choice(["webrtc-datachannel", "5000", gtok(rng)]))]]
        if not av and not wf and rng.random() < 0.3:
            fmt = [[1, 5000]]
        if av and not pts:
            fmt = []
        ssrc_ids = rng.sample([1, 2, 4294967295, 1234567, 0], rng.randrange(0, 3))
        if not wf and rng.random() < 0.2:
            ssrc_ids = ssrc_ids + ssrc_ids[:1]
        ssrcs = []
        for sid in ssrc_ids:
            s = [sid, o(0.8, lambda: S(gtok(rng, 0, 6))), o(0.3, lambda: S(gtok(rng) + " " + gtok(rng))),
                 o(0.2, lambda: S(gtok(rng))), o(0.2, lambda: S(gtok(rng)))]
            if wf and not (s[1] or s[2] or s[3] or s[4]):
                s[1] = [S("c")]
            ssrcs.append(s)
        rtcp_port = o(0.8 if not wf else 0.7, lambda: rng.choice([9, 0, 65535]))
        rtcp_host = o(0.6, lambda: addr(gen_ip(rng))) if (rtcp_port or not wf) else []
        if not wf and rng.random() < 0.1:
            rtcp_host = [addr("host.example")]
        sctpmap_keys = rng.sample([5000, 5001, 0], rng.randrange(0, 2)) if kind == "application" else []
        role = rng.choice(["auto", "client", "server"])
        dtls = o(0.85, lambda: [[[S(rng.choice(["sha-256", "sha-384"])), S(":".join("%02X" % rng.randrange(256)
                                                                               for _ in range(rng.randrange(1, 5))))]
                                 for _ in range(rng.randrange(0, 3))], [S(role)]])
        if not wf and dtls and rng.random() < 0.15:
            dtls[0][1] = rng.choice([[], [S("foo")]])
        ice = [[o(0.9, lambda: S(gtok(rng))), o(0.9, lambda: S(gtok(rng, 1, 24))), lite]]
        if not wf and rng.random() < 0.1:
            ice = rng.choice([[], [[[], [], 1 - lite]]])
        mid = [S(rng.choice(["", str(mi), gtok(rng)]))]
        if not wf and rng.random() < 0.1:
            mid = []
        msid = o(0.6, lambda: S(gtok(rng) + " " + gtok(rng)))
        if not wf and rng.random() < 0.1:
            msid = [S("")]
        host = o(0.8, lambda: addr(gen_ip(rng)))
        if not wf and rng.random() < 0.1:
            host = [addr("example.com")]
        medias.append([
            S(kind), rng.choice([9, 0, 65535, rng.randrange(65536)]), host,
            S(rng.choice(["UDP/TLS/RTP/SAVPF", "RTP/AVP", "UDP/DTLS/SCTP", "DTLS/SCTP"])),
            o(0.9, lambda: S(rng.choice(DIRECTIONS))), msid, rtcp_port, rtcp_host, 1 if rng.random() < 0.7 else 0,
            ssrcs, [[S(rng.choice(["FID", "FEC", "SIM"])), rng.sample([1, 2, 3, 4294967295], rng.randrange(0, 3))]
                    for _ in range(rng.randrange(0, 2))],
            fmt, codecs,
            [[rng.choice([1, 2, 14, 255]), S("urn:ietf:params:rtp-hdrext:" + gtok(rng))] for _ in range(rng.randrange(0, 3))],
            mid,
            o(0.3 if kind == "application" else 0.05, lambda: rng.choice([65536, 0, 2 ** 31])),
            [[k, S("webrtc-datachannel %d" % rng.choice([256, 65535]))] for k in sctpmap_keys],
            o(0.4 if kind == "application" else 0.02, lambda: rng.choice([5000, 0, 65535])),
            dtls, ice, [gen_cand(rng, not wf) for _ in range(rng.randrange(0, 3))], 1 if rng.random() < 0.5 else 0,
            o(0.2, lambda: S(rng.choice(["trickle", "ice2 trickle", ""]))),
        ])
    origin = [S("- %d %d IN IP4 0.0.0.0" % (rng.randrange(2 ** 32), rng.randrange(2 ** 32)))]
    if not wf and rng.random() < 0.2:
        origin = []
    shost = o(0.2, lambda: addr(gen_ip(rng)))
    if not wf and rng.random() < 0.05:
        shost = [addr("example.org")]
    return [rng.choice([0, 0, 1, 7]), origin, S(rng.choice(["-", "x", "a b"])), S(rng.choice(["0 0", "1 2"])), shost,
            [[S("BUNDLE"), [S(str(i)) for i in range(rng.randrange(0, nm + 1))]] for _ in range(rng.randrange(0, 2))],
            [[S("WMS"), [S(rng.choice(["*", gtok(rng)])) for _ in range(rng.randrange(0, 2))]]
             for _ in range(rng.randrange(0, 2))],
            medias]


def show_cand(c):
    s = "%s %d %s %d %s %d typ %s" % (U(c[0]), c[1], U(c[2]), c[3], U(c[4]), c[5], U(c[6]))
    if c[7]:
        s += " raddr " + U(c[7][0])
    if c[8]:
        s += " rport %d" % c[8][0]
    if c[9]:
        s += " tcptype " + U(c[9][0])
    return s


def proj_sobj(obj):
    from aiortc import RTCIceCandidate, RTCSessionDescription
    if isinstance(obj, RTCSessionDescription):
        return [0, S(obj.sdp), S(obj.type)]
    if isinstance(obj, RTCIceCandidate):
        return [1, proj_cand(obj), opt(obj.sdpMid, S), opt(obj.sdpMLineIndex)]
    return [2]


def proj_msg(d):
    """The JSON message reduced to what contrib/signaling.py reads (Model/Sdp.v `smsg`)."""
    cand = []
    if "candidate" in d:
        v = d["candidate"]
        if not v:
            cand = [[0]]
        else:
            parts = v.split(":", 1)
            if len(parts) < 2:
                cand = [[1]]
            else:
                try:
                    cand = [[2, lex_candidate_tokens(parts[1])]]
                except ValueError:
                    cand = [[3]]
    return [opt(d.get("type"), S), opt(d.get("sdp"), S), cand,
            [opt(d["id"], S)] if "id" in d else [], [opt(d["label"])] if "label" in d else [],
            1 if any(k not in ("type", "sdp", "candidate", "id", "label") for k in d) else 0]


def T(text):
    """A text inside an output: its UTF-8 bytes packed 7 per int (keeps the outputs of 10^4..10^5 cases small)."""
    b = text.encode("utf8", "surrogatepass")
    return [len(b)] + [int.from_bytes(b[k:k + 7], "big") for k in range(0, len(b), 7)]


def unT(n):
    size, out = n[0], b""
    for k, x in enumerate(n[1:]):
        out += x.to_bytes(min(7, size - 7 * k), "big")
    return out.decode("utf8", "surrogatepass")


def digest(p):
    """A projection that is only compared for equality: its SHA-256 as an int."""
    import hashlib
    return int(hashlib.sha256(json.dumps(canon(p)).encode()).hexdigest()[:15], 16)


def res(f):
    """Run f; [0, value] or [class of the exception]."""
    try:
        return [0, f()]
    except Exception as exc:
        return [classify_exc(exc)]


class C09(Check):
    prop = "C09"
    props_file = "Props/C09.v"
    models = ["Sdp"]
    quick_cases = 2600
    thorough_cases = 52000
    case_timeout = 5.0
    level_note = ("PARTIAL at character level: theorems are about Model/Sdp.v, which works on structured lines "
                  "(one constructor per SDP line kind, fields already tokenised). The lexer text->lines and the "
                  "printer lines->text (split, re.match, int(), str(int), ipaddress) live in harness/props/c09.py and "
                  "are validated by the differential run against SessionDescription.parse / str(), not proved. "
                  "The IP version of an address is an oracle field supplied by ipaddress. json is trusted for the "
                  "signaling mapping.")
    rule = ("cases: SDP of real RTCPeerConnection createOffer/createAnswer/localDescription over a random walk of "
            "configurations (audio/video transceivers x directions, tracks, data channel incl. legacy sctpmap form, "
            "3 bundle policies, renegotiation) plus the SessionDescription objects those calls built; generated "
            "description objects inside wf_generated with boundary values and arbitrary ones outside it; the SDP "
            "texts embedded in tests/test_sdp.py; line- and character-level mutations of all of these and random "
            "line soups; ICE candidate strings (canonical and mutated); signaling messages. Compared: projection "
            "of parse(), text of str(), second round of both, wf_generated verdict. distinct by (case, output); "
            "non-trivial = the parser accepted the text / the object printed")

    def __init__(self):
        self._pool = None
        self._browser = None
        self._tier = "quick"

    def run(self, tier, seed, ncases=None):
        self._tier = tier
        return super().run(tier, seed, ncases)

    # ------------------------------------------------------------ generator
    def pool(self, rng):
        if self._pool is None:
            self._pool = PcPool()
            self._pool.build(rng, 30 if self._tier == "quick" else 400)
            self._browser = browser_sdps()
        return self._pool

    def gen_case(self, rng, i):
        pool = self.pool(rng)
        if i == 0:
            return ["k"]
        if i <= len(self._browser):
            return ["t", self._browser[i - 1], 0]
        j = i - len(self._browser) - 1
        if j < len(pool.texts):
            return ["t", pool.texts[j], 1]
        j -= len(pool.texts)
        if j < len(pool.objects):
            # the legacy data-channel section carries the SCTP port as an int in `fmt`, which comes back as a
            # string: outside wf_generated (documented), claimed shape unknown
            legacy = any(U(m[0]) not in ("audio", "video") and any(x[0] == 1 for x in m[11]) for m in pool.objects[j][7])
            return ["o", pool.objects[j], 2 if legacy else 1]
        k = rng.random()
        if k < 0.30:
            base = rng.choice(pool.texts + self._browser)
            return ["t", mutate_lines(rng, base), 0]
        if k < 0.42:
            soup = "\r\n".join(rng.choice(ATTRS) for _ in range(rng.randrange(1, 16))) + "\r\n"
            return ["t", mutate_lines(rng, soup) if rng.random() < 0.5 else soup, 0]
        if k < 0.62:
            return ["o", gen_object(rng, True), 1]
        if k < 0.77:
            return ["o", gen_object(rng, False), 2]
        if k < 0.80 and pool.objects:
            return ["o", self.mutate_object(rng, rng.choice(pool.objects)), 2]
        if k < 0.90:
            c = gen_cand(rng)
            text = show_cand(c)
            if rng.random() < 0.5:
                return ["c", text, 1]
            bits = text.split(" ")
            for _ in range(rng.randrange(1, 4)):
                r = rng.random()
                if r < 0.3 and bits:
                    del bits[rng.randrange(len(bits))]
                elif r < 0.6:
                    bits.insert(rng.randrange(len(bits) + 1), rng.choice(["rport", "raddr", "tcptype", "x", "7", "generation"]))
                elif bits:
                    bits[rng.randrange(len(bits))] = rng.choice(["x", "1", "rport", "-3", "1_0", ""])
            return ["c", " ".join(bits), 0]
        return self.gen_signaling(rng, pool)

    def mutate_object(self, rng, obj):
        o = json.loads(json.dumps(obj))
        if not o[7]:
            return o
        m = rng.choice(o[7])
        k = rng.randrange(8)
        if k == 0:
            m[6] = []           # no a=rtcp
            m[7] = []
        elif k == 1:
            m[14] = rng.choice([[], [S("")]])
        elif k == 2 and m[12]:
            m[12].append(json.loads(json.dumps(m[12][0])))
        elif k == 3:
            m[2] = [addr("example.com")]
        elif k == 4:
            m[18] = []
        elif k == 5 and m[12]:
            m[12][0][2] = [6]
        elif k == 6:
            o[1] = []
        else:
            m[9] = m[9] + [[77, [], [], [], []]]
        return o

    def gen_signaling(self, rng, pool):
        k = rng.random()
        if k < 0.3:
            c = gen_cand(rng)
            return ["s", "cand", c, rng.choice([None, "0", "audio", gtok(rng)]), rng.choice([None, 0, 1, 7])]
        if k < 0.5:
            return ["s", "desc", rng.choice(pool.texts + ["", "x"]), rng.choice(["offer", "answer", "answer", "pranswer"])]
        if k < 0.55:
            return ["s", "bye"]
        # arbitrary message dictionaries for object_from_string
        kind = rng.randrange(3)
        if kind == 0:
            d = {"sdp": rng.choice(["", "v=0\r\n"]), "type": rng.choice(["offer", "answer"])}
        elif kind == 1:
            text = show_cand(gen_cand(rng))
            if rng.random() < 0.4:
                bits = text.split(" ")
                r = rng.random()
                if r < 0.4:
                    del bits[rng.randrange(len(bits))]
                elif r < 0.7:
                    bits[rng.randrange(len(bits))] = rng.choice(["x", "rport", "7"])
                else:
                    bits = bits[:rng.randrange(len(bits))]
                text = " ".join(bits)
            d = {"candidate": rng.choice(["candidate:", "candidate:", "candidate:", "", "a=candidate:", "x"]) + text,
                 "id": rng.choice([None, "0", "mid"]), "label": rng.choice([None, 0, 3]), "type": "candidate"}
            if rng.random() < 0.1:
                d["candidate"] = rng.choice(["", "nocolon"])
        else:
            d = {"type": "bye"}
        for _ in range(rng.randrange(0, 3)):
            r = rng.random()
            if r < 0.35 and d:
                del d[rng.choice(sorted(d))]
            elif r < 0.6:
                d["type"] = rng.choice(["offer", "answer", "candidate", "bye", "pranswer", "x"])
            elif r < 0.8:
                d[rng.choice(["extra", "sdp", "id", "candidate"])] = rng.choice(["", "y", "candidate:1 2"])
            else:
                d["label"] = rng.choice([None, 5])
        return ["j", d]

    def describe_case(self, case):
        if case[0] == "t":
            return {"kind": "text", "generated": case[2], "text": case[1][:400]}
        if case[0] == "o":
            return {"kind": "object", "claimed_wf": case[2], "medias": len(case[1][7])}
        return case

    # ------------------------------------------------------------ implementation
    def round_impl(self, text):
        from aiortc.sdp import SessionDescription
        out = [[], [], [], []]
        try:
            d = SessionDescription.parse(text)
            out[0] = [0, proj_desc(d)]
        except Exception as exc:
            out[0] = [classify_exc(exc)]
            return out
        try:
            s1 = str(d)
            out[1] = [0, T(s1)]
        except Exception as exc:
            out[1] = [classify_exc(exc)]
            return out
        try:
            d2 = SessionDescription.parse(s1)
            out[2] = [0, digest(proj_desc(d2))]
        except Exception as exc:
            out[2] = [classify_exc(exc)]
            return out
        out[3] = res(lambda: T(str(d2)))
        return out

    def impl_run(self, case):
        from aiortc import sdp
        t = case[0]
        if t == "t":
            return [0, self.round_impl(case[1])]
        if t == "o":
            try:
                obj = build_desc(case[1])
                s = str(obj)
            except Exception as exc:
                return [1, case[2], [classify_exc(exc)], []]
            return [1, case[2], [0, T(s)], self.round_impl(s)]
        if t == "c":
            try:
                c = sdp.candidate_from_sdp(case[1])
            except Exception as exc:
                return [2, [classify_exc(exc)], [], []]
            s = sdp.candidate_to_sdp(c)
            return [2, [0, proj_cand(c)], S(s), res(lambda: proj_cand(sdp.candidate_from_sdp(s)))]
        if t == "k":
            from aiortc import rtp
            return [4, list(rtp.FORBIDDEN_PAYLOAD_TYPES), [S(x) for x in sdp.SSRC_INFO_ATTRS],
                    [S(x) for kv in sdp.DTLS_ROLE_SETUP.items() for x in kv],
                    [S("audio"), S("video"), S(str(None)), S("typ"), S("raddr"), S("rport"), S("tcptype")],
                    [sdp.DTLS_SETUP_ROLE[v] == k for k, v in sdp.DTLS_ROLE_SETUP.items()],
                    sdp.FMTP_INT_PARAMETERS == FMTP_INT_PARAMETERS, sdp.DIRECTIONS == DIRECTIONS,
                    [S("offer"), S("answer"), S("candidate"), S("bye")]]
        if t == "s":
            return [5] + self.signaling_impl(case)
        if t == "j":
            from aiortc.contrib.signaling import object_from_string
            return [6, res(lambda: proj_sobj(object_from_string(json.dumps(case[1]))))]
        raise ValueError(t)

    def signaling_impl(self, case):
        from aiortc import RTCSessionDescription
        from aiortc.contrib.signaling import BYE, object_from_string, object_to_string
        if case[1] == "cand":
            obj = build_cand(case[2])
            obj.sdpMid = case[3]
            obj.sdpMLineIndex = case[4]
        elif case[1] == "desc":
            obj = RTCSessionDescription(sdp=case[2], type=case[3])
        else:
            obj = BYE
        msg = object_to_string(obj)
        try:
            back = object_from_string(msg)
        except Exception as exc:
            return [proj_msg(json.loads(msg)), [classify_exc(exc)], 0, 0]
        same = proj_sobj(back) == proj_sobj(obj)
        again = object_to_string(back)
        return [proj_msg(json.loads(msg)), [0, proj_sobj(back)], 1 if same else 0, 1 if again == msg else 0]

    # ------------------------------------------------------------ model side
    def encode(self, case):
        t = case[0]
        if t == "t":
            return [0, lex(case[1])]
        if t == "o":
            # An int in the fmt list of a non-audio/video section (the legacy data-channel form) is written with
            # str() and read back as a string; the model has no int->text function, so it is handed the item
            # in its printed form (this shape is outside wf_generated, see Model/Sdp.v).
            d = json.loads(json.dumps(case[1]))
            for m in d[7]:
                if U(m[0]) not in ("audio", "video"):
                    m[11] = [[0, S(str(x[1]))] if x[0] == 1 else x for x in m[11]]
            return [1, d]
        if t == "c":
            try:
                return [2, lex_candidate_tokens(case[1])]
            except Exception:
                return [9]
        if t == "k":
            return [4]
        if t == "s":
            if case[1] == "cand":
                return [5, [1, case[2], opt(case[3], S), opt(case[4])]]
            if case[1] == "desc":
                return [5, [0, S(case[2]), S(case[3])]]
            return [5, [2]]
        if t == "j":
            return [6, proj_msg(case[1])]
        return [9]

    def canon_round(self, r):
        def text_of(x):
            if len(x) == 2 and x[0] == 0:
                return [0, T(show(x[1]))]
            return x

        def dig(x):
            if len(x) == 2 and x[0] == 0:
                return [0, digest(x[1])]
            return x
        if not r:
            return r
        return [r[0], text_of(r[1]), dig(r[2]), text_of(r[3])]

    def model_canon(self, case, out):
        t = case[0]
        if t == "t":
            return [0, self.canon_round(out)]
        if t == "o":
            wf = out[0] if case[2] != 2 else 2
            r = out[1]
            if r[0] == 0:
                return [1, wf, [0, T(show(r[1]))], self.canon_round(out[2])]
            return [1, wf, r, []]
        if t == "c":
            try:
                lex_candidate_tokens(case[1])
            except Exception as exc:          # int() of a numeric field: lexer-level error
                return [2, [classify_exc(exc)], [], []]
            if out[0][0] != 0:
                return [2, out[0], [], []]
            text = " ".join(show_tok(x) for x in out[1])
            return [2, out[0], S(text), out[2]]
        if t == "k":
            return [4, out[0], out[1], out[2], out[3][:7], [True, True, True], True, True, out[3][7:]]
        if t == "s":
            ok = 1 if out[1][0] == 0 else 0
            return [5, out[0], out[1], ok, ok]
        if t == "j":
            return [6, out[0]]
        return out

    # ------------------------------------------------------------ oracle: the property on the implementation
    def oracle(self, case, out):
        t = case[0]
        if t == "t" or t == "o":
            r = out[1] if t == "t" else out[3]
            if t == "o":
                if case[2] == 1:
                    if out[2][0] != 0:
                        return ("generated-str-raises", "str() of a generated-shape description raised")
                    if r[0][0] != 0:
                        return ("generated-not-parsable", "parse(str(d)) raised for a generated-shape description")
                    if r[0][1] != canon(case[1]):
                        return ("field-not-recovered", "parse(str(d)) differs from d: " + self.first_diff(case[1], r[0][1]))
                    if r[1] != out[2]:
                        return ("generated-not-fixpoint", "str(parse(str(d))) != str(d)")
                if not r:
                    return None
            if r[0][0] != 0:
                if t == "t" and case[2] == 1:
                    return ("generated-not-parsable", "a description produced by RTCPeerConnection is rejected")
                return None
            if r[1][0] != 0:
                d = r[0][1]
                hosts = [d[4]] + [m[2] for m in d[7]] + [m[7] for m in d[7]]
                if r[1][0] == E_VALUE and any(h and h[0][1] == 0 for h in hosts):
                    return ("str-raises-hostname", "parse() accepts a host name in c= / a=rtcp: but str() raises ValueError")
                return ("str-raises", "parse() accepted the text but str() of the result raised")
            if r[2][0] != 0:
                return ("reparse-raises", "parse(str(parse(t))) raised")
            if r[3] != r[1]:
                return ("not-idempotent", "str(parse(str(parse(t)))) != str(parse(t))")
            if t == "t" and case[2] == 1 and unT(r[1][1]) != case[1]:
                return ("generated-not-fixpoint", "str(parse(t)) != t for a description produced by RTCPeerConnection")
            return None
        if t == "c":
            if out[1][0] != 0:
                if case[2] == 1:
                    return ("candidate-rejected", "canonical candidate line rejected")
                return None
            if out[3] != out[1]:
                return ("candidate-roundtrip", "candidate_from_sdp(candidate_to_sdp(c)) != c")
            if case[2] == 1 and U(out[2]) != case[1]:
                return ("candidate-text-roundtrip", "candidate_to_sdp(candidate_from_sdp(t)) != t")
            return None
        if t == "s":
            if case[1] == "desc" and case[3] not in ("offer", "answer"):
                return None          # the helper only carries offers and answers (sobj_ok)
            if out[2][0] != 0 or out[3] != 1 or out[4] != 1:
                return ("signaling-roundtrip", "object_from_string(object_to_string(x)) != x")
        return None

    def first_diff(self, a, b, path="d"):
        a = canon(a)
        if isinstance(a, list) and isinstance(b, list):
            if len(a) != len(b):
                return f"{path}: length {len(a)} vs {len(b)}"
            for i, (x, y) in enumerate(zip(a, b)):
                if x != y:
                    return self.first_diff(x, y, f"{path}[{i}]")
        return f"{path}: {str(a)[:60]} vs {str(b)[:60]}"

    def nontrivial(self, case, out):
        t = case[0]
        if t == "t":
            return out[1][0][0] == 0
        if t == "o":
            return out[2][0] == 0
        if t == "c":
            return out[1][0] == 0
        return True

    def distribution(self, cases, outs):
        d = {"texts": 0, "texts_generated_by_pc": 0, "texts_accepted": 0, "texts_str_raises": 0, "objects": 0,
             "objects_wf": 0, "objects_from_pc": 0, "objects_print": 0, "candidates": 0, "candidates_ok": 0,
             "signaling": 0, "parse_value_error": 0, "parse_crash": 0, "media_sections": 0}
        for c, o in zip(cases, outs):
            if c[0] == "t":
                d["texts"] += 1
                d["texts_generated_by_pc"] += c[2]
                r = o[1]
                if r[0][0] == 0:
                    d["texts_accepted"] += 1
                    d["media_sections"] += len(r[0][1][7])
                    if r[1][0] != 0:
                        d["texts_str_raises"] += 1
                elif r[0][0] == E_VALUE:
                    d["parse_value_error"] += 1
                else:
                    d["parse_crash"] += 1
            elif c[0] == "o":
                d["objects"] += 1
                d["objects_wf"] += 1 if c[2] == 1 else 0
                d["objects_print"] += 1 if o[2][0] == 0 else 0
            elif c[0] == "c":
                d["candidates"] += 1
                d["candidates_ok"] += 1 if o[1][0] == 0 else 0
            elif c[0] in ("s", "j"):
                d["signaling"] += 1
        if self._pool:
            d["pc_texts"] = len(self._pool.texts)
            d["objects_from_pc"] = len(self._pool.objects)
        return d

    def shrink_candidates(self, case):
        if case[0] == "t":
            lines = case[1].splitlines()
            n = len(lines)
            step = max(1, n // 2)
            while step >= 1:
                for i in range(0, n, step):
                    rest = lines[:i] + lines[i + step:]
                    yield ["t", "\r\n".join(rest) + "\r\n", 0 if case[2] == 1 else case[2]]
                if step == 1:
                    break
                step //= 2
        elif case[0] == "o":
            o = case[1]
            for i in range(len(o[7])):
                c = json.loads(json.dumps(o))
                del c[7][i]
                yield ["o", c, case[2]]


if __name__ == "__main__":
    import sys
    sys.exit(C09().main(sys.argv[1:]))
