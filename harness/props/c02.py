"""C02 -- data channel traffic always drains.

k=0  sender-level correspondence: a real RTCSctpTransport (ESTABLISHED, _send_chunk / timers /
     ensure_future recorded) driven by the same inputs as Model/SctpTx.v: messages, SACKs (also
     nonsensical ones), T3 expiries, deferred transmit tasks; outputs and the full sender state
     (cwnd, ssthresh, flight size, both queues with per-chunk flags, T3 flag ...) compared after
     every input.
k=1  two real endpoints: arbitrary fault prefix, then a fault-free suffix (sim/scenario.py heal);
     oracle = the property: quiescence, everything sent on reliable channels delivered,
     bufferedAmount 0, flight size 0, still connected.
"""
import os
import random
import types

from harness import framework as F
from harness.framework import Check
from harness.sim import scenario as SC
from harness.sim import sctp as M
from harness.props.c01 import scenario_oracle_reliable

MTU = 1200


def fragments(tsn, sid, seq, ordered, size, maxrt, expiry):
    out = []
    n = -(-size // MTU)
    for f in range(n):
        book = min(MTU, size - f * MTU)
        out.append([(tsn + f) & 0xFFFFFFFF, sid, seq if ordered else 0, 0 if ordered else 1, 1 if f == 0 else 0,
                    1 if f == n - 1 else 0, book, [] if maxrt is None else [maxrt], [] if expiry is None else [expiry]])
    return out


def gen_tx_case(rng, ssn_origins=None):
    tsn0 = rng.choice([7, 0xFFFFFFF0, 0xFFFFFFFE, 0x7FFFFFF0, 1000])
    ins = []
    tsn = tsn0
    seqs = {}
    now = 100
    sent_hi = tsn0 - 1       # highest TSN handed to _send so far
    pr_tsns = []             # first TSNs of partially reliable messages
    ssn0 = [rng.choice(ssn_origins or [0, 0, 65535, 65534, 65533, 32767]) for _ in range(3)]
    n = rng.randrange(4, 45)
    for _ in range(n):
        k = rng.random()
        now += rng.choice([0, 0, 1, 2, 10])
        if k < 0.33:
            sid = rng.randrange(3)
            ordered = sid != 2
            size = rng.choice([1, 10, 1200, 1201, 2400, 3000, 6000, 13000])
            pr = rng.random()
            maxrt = rng.choice([0, 1]) if pr < 0.25 else None
            expiry = now + rng.choice([1, 5, 30]) if 0.25 <= pr < 0.4 else None
            # stream sequence numbers start anywhere, also just below the 16-bit wrap (FORWARD-TSN stream lists then
            # carry numbers on both sides of it)
            seq = seqs.get(sid, ssn0[sid])
            fr = fragments(tsn, sid, seq, ordered, size, maxrt, expiry)
            if ordered:
                seqs[sid] = (seq + 1) & 0xFFFF
            ins.append([0, fr, [sid, size, ordered, maxrt, expiry]])
            if maxrt is not None or expiry is not None:
                pr_tsns.append(tsn)
            tsn = (tsn + len(fr)) & 0xFFFFFFFF
            sent_hi = (tsn - 1) & 0xFFFFFFFF
        elif k < 0.78:
            # SACK: cumulative point around what is outstanding, gaps plausible or wild
            span = (tsn - tsn0) & 0xFFFFFFFF
            cum = (tsn0 - 1 + rng.randrange(0, span + 2)) & 0xFFFFFFFF if rng.random() < 0.9 else rng.randrange(2 ** 32)
            gaps = []
            if rng.random() < 0.6:
                pos = 1
                for _g in range(rng.randrange(1, 4)):
                    a = pos + rng.randrange(1, 4)
                    b = a + rng.randrange(0, 4)
                    gaps.append([a, b])
                    pos = b + 1
                if rng.random() < 0.08:
                    gaps.append([rng.randrange(1, 65536), rng.randrange(1, 65536)])
                if rng.random() < 0.05:
                    gaps.insert(0, [5, 2])
            ins.append([1, cum, gaps, now])
        elif k < 0.80:
            # several small messages of one ordered partially reliable stream, then a T3 expiry: they are abandoned in the
            # same round, so one FORWARD-TSN covers them all and names, per stream, the LAST abandoned sequence number
            # (with the counters started near 65535 the numbers lie on both sides of the 16-bit wrap)
            sid = rng.randrange(2)
            for _m in range(rng.randrange(2, 4)):
                seq = seqs.get(sid, ssn0[sid])
                size = rng.choice([1, 10, 1200, 2400])
                fr = fragments(tsn, sid, seq, True, size, 0, None)
                seqs[sid] = (seq + 1) & 0xFFFF
                ins.append([0, fr, [sid, size, True, 0, None]])
                pr_tsns.append(tsn)
                tsn = (tsn + len(fr)) & 0xFFFFFFFF
                sent_hi = (tsn - 1) & 0xFFFFFFFF
            now += 5
            ins.append([2, now])
            if rng.random() < 0.5:
                ins.append([3])
        elif k < 0.86 and tsn != tsn0:
            # three reports of the same hole: the chunk just above the cumulative point is struck three times and is
            # fast-retransmitted - or abandoned, when it belongs to a partially reliable message (that is where the
            # flight size is adjusted for an abandoned chunk)
            span = (tsn - tsn0) & 0xFFFFFFFF
            cum = (tsn0 - 1 + rng.randrange(0, span)) & 0xFFFFFFFF
            if pr_tsns and rng.random() < 0.6:
                cum = (rng.choice(pr_tsns) - 1) & 0xFFFFFFFF
            gaps = [[2, 2 + rng.randrange(0, 4)]]
            for j in range(3):
                ins.append([1, cum, gaps, now])
                if rng.random() < 0.3:
                    ins.append([3])
        elif k < 0.93:
            ins.append([2, now])
        else:
            ins.append([3])
    return {"k": 0, "tsn": tsn0, "rwnd": rng.choice([1048576, 1048576, 4000, 0]), "ins": ins, "ssn0": ssn0}


def gen_rto_case(rng):
    """round-trip measurements handed to _update_rto: realistic, degenerate and hostile floats (hex strings)"""
    rs = []
    for _ in range(rng.randrange(1, 14)):
        k = rng.random()
        if k < 0.55:
            r = rng.choice([0.0005, 0.02, 0.15, 1.0, 3.0]) * rng.random() * rng.choice([1, 1, 10])
        elif k < 0.7:
            r = rng.choice([0.0, 1.0, 60.0, 59.999999999999993, 60.000000000000007, 0.25, 15.0, 7.5, 1e-320, 5e-324])
        elif k < 0.8:
            r = -rng.random() * rng.choice([1e-3, 1.0, 100.0])
        elif k < 0.9:
            r = rng.choice([1e3, 1e17, 1e300, 1.7976931348623157e308, -1.7976931348623157e308])
        else:
            r = rng.choice([float("inf"), float("-inf"), float("nan")])
        rs.append(float(r).hex())
    return {"k": 2, "rs": rs}


def run_rto(case):
    return M.run(_run_rto(case))


async def _run_rto(case):
    """the real _update_rto; (srtt, rttvar, rto) after every measurement as hex strings"""
    from aiortc import rtcsctptransport as S
    sim = M.Sim([1, 2, 3, 4])
    sim._patch()
    try:
        t = S.RTCSctpTransport(M._Dtls(sim, 1), port=5000)
        out = [[float(t._rto).hex()]]
        for r in case["rs"]:
            t._update_rto(float.fromhex(r))
            out.append([float(t._srtt).hex(), float(t._rttvar).hex(), float(t._rto).hex()])
        return out
    finally:
        sim._unpatch()


def _coq_float(h):
    if h == "nan":
        return "nan"
    if h in ("inf", "-inf"):
        return "infinity" if h == "inf" else "neg_infinity"
    return f"(opp {h[1:]})" if h.startswith("-") else h


class C02(Check):
    prop = "C02"
    props_file = "Props/C02.v"
    models = ["SctpTx"]
    quick_cases = 900
    thorough_cases = 25000
    case_timeout = 60.0
    level_note = ("Theorems are about Model/SctpTx.v (sender: flight size, congestion window, queues, T3 flag) for "
                  "all input histories; tie = differential run against a real RTCSctpTransport whose _send_chunk, "
                  "timers and ensure_future are recorded. The RTO arithmetic is Model/Rto.v (primitive floats), compared "
                  "bit for bit with _update_rto inside Coq on every run; its range [1 s, 60 s] is theorem 7. When timers "
                  "fire is an input, so 'bounded time' beyond the timer range is a bound in healing rounds, observed on "
                  "the two-endpoint simulator, not proved.")
    rule = ("k=0: 4-45 inputs: messages of 1..11 fragments on 3 streams (reliable, rexmit-limited, lifetime-limited), "
            "SACKs with cumulative point anywhere around the outstanding range and 0-4 gap blocks (also inverted / "
            "huge), T3 expiries, deferred transmit tasks, TSN origins at wrap points, peer rwnd 0..1 MiB; k=2: 1-13 round-trip "
            "measurements (realistic, zero, negative, denormal, huge, infinite, NaN) given to _update_rto; k=1: two "
            "real endpoints, fault prefix + fault-free suffix (30 % of them: one stream id used by 2-3 channels in a row, DCEP-opened or "
            "negotiated, closed by either side, senders refilling from a 'bufferedamountlow' handler); distinct by (case, outputs); non-trivial = at least "
            "one retransmission or fast-recovery entry or T3 expiry with outstanding data")

    # ---------------------------------------------------------------- the float model of _update_rto, run inside Coq
    def gen_validation(self):
        """Model/Rto.v (primitive floats) against the real _update_rto, bit for bit: the expected triples are written as
        hexadecimal float literals into a Coq file and compared there (vm_compute) with what the model computes."""
        rng = random.Random(4242)
        n = 2500 if os.environ.get("VERIF_TIER") == "thorough" else 400
        cases = [gen_rto_case(rng) for _ in range(n)]
        lines = ["From Coq Require Import PrimFloat FloatOps SpecFloat ZArith List Bool.",
                 "From AV Require Import Model.Rto.", "Import ListNotations.", "Local Open Scope float_scope.",
                 "Definition feq (a b : float) : bool := match Prim2SF a, Prim2SF b with",
                 "  | S754_zero s1, S754_zero s2 => Bool.eqb s1 s2 | S754_infinity s1, S754_infinity s2 => Bool.eqb s1 s2",
                 "  | S754_nan, S754_nan => true",
                 "  | S754_finite s1 m1 e1, S754_finite s2 m2 e2 => Bool.eqb s1 s2 && Pos.eqb m1 m2 && Z.eqb e1 e2",
                 "  | _, _ => false end.",
                 "Fixpoint chk (ss : list rto_state) (ex : list (float * float * float)) : bool :=",
                 "  match ss, ex with [], [] => true",
                 "  | s :: ss', (a, b, c) :: ex' => match srtt s with Some x => feq x a | None => false end && feq (rttvar s) b && feq (rto s) c && chk ss' ex'",
                 "  | _, _ => false end."]
        steps = 0
        impl = []
        for c in cases:
            out = run_rto(c)
            impl.append(out)
            steps += len(c["rs"])
            rs = "; ".join(_coq_float(h) for h in c["rs"])
            ex = "; ".join("(%s, %s, %s)" % tuple(_coq_float(h) for h in t) for t in out[1:])
            lines.append(f"Eval vm_compute in (feq (rto rto_init) {_coq_float(out[0][0])} && chk (rto_run rto_init [{rs}]) [{ex}]).")
        os.makedirs(F.WORK, exist_ok=True)
        path = os.path.join(F.WORK, "genval_c02_rto.v")
        with open(path, "w") as fp:
            fp.write("\n".join(lines) + "\n")
        rc, out = F.sh(f"timeout 900 coqc -Q {F.COQ} AV -w -notation-overridden,-deprecated,-inexact-float {path}", cwd=F.WORK)
        vals = [l.strip() for l in out.splitlines() if l.strip().startswith("= ")]
        bad = [i for i, v in enumerate(vals) if not v.startswith("= true")]
        ok = rc == 0 and len(vals) == len(cases) and not bad
        self.rto_validation = {"histories": len(cases), "measurements": steps, "first_disagreement": None}
        desc = f"Model/Rto.v equals _update_rto bit for bit on {len(cases)} measurement histories ({steps} measurements)"
        if bad:
            self.rto_validation["first_disagreement"] = {"case": cases[bad[0]], "implementation": impl[bad[0]]}
            desc += f"; first disagreement: measurements {cases[bad[0]]['rs']} -> implementation {impl[bad[0]]}"
        elif not ok:
            desc += f"; coqc rc={rc}, {len(vals)} results: {out[-300:]}"
        return [(desc, ok)]

    def gen_case(self, rng, i):
        r0 = rng.random()
        if r0 < 0.04:
            return gen_rto_case(rng)
        if rng.random() < 0.15:
            if rng.random() < 0.3:
                # a stream id used by several channels in a row; senders refilling from a 'bufferedamountlow' handler
                return SC.gen_recycle(rng)
            return SC.gen_scenario(rng, reliable_only=(rng.random() < 0.5), big=(rng.random() < 0.3))
        return gen_tx_case(rng)

    def model_name(self, case):
        return "SctpTx" if case["k"] == 0 else None

    def encode(self, case):
        return [case["tsn"], case["rwnd"], [i[:2] if i[0] == 0 else i for i in case["ins"]]]

    def describe_case(self, case):
        if case["k"] == 2:
            return {"k": 2, "measurements": [float.fromhex(r) for r in case["rs"]]}
        if case["k"] == 0:
            return {"k": 0, "tsn": case["tsn"], "rwnd": case["rwnd"],
                    "ins": [["msg"] + i[2] if i[0] == 0 else i for i in case["ins"][:30]]}
        return {"k": 1, "tsn": case["tsn"], "ops": case["ops"][:40]}

    def impl_run(self, case):
        if case["k"] == 2:
            return run_rto(case)
        if case["k"] == 1:
            return SC.run_scenario(case)
        return M.run(self._tx(case))

    async def _tx(self, case):
        from aiortc import rtcsctptransport as S
        sim = M.Sim([1, case["tsn"], 3, 4])
        sim._patch()
        real_asyncio = S.asyncio
        outs_ev = []

        def ensure_future(coro):
            coro.close()
            outs_ev.append([2])
            return None

        S.asyncio = types.SimpleNamespace(ensure_future=ensure_future, get_event_loop=real_asyncio.get_event_loop,
                                          TimerHandle=real_asyncio.TimerHandle)
        try:
            t = S.RTCSctpTransport(M._Dtls(sim, 0), port=5000)
            t._loop = M._Loop(sim, 0)
            t._ssthresh = case["rwnd"]
            t._association_state = S.RTCSctpTransport.State.ESTABLISHED
            # the origin of the stream sequence numbers (the chunks of the case were numbered from it)
            t._outbound_stream_seq = {sid: v for sid, v in enumerate(case.get("ssn0", [])) if v}

            async def tx(chunk):
                if isinstance(chunk, S.DataChunk):
                    outs_ev.append([0, chunk.tsn, chunk._sent_count])
                elif isinstance(chunk, S.ForwardTsnChunk):
                    outs_ev.append([1, chunk.cumulative_tsn, [list(x) for x in chunk.streams]])
            t._send_chunk = tx
            res = []
            for inp in case["ins"]:
                outs_ev.clear()
                k = inp[0]
                if k == 0:
                    sid, size, ordered, maxrt, expiry = inp[2]
                    sim.now = float(inp[1][0][8][0] - 1) if False else sim.now
                    await t._send(sid, 53, b"x" * size, expiry=None if expiry is None else float(expiry),
                                  max_retransmits=maxrt, ordered=ordered)
                elif k == 1:
                    sim.now = float(inp[3])
                    sack = S.SackChunk()
                    sack.cumulative_tsn = inp[1]
                    sack.gaps = [tuple(g) for g in inp[2]]
                    await t._receive_sack_chunk(sack)
                elif k == 2:
                    sim.now = float(inp[1])
                    if t._t3_handle is not None and not t._t3_handle.cancelled:
                        t._t3_expired()
                else:
                    await t._transmit()
                armed = t._t3_handle is not None and not t._t3_handle.cancelled
                state = [
                    t._cwnd, t._ssthresh, t._flight_size,
                    [] if t._fast_recovery_exit is None else [t._fast_recovery_exit],
                    1 if t._fast_recovery_transmit else 0,
                    [] if t._forward_tsn_chunk is None else
                    [t._forward_tsn_chunk.cumulative_tsn, [list(x) for x in t._forward_tsn_chunk.streams]],
                    t._last_sacked_tsn, t._advanced_peer_ack_tsn,
                    [c.tsn for c in t._outbound_queue],
                    [[c.tsn, 1 if c._acked else 0, 1 if c._abandoned else 0, 1 if c._retransmit else 0, c._misses,
                      c._sent_count] for c in t._sent_queue],
                    t._partial_bytes_acked, 1 if armed else 0,
                ]
                res.append([[list(e) for e in outs_ev], state])
            return res
        finally:
            S.asyncio = real_asyncio
            sim._unpatch()

    # ------------------------------------------------------------ oracle
    def oracle(self, case, out):
        if case["k"] == 2:
            for step, o in enumerate(out):
                rto = float.fromhex(o[-1])
                if not 1.0 <= rto <= 60.0:
                    return ("rto-out-of-range", f"after {step} measurements {[float.fromhex(r) for r in case['rs'][:step]]} every "
                                                f"SCTP timer would be armed with a delay of {rto} s (outside [1, 60])")
            return None
        if case["k"] == 0:
            # the no-deadlock invariants, read off the real object after every input
            pending = False
            for (evs, st), inp in zip(out, case["ins"]):
                cwnd, ssthresh, flight, fre, frt, fwd, ls, adv, outq, sentq, pba, t3 = st
                if inp[0] == 3:
                    pending = False
                if any(e == [2] for e in evs):
                    pending = True
                inflight = [c for c in sentq if not c[1] and not c[2] and not c[3]]
                if not sentq and flight != 0:
                    return ("flight-nonzero-empty-queue", f"_flight_size {flight} with an empty sent queue")
                if cwnd < MTU:
                    return ("cwnd-below-mtu", f"cwnd {cwnd}")
                if sentq and not t3 and not pending:
                    return ("no-timer-with-outstanding-data", f"sent queue {[c[0] for c in sentq][:5]} but T3 is not armed")
                if outq and not sentq and not pending:
                    return ("queued-data-not-transmitted", f"outbound queue {outq[:5]} with nothing outstanding")
            return None
        return scenario_oracle_drains(out)

    def nontrivial(self, case, out):
        if case["k"] == 2:
            return any(1.0 < float.fromhex(o[-1]) < 60.0 for o in out[1:])
        if case["k"] == 0:
            return any(any(e[0] == 0 and e[2] > 1 for e in evs) or st[3] for evs, st in out)
        return out["datagrams"][0] > 8 and any(e[1] == "message" for e in out["events"])

    def distribution(self, cases, outs):
        d = {"tx": 0, "scenario": 0, "inputs": 0, "msgs": 0, "sacks": 0, "t3": 0, "retransmissions": 0,
             "fast_recovery": 0, "fwd_tsn": 0, "healed_rounds_max": 0}
        d["rto_model_validation"] = getattr(self, "rto_validation", None)
        for c, o in zip(cases, outs):
            if c["k"] == 2:
                d["rto"] = d.get("rto", 0) + 1
            elif c["k"] == 0:
                d["tx"] += 1
                d["inputs"] += len(c["ins"])
                d["msgs"] += sum(1 for i in c["ins"] if i[0] == 0)
                d["sacks"] += sum(1 for i in c["ins"] if i[0] == 1)
                d["t3"] += sum(1 for i in c["ins"] if i[0] == 2)
                for evs, st in o:
                    d["retransmissions"] += sum(1 for e in evs if e[0] == 0 and e[2] > 1)
                    d["fwd_tsn"] += sum(1 for e in evs if e[0] == 1)
                    d["fast_recovery"] += 1 if st[3] else 0
            else:
                d["scenario"] += 1
                d["healed_rounds_max"] = max(d["healed_rounds_max"], o["healed_rounds"] or 0)
        return d

    def shrink_candidates(self, case):
        key = {0: "ins", 2: "rs"}.get(case["k"], "ops")
        l = case[key]
        if case["k"] == 0:
            return   # inputs carry TSNs; dropping one invalidates the rest
        n = len(l)
        step = max(1, n // 2)
        while step >= 1:
            for i in range(0, n, step):
                c = dict(case)
                c[key] = l[:i] + l[i + step:]
                yield c
            if step == 1:
                break
            step //= 2


def scenario_oracle_drains(obs):
    r = scenario_oracle_reliable(obs)
    if r is not None:
        return r
    if obs["stopped"]:
        return None
    if not obs["established"]:
        # the handshake was still under way (T1 armed) when the network stopped losing datagrams: every retransmitted
        # INIT / COOKIE-ECHO now reaches the peer, so the association must come up on both sides
        before = obs.get("assoc_before_heal") or []
        # (an endpoint that had already used up its SCTP_MAX_INIT_RETRANS = 8 retransmissions gives up legitimately)
        tries_left = all(f < 8 for f in obs.get("t1_failures_before_heal", [0, 0]))
        if any(a in ("COOKIE_WAIT", "COOKIE_ECHOED") for a in before) and "ESTABLISHED" in obs["assoc"] and tries_left:
            return ("handshake-not-completed-after-healing",
                    f"association states {before} when the network healed, {obs['assoc']} after the fault-free suffix: one "
                    "side reports itself connected, the other never gets there")
        return None
    if obs["healed_rounds"] is None or not obs["quiescent"]:
        return ("not-quiescent-after-healing", f"queues sent={obs['sent_queue']} outbound={obs['outbound_queue']} "
                                               f"dc={obs['dc_queue']} after the fault-free suffix")
    if obs["flight"] != [0, 0]:
        return ("flight-nonzero-at-quiescence", f"_flight_size {obs['flight']} with nothing outstanding")
    if obs["state"] != ["connected", "connected"]:
        return ("not-connected-after-healing", str(obs["state"]))
    closed = set((a, b) for a, b in obs["closed_ops"])
    for ep, i, j, ch in SC.pair_channels(obs):
        if ch["maxRetransmits"] is not None or ch["maxPacketLifeTime"] is not None:
            continue
        if (ep, i) in closed or ch["state"] != "open":
            continue
        peer = obs["channels"][1 - ep][j]
        if peer["state"] != "open":
            continue
        sent = SC.sent_on(obs, ep, i)
        got = SC.delivered_on(obs, 1 - ep, j)
        if sorted(map(str, got)) != sorted(map(str, sent)):
            return ("reliable-message-not-delivered", f"channel id {ch['id']}: {len(sent)} sent, {len(got)} delivered "
                                                      f"after the network healed")
    for ep in (0, 1):
        for ch in obs["channels"][ep]:
            if ch["state"] != "closed" and ch["buffered"] != 0:
                return ("buffered-nonzero-after-drain", f"ep{ep} channel id {ch['id']} bufferedAmount {ch['buffered']}")
    return None


if __name__ == "__main__":
    import sys
    sys.exit(C02().main(sys.argv[1:]))
