"""C19 -- close() always completes, is idempotent and leaves nothing running.

Tie between Model/Close.v and the implementation = TRACE INCLUSION + DIRECT OBSERVATION on real
objects (this part is testing, not proof): every case runs a real pair of RTCPeerConnections
(audio / video transceivers with the dummy tracks of aiortc.mediastreams, data channels or not,
the three bundle policies), invokes close() at a chosen instant (between the negotiation calls,
or at the k-th event-loop callback after such a point, on either side or on both, once or twice
concurrently, with or without a failing RTCP task), records the lifecycle events of every object
from OUTSIDE (class-level wrappers around the stop()/start()/task-body methods, a task factory
that sees Task.cancel(), wrappers around aioice's connect()/close()) and

  * replays the recorded event sequence of each peer connection in the extracted model: every
    event must be an enabled transition (trace inclusion) and the model's final configuration
    must equal the state read from the real objects at the end (tasks, threads, transports);
  * applies the property itself (oracle) to what was observed.

No source hook is used.
"""
import asyncio
import contextvars
import functools
import json
import logging
import os
import sys
import threading
import time

from harness.framework import Check

CLOSE_TIMEOUT = 10.0          # generous bound for close() to return
GRACE = 2.5                   # time given to already-cancelled tasks / doomed tasks to finish

# event codes (Model/Close.v ev_of_sx)
E_ICE_START, E_ICE_START_RET, E_DTLS_START, E_DTLS_START_RET, E_SEND, E_RECEIVE, E_SCTP_START = range(7)
E_TASK_BEGIN, E_TASK_END, E_PUMP_END, E_MON_END, E_BYE, E_ICE_LOST, E_NEGO_SIG, E_CHAN_NEW = range(7, 15)
E_CLOSE_CALL, E_CLOSE_RET, E_STOP_CALL, E_STOP_RET, E_CANCEL, E_ICE_CONN_CLOSED, E_SCTP_DOWN = range(15, 22)
E_CAND_END = 22
K_SRTP, K_SRTCP, K_RRTCP, K_PUMP = range(4)
O_RECV, O_SEND, O_SCTP, O_DTLS, O_ICE = range(5)

_in_close = contextvars.ContextVar("c19_in_close", default=None)      # pc index while inside the first close()
_in_ice_stop = contextvars.ContextVar("c19_in_ice_stop", default=None)
_in_ice_start = contextvars.ContextVar("c19_in_ice_start", default=None)
_in_any_ice_stop = contextvars.ContextVar("c19_in_any_ice_stop", default=False)
_in_sctp_stop = contextvars.ContextVar("c19_in_sctp_stop", default=False)

RUN = None            # the current Run
_INSTALLED = False
_CORO_TAGS = {}


class Run:
    def __init__(self):
        self.pcs = []
        self.trace = []          # per pc: list of events
        self.tp_reg = []         # per pc: list of dtls transports (index = model transport id)
        self.close_calls = []    # per pc: number of close() calls so far
        self.close_open = []     # per pc: set of call ids that have not returned
        self.first_ret = []      # per pc: True once the first close() has returned
        self.events_after = []   # per pc: emits after close() returned
        self.channels = []       # per pc: channels
        self.tasks = {}          # (id(obj), kind) -> task
        self.rebundle = []       # per pc: setTransport after close() began / transceivers grew
        self.ext_stopped = []    # per pc: transports stopped by a negotiation call
        self.ntrx_at_close = []
        self.recording = True
        self.ev_trigger = None   # [event code, countdown, pcs, callback]

    def add_pc(self, pc):
        self.pcs.append(pc)
        self.trace.append([])
        self.tp_reg.append([])
        self.close_calls.append(0)
        self.close_open.append(set())
        self.first_ret.append(False)
        self.events_after.append([])
        self.channels.append([])
        self.rebundle.append(False)
        self.ext_stopped.append(set())
        self.ntrx_at_close.append(None)
        p = len(self.pcs) - 1
        orig_emit = pc.emit

        def emit(event, *a, **k):
            if self.first_ret[p]:
                self.events_after[p].append(str(event))
            return orig_emit(event, *a, **k)
        pc.emit = emit
        return p

    # ---- who owns this object?
    def _scan(self, p):
        pc = self.pcs[p]
        reg = self.tp_reg[p]
        for t in pc.getTransceivers():
            d = t.receiver.transport
            if d is not None and all(d is not x for x in reg):
                reg.append(d)
        s = pc.sctp
        if s is not None and all(s.transport is not x for x in reg):
            reg.append(s.transport)

    def resolve(self, obj):
        """-> (pc index, role, index) or None; roles: s r d i c sc pc"""
        for p, pc in enumerate(self.pcs):
            if obj is pc:
                return (p, "pc", 0)
            self._scan(p)
            for i, t in enumerate(pc.getTransceivers()):
                if obj is t.sender:
                    return (p, "s", i)
                if obj is t.receiver:
                    return (p, "r", i)
            if pc.sctp is not None and obj is pc.sctp:
                return (p, "sc", 0)
            for i, d in enumerate(self.tp_reg[p]):
                if obj is d:
                    return (p, "d", i)
                if obj is d.transport:
                    return (p, "i", i)
                if obj is d.transport._connection:
                    return (p, "c", i)
        return None

    def log(self, p, *ev):
        if self.recording:
            self.trace[p].append(list(ev))
            trg = self.ev_trigger
            if trg is not None and ev[0] == trg[0] and p in trg[2]:
                trg[1] -= 1
                if trg[1] <= 0:
                    self.ev_trigger = None
                    trg[3]()          # close() is invoked at this very lifecycle event


def _log_obj(obj, roles, mk):
    run = RUN
    if run is None or not run.recording:
        return None
    r = run.resolve(obj)
    if r is None or r[1] not in roles:
        return None
    run.log(r[0], *mk(r))
    return r


class _TTask(asyncio.Task):
    def cancel(self, msg=None):
        tag = getattr(self, "_c19", None)
        if tag is not None:
            obj, kind = tag
            _log_obj(obj, ("s", "r", "d"), lambda r: (E_CANCEL, r[2], kind))
        return super().cancel(msg)


def _task_factory(loop, coro, **kw):
    t = _TTask(coro, loop=loop, **kw)
    tag = _CORO_TAGS.pop(id(coro), None)
    if tag is not None:
        t._c19 = tag
        if RUN is not None:
            RUN.tasks[(id(tag[0]), tag[1])] = t
    return t


def install():
    """Class-level wrappers; they log only while a Run is active and the object belongs to it."""
    global _INSTALLED
    if _INSTALLED:
        return
    _INSTALLED = True
    import aioice
    from aiortc import rtcdtlstransport, rtcicetransport, rtcpeerconnection, rtcrtpreceiver, rtcrtpsender
    from aiortc import rtcsctptransport, rtcdatachannel
    from aiortc.rtp import RtcpByePacket
    PC = rtcpeerconnection.RTCPeerConnection
    S = rtcrtpsender.RTCRtpSender
    R = rtcrtpreceiver.RTCRtpReceiver
    D = rtcdtlstransport.RTCDtlsTransport
    I = rtcicetransport.RTCIceTransport
    SC = rtcsctptransport.RTCSctpTransport
    DC = rtcdatachannel.RTCDataChannel
    CONN = aioice.Connection

    # ---- background task bodies
    def wrap_body(cls, name, kind, started_attr, exited_attr):
        orig = getattr(cls, name)

        async def body(self, coro):
            _log_obj(self, ("s", "r"), lambda r: (E_TASK_BEGIN, r[2], kind))
            try:
                return await coro
            finally:
                ex = 1 if getattr(self, exited_attr).is_set() else 0
                _log_obj(self, ("s", "r"), lambda r: (E_TASK_END, r[2], kind, ex))

        body.__qualname__ = f"{cls.__name__}.{name}"

        @functools.wraps(orig)
        def wrapper(self, *a, **k):
            c = body(self, orig(self, *a, **k))
            _CORO_TAGS[id(c)] = (self, kind)
            return c
        setattr(cls, name, wrapper)

    wrap_body(S, "_run_rtp", K_SRTP, "_RTCRtpSender__rtp_started", "_RTCRtpSender__rtp_exited")
    wrap_body(S, "_run_rtcp", K_SRTCP, "_RTCRtpSender__rtcp_started", "_RTCRtpSender__rtcp_exited")
    wrap_body(R, "_run_rtcp", K_RRTCP, "_RTCRtpReceiver__rtcp_started", "_RTCRtpReceiver__rtcp_exited")

    orig_run = getattr(D, "_RTCDtlsTransport__run")

    async def pump_body(self, coro):
        how = 2
        try:
            r = await coro
            how = 1          # __run returns only through `except ConnectionError`
            return r
        except asyncio.CancelledError:
            how = 0
            raise
        finally:
            _log_obj(self, ("d",), lambda r: (E_PUMP_END, r[2], how))

    pump_body.__qualname__ = "RTCDtlsTransport.__run"

    def run_wrapper(self):
        c = pump_body(self, orig_run(self))
        _CORO_TAGS[id(c)] = (self, K_PUMP)
        return c
    setattr(D, "_RTCDtlsTransport__run", run_wrapper)

    orig_monitor = I._monitor

    async def mon_body(self, coro):
        try:
            return await coro
        finally:
            _log_obj(self, ("i",), lambda r: (E_MON_END, r[2]))

    mon_body.__qualname__ = "RTCIceTransport._monitor"

    def monitor_wrapper(self):
        c = mon_body(self, orig_monitor(self))
        _CORO_TAGS[id(c)] = (self, "mon")
        return c
    I._monitor = monitor_wrapper

    # ---- what __connect calls
    orig_send = S.send

    async def send(self, parameters):
        _log_obj(self, ("s",), lambda r: (E_SEND, r[2]))
        return await orig_send(self, parameters)
    S.send = send

    orig_receive = R.receive

    async def receive(self, parameters):
        _log_obj(self, ("r",), lambda r: (E_RECEIVE, r[2]))
        return await orig_receive(self, parameters)
    R.receive = receive

    orig_sctp_start = SC.start

    async def sctp_start(self, *a, **k):
        _log_obj(self, ("sc",), lambda r: (E_SCTP_START,))
        return await orig_sctp_start(self, *a, **k)
    SC.start = sctp_start

    orig_set_state = SC._set_state

    def sctp_set_state(self, state):
        if state == self.State.CLOSED and not _in_sctp_stop.get() and getattr(self, "_RTCSctpTransport__started"):
            _log_obj(self, ("sc",), lambda r: (E_SCTP_DOWN,))
        return orig_set_state(self, state)
    SC._set_state = sctp_set_state

    orig_ice_start = I.start

    async def ice_start(self, remoteParameters):
        first = getattr(self, "_RTCIceTransport__start") is None and self.state != "closed"
        tok = None
        if first:
            _log_obj(self, ("i",), lambda r: (E_ICE_START, r[2]))
            tok = _in_ice_start.set(self)
        try:
            return await orig_ice_start(self, remoteParameters)
        finally:
            if tok is not None:
                _in_ice_start.reset(tok)
    I.start = ice_start

    orig_connect = CONN.connect

    async def connect(self):
        try:
            r = await orig_connect(self)
        except ConnectionError:
            _log_obj(self, ("c",), lambda r: (E_ICE_START_RET, r[2], 0))
            raise
        _log_obj(self, ("c",), lambda r: (E_ICE_START_RET, r[2], 1))
        return r
    CONN.connect = connect

    orig_conn_close = CONN.close

    async def conn_close(self):
        stopping = _in_ice_stop.get()
        starting = _in_ice_start.get()
        mine = stopping is not None and stopping._connection is self
        if not mine and not _in_any_ice_stop.get() and not (starting is not None and starting._connection is self):
            if not self._closed:
                _log_obj(self, ("c",), lambda r: (E_ICE_LOST, r[2]))
        r = await orig_conn_close(self)
        if mine:
            _log_obj(self, ("c",), lambda r: (E_ICE_CONN_CLOSED, r[2]))
        return r
    CONN.close = conn_close

    orig_add_cand = CONN.add_remote_candidate

    async def add_remote_candidate(self, remote_candidate):
        if remote_candidate is None and not self._remote_candidates_end and not _in_any_ice_stop.get():
            _log_obj(self, ("c",), lambda r: (E_CAND_END, r[2]))
        return await orig_add_cand(self, remote_candidate)
    CONN.add_remote_candidate = add_remote_candidate

    orig_dtls_start = D.start

    async def dtls_start(self, remoteParameters):
        from aiortc.rtcdtlstransport import State
        logged = None
        if self._state == State.NEW and len(remoteParameters.fingerprints):
            logged = _log_obj(self, ("d",), lambda r: (E_DTLS_START, r[2]))
        try:
            return await orig_dtls_start(self, remoteParameters)
        finally:
            if logged is not None:
                ok = 1 if (self._state in (State.CONNECTED, State.CLOSED) and
                           (id(self), K_PUMP) in (RUN.tasks if RUN else {})) else 0
                _log_obj(self, ("d",), lambda r: (E_DTLS_START_RET, r[2], ok))
    D.start = dtls_start

    # ---- remote BYE, signalling, channels
    orig_handle_rtcp = R._handle_rtcp_packet

    async def handle_rtcp(self, packet):
        if isinstance(packet, RtcpByePacket):
            _log_obj(self, ("r",), lambda r: (E_BYE, r[2]))
        return await orig_handle_rtcp(self, packet)
    R._handle_rtcp_packet = handle_rtcp

    orig_sig = getattr(PC, "_RTCPeerConnection__setSignalingState")

    def set_sig(self, state):
        if state != "closed":
            _log_obj(self, ("pc",), lambda r: (E_NEGO_SIG,))
        return orig_sig(self, state)
    setattr(PC, "_RTCPeerConnection__setSignalingState", set_sig)

    orig_dc_init = DC.__init__

    def dc_init(self, transport, *a, **k):
        orig_dc_init(self, transport, *a, **k)
        run = RUN
        if run is not None:
            r = run.resolve(transport)
            if r is not None and r[1] == "sc":
                p = r[0]
                run.channels[p].append(self)
                run.log(p, E_CHAN_NEW)
                orig_emit = self.emit

                def emit(event, *aa, **kk):
                    if run.first_ret[p]:
                        run.events_after[p].append("channel:" + str(event))
                    return orig_emit(event, *aa, **kk)
                self.emit = emit
    DC.__init__ = dc_init

    for cls in (S, R):
        orig_st = cls.setTransport

        def set_transport(self, transport, _o=orig_st):
            run = RUN
            if run is not None:
                r = run.resolve(self)
                if r is not None and run.close_calls[r[0]] > 0:
                    run.rebundle[r[0]] = True
            return _o(self, transport)
        cls.setTransport = set_transport

    # ---- close() and the stop() calls it makes
    orig_close = PC.close

    async def close(self):
        run = RUN
        r = run.resolve(self) if run is not None and run.recording else None
        if r is None:
            return await orig_close(self)
        p = r[0]
        cid = run.close_calls[p]
        run.close_calls[p] += 1
        first = getattr(self, "_RTCPeerConnection__isClosed") is None
        run.log(p, E_CLOSE_CALL, cid)
        run.close_open[p].add(cid)
        tok = None
        if first:
            run.ntrx_at_close[p] = len(self.getTransceivers())
            tok = _in_close.set(p)
        try:
            res = await orig_close(self)
        finally:
            if tok is not None:
                _in_close.reset(tok)
        run.log(p, E_CLOSE_RET, cid)
        run.close_open[p].discard(cid)
        if first:
            run.first_ret[p] = True
        return res
    PC.close = close

    def wrap_stop(cls, roles, code):
        orig = cls.stop

        async def stop(self):
            run = RUN
            p = _in_close.get()
            r = run.resolve(self) if (run is not None and run.recording and p is not None) else None
            if r is None or r[0] != p or r[1] not in roles:
                return await orig(self)
            run.log(p, E_STOP_CALL, r[2], code)
            tok = None
            if code == O_ICE:
                tok = _in_ice_stop.set(self)
            elif code == O_SCTP:
                tok = _in_sctp_stop.set(True)
            try:
                res = await orig(self)
            finally:
                if code == O_ICE:
                    _in_ice_stop.reset(tok)
                elif code == O_SCTP:
                    _in_sctp_stop.reset(tok)
            run.log(p, E_STOP_RET, r[2], code)
            return res
        cls.stop = stop

    orig_ice_stop_any = I.stop

    async def ice_stop_any(self):
        run = RUN
        if run is not None and run.recording and _in_close.get() is None:
            # stopped by a negotiation call (bundling), not by close()
            r = run.resolve(self)
            if r is not None and r[1] == "i":
                run.ext_stopped[r[0]].add(r[2])
        tok = _in_any_ice_stop.set(True)
        try:
            return await orig_ice_stop_any(self)
        finally:
            _in_any_ice_stop.reset(tok)
    I.stop = ice_stop_any

    wrap_stop(R, ("r",), O_RECV)
    wrap_stop(S, ("s",), O_SEND)
    wrap_stop(SC, ("sc",), O_SCTP)
    wrap_stop(D, ("d",), O_DTLS)
    wrap_stop(I, ("i",), O_ICE)

    # RTCP every 50 ms instead of 0.5 .. 1.5 s, so that RTCP traffic and BYEs take part in short runs
    import random as _random

    class FastRandom:
        def random(self):
            return -0.45

        def __getattr__(self, name):
            return getattr(_random, name)
    rtcrtpsender.random = FastRandom()
    rtcrtpreceiver.random = FastRandom()


class CountingLoop(asyncio.SelectorEventLoop):
    """Counts scheduled callbacks (call_soon and timers); fires `fire` when the k-th one is scheduled."""
    armed = False
    count = 0
    target = None
    fire = None

    def arm(self, k, fire):
        self.count = 0
        self.target = k
        self.fire = fire
        self.armed = True

    def _tick(self):
        if self.armed:
            self.count += 1
            if self.count >= self.target:
                self.armed = False
                f, self.fire = self.fire, None
                f()      # the close() task is queued right behind the k-th callback

    def call_soon(self, callback, *args, **kw):
        h = super().call_soon(callback, *args, **kw)
        self._tick()
        return h

    def call_at(self, when, callback, *args, **kw):
        h = super().call_at(when, callback, *args, **kw)
        self._tick()
        return h


class _Boom(Exception):
    pass


def _boom(*a, **k):
    raise _Boom("injected failure of a background task")


def _task_code(task, started, exited):
    if task is None:
        return 0
    if not task.done():
        return 2 if started.is_set() else 1
    return 3 if exited.is_set() else 4


def _snapshot(run, p):
    """State of the real objects of peer connection p, in the format of Model/Close.v sx_of_cfg."""
    from aiortc.rtcdtlstransport import State
    pc = run.pcs[p]
    run._scan(p)
    fut = getattr(pc, "_RTCPeerConnection__isClosed")
    closed = 0 if fut is None else (2 if fut.done() else 1)
    trx = []
    for t in pc.getTransceivers():
        s, r = t.sender, t.receiver
        trx.append([
            _task_code(getattr(s, "_RTCRtpSender__rtp_task"), getattr(s, "_RTCRtpSender__rtp_started"),
                       getattr(s, "_RTCRtpSender__rtp_exited")),
            _task_code(getattr(s, "_RTCRtpSender__rtcp_task"), getattr(s, "_RTCRtpSender__rtcp_started"),
                       getattr(s, "_RTCRtpSender__rtcp_exited")),
            _task_code(getattr(r, "_RTCRtpReceiver__rtcp_task"), getattr(r, "_RTCRtpReceiver__rtcp_started"),
                       getattr(r, "_RTCRtpReceiver__rtcp_exited")),
            1 if getattr(r, "_RTCRtpReceiver__decoder_thread") is not None else 0,
        ])
    dmap = {State.NEW: 0, State.CONNECTING: 1, State.CONNECTED: 2, State.CLOSED: 3, State.FAILED: 4}
    imap = {"new": 0, "checking": 1, "completed": 2, "failed": 3, "closed": 4}
    tps = []
    for d in run.tp_reg[p]:
        pump = run.tasks.get((id(d), K_PUMP))
        mon = run.tasks.get((id(d.transport), "mon"))
        ct = d.transport._connection._query_consent_task
        st_ev = getattr(d.transport, "_RTCIceTransport__start")
        tps.append([
            dmap[d._state],
            0 if pump is None else (3 if pump.done() else 2),
            imap[d.transport.state],
            0 if mon is None else (3 if mon.done() else 2),
            1 if (ct is not None and not ct.done()) else 0,
            1 if (st_ev is not None and not st_ev.is_set()) else 0,
        ])
    sc = []
    if pc.sctp is not None:
        stopped = pc.sctp.state == "closed"
        sc = [1 if getattr(pc.sctp, "_RTCSctpTransport__started") else 0, 1 if stopped else 0,
              sum(1 for ch in run.channels[p] if ch.readyState != "closed") if stopped else 0]
    waiters = len([c for c in run.close_open[p] if c != 0])
    return [closed, 1 if pc.signalingState == "closed" else 0, trx, tps, sc, waiters]


TP_EVENTS = (E_ICE_START, E_ICE_START_RET, E_DTLS_START, E_DTLS_START_RET, E_PUMP_END, E_MON_END, E_ICE_LOST,
             E_ICE_CONN_CLOSED, E_CAND_END)


def _referenced(run, p):
    """indices of the transports still used by a transceiver or by SCTP (transports discarded by
    bundling are not part of the connection any more: their events are dropped)"""
    pc = run.pcs[p]
    run._scan(p)
    used = set()
    for i, d in enumerate(run.tp_reg[p]):
        if any(t.receiver.transport is d for t in pc.getTransceivers()) or \
                (pc.sctp is not None and pc.sctp.transport is d):
            used.add(i)
    return used


def _filter_trace(trace, used):
    out = []
    for ev in trace:
        c = ev[0]
        if c in TP_EVENTS and ev[1] not in used:
            continue
        if c == E_CANCEL and ev[2] == K_PUMP and ev[1] not in used:
            continue
        if c in (E_STOP_CALL, E_STOP_RET) and ev[2] in (O_DTLS, O_ICE) and ev[1] not in used:
            continue
        out.append(ev)
    return out


def _config(run, p):
    pc = run.pcs[p]
    run._scan(p)
    reg = run.tp_reg[p]

    def idx(d):
        for i, x in enumerate(reg):
            if x is d:
                return i
        return len(reg)
    tps = [idx(t.receiver.transport) for t in pc.getTransceivers()]
    sc = [idx(pc.sctp.transport)] if pc.sctp is not None else []
    return [tps, len(reg), sc]


def _blank_unused(snap, used):
    snap[3] = [tp if i in used else [0, 0, 0, 0, 0, 0] for i, tp in enumerate(snap[3])]
    return snap


async def _consume(track, ended):
    from aiortc.mediastreams import MediaStreamError
    try:
        while True:
            await track.recv()
    except MediaStreamError:
        ended.append(track)


async def _scenario(case, loop, run):
    from aiortc import RTCBundlePolicy, RTCConfiguration, RTCPeerConnection
    from aiortc import rtcrtpreceiver, rtcrtpsender
    from aiortc.mediastreams import AudioStreamTrack, VideoStreamTrack
    policy, na, nv, ba, bv, dc, point, k, who, twice, fault = case[:11]
    conf = lambda: RTCConfiguration(bundlePolicy=[RTCBundlePolicy.BALANCED, RTCBundlePolicy.MAX_COMPAT,
                                                  RTCBundlePolicy.MAX_BUNDLE][policy])
    a, b = RTCPeerConnection(conf()), RTCPeerConnection(conf())
    pcs = [a, b]
    for pc in pcs:
        run.add_pc(pc)
    me = asyncio.current_task()
    tracks = [[], []]
    ended = []
    consumers = []
    for p, pc in enumerate(pcs):
        def on_track(track, p=p):
            tracks[p].append(track)
            consumers.append(asyncio.ensure_future(_consume(track, ended)))
        pc.on("track", on_track)
    local_tracks = []
    for n, cls in ((na, AudioStreamTrack), (nv, VideoStreamTrack)):
        for _ in range(n):
            t = cls()
            local_tracks.append(t)
            a.addTrack(t)
    if dc >= 1:
        chat = a.createDataChannel("chat")

        @chat.on("open")
        def _burst():
            # data in flight while close() arrives: SCTP timers are armed and re-armed (nothing may survive close())
            for _ in range(40):
                if chat.readyState == "open":
                    chat.send(b"x" * 1100)
    if dc >= 2:
        a.createDataChannel("neg", negotiated=True, id=7)
        b.createDataChannel("neg", negotiated=True, id=7)

    close_tasks = [[], []]
    ret_time = [None, None]
    fired = asyncio.Event()
    t_fire = [None]
    saved = {}

    def inject_fault():
        if fault == 1:
            saved["rr"] = rtcrtpreceiver.RtcpRrPacket
            rtcrtpreceiver.RtcpRrPacket = _boom
        elif fault == 2:
            saved["sr"] = rtcrtpsender.RtcpSrPacket
            rtcrtpsender.RtcpSrPacket = _boom
        elif fault == 3:
            saved["bye"] = rtcrtpsender.RtcpByePacket
            rtcrtpsender.RtcpByePacket = _boom

    def restore_fault():
        if "rr" in saved:
            rtcrtpreceiver.RtcpRrPacket = saved.pop("rr")
        if "sr" in saved:
            rtcrtpsender.RtcpSrPacket = saved.pop("sr")
        if "bye" in saved:
            rtcrtpsender.RtcpByePacket = saved.pop("bye")

    close_exc = [[], []]

    def start_close(p):
        async def timed():
            try:
                await pcs[p].close()
            except asyncio.CancelledError:
                raise
            except Exception as exc:        # close() must not raise
                close_exc[p].append(repr(exc))
            if ret_time[p] is None:
                ret_time[p] = time.monotonic()
        close_tasks[p].append(asyncio.ensure_future(timed()))

    def fire():
        if fired.is_set():
            return
        t_fire[0] = time.monotonic()
        for p in ([0] if who == 0 else [1] if who == 1 else [0, 1]):
            start_close(p)
            if twice:
                start_close(p)
        fired.set()

    async def at_point(i):
        if i != point or fired.is_set():
            return
        if point == 8:
            # the remote side goes away first
            other = 1 if who == 0 else 0
            start_close(other)
            await asyncio.sleep(0.3)
        if k == 0:
            fire()
            # let the close() calls run up to their first suspension before the next negotiation call
            await asyncio.sleep(0)
        elif k >= 1000:
            # at the n-th lifecycle event of a kind on (one of) the closing side(s)
            run.ev_trigger = [(k - 1000) // 10, max(1, (k - 1000) % 10),
                              [0] if who == 0 else [1] if who == 1 else [0, 1], fire]
        else:
            loop.arm(k, fire)

    nego_info = []

    async def nego():
        try:
            await at_point(0)
            offer = await a.createOffer()
            await at_point(1)
            await a.setLocalDescription(offer)
            await at_point(2)
            await b.setRemoteDescription(a.localDescription)
            for n, cls, kind in ((ba, AudioStreamTrack, "audio"), (bv, VideoStreamTrack, "video")):
                cands = [t for t in b.getTransceivers() if t.kind == kind and t.sender.track is None]
                for t in cands[:n]:
                    tr = cls()
                    local_tracks.append(tr)
                    t.sender.replaceTrack(tr)
                    t.direction = "sendrecv"
            await at_point(3)
            answer = await b.createAnswer()
            await at_point(4)
            await b.setLocalDescription(answer)
            await at_point(5)
            await a.setRemoteDescription(b.localDescription)
            await at_point(6)
            if point >= 7:
                for _ in range(200):
                    if a.connectionState == "connected" and b.connectionState == "connected":
                        break
                    await asyncio.sleep(0.02)
                if fault:
                    inject_fault()
                await asyncio.sleep(0.3)
                await at_point(7)
                await at_point(8)
            await asyncio.sleep(0.6)
        except asyncio.CancelledError:
            raise
        except Exception as exc:      # negotiation calls overtaken by close() raise
            nego_info.append(type(exc).__name__)

    nt = asyncio.ensure_future(nego())
    late = 0
    try:
        await asyncio.wait_for(asyncio.shield(nt), 12)
    except asyncio.TimeoutError:
        pass
    except Exception:
        pass
    if not fired.is_set():
        late = 1
        loop.armed = False
        run.ev_trigger = None
        fire()
    # ---- wait for the requested close() calls
    status = 0
    req = [p for p in (0, 1) if close_tasks[p]]
    try:
        await asyncio.wait_for(asyncio.gather(*[t for p in req for t in close_tasks[p]]), CLOSE_TIMEOUT)
    except asyncio.TimeoutError:
        status = 1
    if not nt.done():
        nt.cancel()
    try:
        await nt
    except BaseException:
        pass
    # ---- a further close() must return without suspending
    second = [1, 1]
    if status == 0:
        for p in req:
            coro = pcs[p].close()
            try:
                coro.send(None)
                second[p] = 0
                # it suspended: let it finish in the background
                asyncio.ensure_future(_drive(coro))
            except StopIteration:
                pass
    states_at_return = {p: [pcs[p].signalingState, pcs[p].iceConnectionState, pcs[p].connectionState] for p in req}
    # ---- close whatever is still open (also a close() "after the remote side has gone away")
    rest = [p for p in (0, 1) if p not in req]
    if status == 0:
        for p in rest:
            start_close(p)
        try:
            await asyncio.wait_for(asyncio.gather(*[t for p in rest for t in close_tasks[p]]), CLOSE_TIMEOUT)
        except asyncio.TimeoutError:
            status = 2
    restore_fault()
    # ---- let cancelled / doomed tasks finish
    def leftovers():
        return [t for t in asyncio.all_tasks() if t is not me and t not in consumers and not t.done()
                and not any(t is ct for cl in close_tasks for ct in cl)]
    t_end = time.monotonic() + GRACE
    while time.monotonic() < t_end:
        await asyncio.sleep(0.05)
        if status == 0 and not leftovers() and all(c.done() for c in consumers) \
                and not [t for t in threading.enumerate() if t.name.endswith("-decoder")]:
            break
    await asyncio.sleep(0.05)
    run.recording = False
    left = leftovers()
    left_names = sorted(getattr(t.get_coro(), "__qualname__", str(t.get_coro())) for t in left)
    # timers armed by aiortc objects that survived close() (call_later handles nobody cancelled)
    stray_timers = []
    if status == 0 and all(close_tasks[p] for p in (0, 1)):
        for h in list(getattr(loop, "_scheduled", [])):
            cb = getattr(h, "_callback", None)
            owner = getattr(cb, "__self__", None)
            if h.cancelled() or owner is None:
                continue
            if (getattr(type(owner), "__module__", "") or "").startswith("aiortc"):
                stray_timers.append("timer:" + getattr(cb, "__qualname__", repr(cb)))
    left_names = left_names + sorted(stray_timers)
    threads = sorted(t.name for t in threading.enumerate() if t.name.endswith("-decoder"))
    obs = []
    for p in (0, 1):
        pc = pcs[p]
        called = 1 if close_tasks[p] else 0
        returned = 1 if (close_tasks[p] and all(t.done() for t in close_tasks[p])) else 0
        st = [pc.signalingState, pc.iceConnectionState, pc.connectionState]
        st0 = states_at_return.get(p, st)
        obs.append([
            called, returned, second[p],
            1 if st[0] == "closed" and st0[0] == "closed" else 0,
            1 if st[1] == "closed" and st0[1] == "closed" else 0,
            1 if st[2] == "closed" and st0[2] == "closed" else 0,
            sum(1 for ch in run.channels[p] if ch.readyState != "closed"),
            sum(1 for t in tracks[p] if t.readyState != "ended"),
            len(run.events_after[p]),
            len(close_exc[p]),
        ])
    for t in local_tracks:
        t.stop()
    for c in consumers:
        c.cancel()
    close_ms = 0
    if t_fire[0] is not None and all(ret_time[p] is not None for p in req):
        close_ms = int(1000 * (max(ret_time[p] for p in req) - t_fire[0]))
    skip = [1 if (run.rebundle[p] or (run.ext_stopped[p] & _referenced(run, p)) or
                  (run.ntrx_at_close[p] is not None and
                   run.ntrx_at_close[p] != len(pcs[p].getTransceivers()))) else 0 for p in (0, 1)]
    detail = {"close_exc": close_exc, "left": left_names, "threads": threads, "events_after": run.events_after, "nego": nego_info,
              "states": [[pc.signalingState, pc.iceConnectionState, pc.connectionState] for pc in pcs]}
    return {
        "status": status, "late": late, "obs": obs, "tasks_left": len(left) + len(stray_timers), "threads_left": len(threads),
        "close_ms": close_ms, "skip": skip, "detail": detail,
        "configs": [_config(run, p) for p in (0, 1)],
        "snaps": [_blank_unused(_snapshot(run, p), _referenced(run, p)) for p in (0, 1)],
        "traces": [_filter_trace(run.trace[p], _referenced(run, p)) for p in (0, 1)],
    }


async def _drive(coro):
    try:
        await coro
    except BaseException:
        pass


def run_dcclose_probe(variant):
    """channel.close() immediately followed by close() of the connection, on an open channel of a real connected
    pair (variant 0: the side that created the channel, 1: the side that received it).  Returns the readyState of
    every channel of both sides after both connections are closed, or a string describing what went wrong."""
    import asyncio as aio
    logging.disable(logging.CRITICAL)

    async def go():
        from aiortc import RTCPeerConnection
        a, b = RTCPeerConnection(), RTCPeerConnection()
        got = []
        b.on("datachannel", lambda ch: got.append(ch))
        chat = a.createDataChannel("chat")
        opened = aio.Event()
        chat.on("open", lambda: opened.set())
        try:
            await a.setLocalDescription(await a.createOffer())
            await b.setRemoteDescription(a.localDescription)
            await b.setLocalDescription(await b.createAnswer())
            await a.setRemoteDescription(b.localDescription)
            await aio.wait_for(opened.wait(), 15)
            for _ in range(200):
                if got and got[0].readyState == "open":
                    break
                await aio.sleep(0.01)
            if not got:
                return "no datachannel event on the answerer"
            first, second = (a, b) if variant == 0 else (b, a)
            (chat if variant == 0 else got[0]).close()
            await aio.wait_for(first.close(), CLOSE_TIMEOUT)
            await aio.wait_for(second.close(), CLOSE_TIMEOUT)
            return [chat.readyState] + [ch.readyState for ch in got]
        finally:
            for pc in (a, b):
                try:
                    await aio.wait_for(pc.close(), 5)
                except BaseException:
                    pass

    loop = asyncio.new_event_loop()
    loop.set_exception_handler(lambda l, ctx: None)
    asyncio.set_event_loop(loop)
    try:
        return loop.run_until_complete(go())
    except BaseException as exc:       # noqa
        return "probe failed: " + repr(exc)[:120]
    finally:
        try:
            pend = [t for t in asyncio.all_tasks(loop) if not t.done()]
            for t in pend:
                t.cancel()
            if pend:
                loop.run_until_complete(asyncio.wait(pend, timeout=1.0))
        except BaseException:
            pass
        loop.close()


def run_reneg_probe(kind):
    """a second offer / answer round on a connected media connection, then close(): every track the answerer was
    handed (by `track` events of either round) must have ended.  Returns their readyStates or an error string."""
    import asyncio as aio
    logging.disable(logging.CRITICAL)

    async def go():
        from aiortc import RTCPeerConnection
        from aiortc.mediastreams import AudioStreamTrack, VideoStreamTrack
        a, b = RTCPeerConnection(), RTCPeerConnection()
        got = []
        b.on("track", lambda t: got.append(t))
        a.addTrack(AudioStreamTrack() if kind == 0 else VideoStreamTrack())

        async def round_(x, y):
            await x.setLocalDescription(await x.createOffer())
            await y.setRemoteDescription(x.localDescription)
            await y.setLocalDescription(await y.createAnswer())
            await x.setRemoteDescription(y.localDescription)
        try:
            await round_(a, b)
            for _ in range(600):
                if a.connectionState == "connected" and b.connectionState == "connected":
                    break
                await aio.sleep(0.01)
            await round_(a, b)
            await aio.sleep(0.05)
            await aio.wait_for(b.close(), CLOSE_TIMEOUT)
            await aio.wait_for(a.close(), CLOSE_TIMEOUT)
            from aiortc.mediastreams import MediaStreamError
            states = []
            for t in got:
                # a track has ended when recv() raises MediaStreamError (after the frames that were still queued)
                st = "blocked"
                try:
                    async def drain(t=t):
                        while True:
                            await t.recv()
                    await aio.wait_for(drain(), 3)
                except MediaStreamError:
                    st = "ended"
                except aio.TimeoutError:
                    st = "blocked: recv() does not return"
                states.append(st)
            return states
        finally:
            for pc in (a, b):
                try:
                    await aio.wait_for(pc.close(), 5)
                except BaseException:
                    pass

    loop = asyncio.new_event_loop()
    loop.set_exception_handler(lambda l, ctx: None)
    asyncio.set_event_loop(loop)
    try:
        return loop.run_until_complete(go())
    except BaseException as exc:       # noqa
        return "probe failed: " + repr(exc)[:120]
    finally:
        try:
            pend = [t for t in asyncio.all_tasks(loop) if not t.done()]
            for t in pend:
                t.cancel()
            if pend:
                loop.run_until_complete(asyncio.wait(pend, timeout=1.0))
        except BaseException:
            pass
        loop.close()


def run_real(case):
    """One real run in a fresh event loop. Returns the observation dict."""
    global RUN
    install()
    logging.disable(logging.CRITICAL)
    loop = CountingLoop()
    loop.set_task_factory(_task_factory)
    loop.set_exception_handler(lambda l, ctx: None)
    asyncio.set_event_loop(loop)
    run = Run()
    RUN = run
    try:
        return loop.run_until_complete(_scenario(case, loop, run))
    finally:
        run.recording = False
        RUN = None
        try:
            pend = [t for t in asyncio.all_tasks(loop) if not t.done()]
            for t in pend:
                t.cancel()
            if pend:
                loop.run_until_complete(asyncio.wait(pend, timeout=1.0))
            loop.run_until_complete(loop.shutdown_asyncgens())
            loop.run_until_complete(loop.shutdown_default_executor())
        except BaseException:
            pass
        # a decoder thread that was leaked would block interpreter exit: release it
        try:
            for pc in run.pcs:
                for t in pc.getTransceivers():
                    th = getattr(t.receiver, "_RTCRtpReceiver__decoder_thread")
                    if th is not None:
                        getattr(t.receiver, "_RTCRtpReceiver__decoder_queue").put(None)
        except BaseException:
            pass
        loop.close()
        asyncio.set_event_loop(None)


EVENT_CODE_NAMES = ["ice_start", "ice_start_ret", "dtls_start", "dtls_start_ret", "send", "receive", "sctp_start",
                    "task_begin", "task_end", "pump_end", "monitor_end", "remote_bye", "ice_lost", "nego_sig",
                    "channel_new", "close_call", "close_ret", "stop_call", "stop_ret", "cancel",
                    "ice_conn_closed", "sctp_down", "cand_end"]
EVENT_NAMES = {E_ICE_START: "RTCIceTransport.start()", E_ICE_START_RET: "ICE connect() finished",
               E_DTLS_START: "RTCDtlsTransport.start()", E_DTLS_START_RET: "DTLS handshake finished",
               E_SEND: "RTCRtpSender.send()", E_RECEIVE: "RTCRtpReceiver.receive()",
               E_SCTP_START: "RTCSctpTransport.start()", E_TASK_BEGIN: "a sender/receiver task begins",
               E_CAND_END: "end of remote candidates", E_NEGO_SIG: "signalling state change"}
POINT_NAMES = ["before negotiation", "after createOffer", "after offerer.setLocalDescription",
               "after answerer.setRemoteDescription", "after createAnswer", "after answerer.setLocalDescription",
               "after offerer.setRemoteDescription (connecting)", "connected, media/data flowing",
               "after the remote side closed"]


class C19(Check):
    prop = "C19"
    props_file = "Props/C19.v"
    models = ["Close"]
    quick_cases = 36
    thorough_cases = 700
    case_timeout = 90.0
    level_note = (
        "PARTIAL. Proved (Coq, all schedules, any number of transceivers/transports): the close()/stop() handshake "
        "logic of Model/Close.v terminates, is idempotent and leaves no modelled task/thread running. The tie to the "
        "implementation is trace inclusion plus direct observation on real RTCPeerConnection pairs, which is TESTING: "
        "the lifecycle events of each run are recorded from outside and must be a path of the model whose final "
        "configuration equals the state of the real objects; the property's observables (close() returns, second "
        "close() immediate, states closed, channels closed, tracks ended, no events / tasks / decoder threads "
        "afterwards) are checked directly. Not covered by any theorem: the asyncio scheduler itself (the model lets "
        "every await yield; it assumes the ICE monitor registers its waiter before connection.close() completes - "
        "FIFO ready queue), thread joins, OpenSSL / aioice / PyAV internals, SCTP's deferred tasks and timers, the "
        "__connect coroutine as a task (its calls are free environment events), transports re-bundled while close() "
        "runs (such runs skip the replay and keep the oracle).")
    rule = ("real peer-connection pairs: 0-2 audio and 0-2 video transceivers offered, answerer sending on a subset, "
            "0-2 data channels, 3 bundle policies, close() at 9 negotiation points exactly or at the k-th event-loop "
            "callback after it (k<=250) or exactly at a lifecycle event (ICE/DTLS start or completion, send(), "
            "receive(), sctp.start(), task begin, ...), on offerer / answerer / both, once or twice concurrently, optional injected "
            "failure of an RTCP task; distinct by (case, recorded traces); non-trivial = close() had at least one "
            "started task or transport to stop (a cancel or an ICE shutdown occurs in the trace)")

    def __init__(self):
        self.stash = {}

    # ------------------------------------------------------------ generator
    def gen_case(self, rng, i):
        policy = rng.choice([0, 1, 1, 2])
        na = rng.choice([0, 1, 1, 2])
        nv = rng.choice([0, 0, 1, 1, 2]) if na < 2 else rng.choice([0, 1])
        dc = rng.choice([0, 0, 1, 1, 2])
        if na + nv + dc == 0:
            na = 1
        ba = rng.randrange(0, na + 1)
        bv = rng.randrange(0, nv + 1)
        # stratified over the negotiation points so that a quick run visits all of them
        point = ((i % 100000) * 5 + rng.randrange(0, 2)) % 9 if rng.random() < 0.8 else rng.choice([5, 6, 6, 7])
        mode = rng.random()
        if mode < 0.3:
            k = 0
        elif mode < 0.7:
            k = rng.randrange(1, 40)
        else:
            k = rng.randrange(40, 250)
        if point >= 7 and k > 60:
            k = rng.randrange(0, 60)
        if point <= 6 and rng.random() < 0.3:
            # close() invoked exactly at a lifecycle event (ICE/DTLS start or its completion, send(),
            # receive(), sctp.start(), a task body beginning, end of candidates, a signalling change)
            k = 1000 + 10 * rng.choice([E_ICE_START, E_ICE_START_RET, E_DTLS_START, E_DTLS_START_RET,
                                        E_DTLS_START_RET, E_SEND, E_SEND, E_RECEIVE, E_RECEIVE, E_SCTP_START,
                                        E_TASK_BEGIN, E_CAND_END, E_NEGO_SIG]) + rng.choice([1, 1, 2])
            point = rng.choice([0, 2, 3, 5])
        who = rng.choice([0, 1, 2, 2])
        twice = 1 if rng.random() < 0.3 else 0
        fault = rng.choice([0, 0, 1, 2, 3]) if point >= 7 else 0
        # the last element only makes every generated case distinct (results are stashed per case)
        return [policy, na, nv, ba, bv, dc, point, k, who, twice, fault, i]

    def extra_search_cases(self, rng, n):
        return [self.gen_case(rng, 100000 + i) for i in range(min(n, 120))]

    def shrink_candidates(self, case):
        if case and case[0] in ("dcclose-probe", "reneg-probe"):
            return
        # smaller configurations first, then simpler trigger
        for idx, lo in ((1, 0), (2, 0), (3, 0), (4, 0), (5, 0), (9, 0), (10, 0)):
            if case[idx] > lo:
                c = list(case)
                c[idx] -= 1
                if c[1] + c[2] + c[5] > 0 and c[3] <= c[1] and c[4] <= c[2]:
                    yield c

    def describe_case(self, case):
        if case and case[0] == "reneg-probe":
            return {"case": case, "probe": "two offer/answer rounds on a connected " + ["audio", "video"][case[1]] + " connection, then close()"}
        if case and case[0] == "dcclose-probe":
            return {"case": case, "probe": "channel.close() then close() on the " + ["offerer", "answerer"][case[1]]}
        policy, na, nv, ba, bv, dc, point, k, who, twice, fault = case[:11]
        return {"case": case, "bundlePolicy": ["balanced", "max-compat", "max-bundle"][policy],
                "offerer_tracks": {"audio": na, "video": nv}, "answerer_tracks": {"audio": ba, "video": bv},
                "data_channels": dc, "close_at": POINT_NAMES[point] + ("" if k == 0 else f" + {k} event-loop callbacks" if k < 1000 else
                                                 f", then at occurrence {(k - 1000) % 10} of lifecycle event "
                                                 f"{EVENT_NAMES.get((k - 1000) // 10, (k - 1000) // 10)}"),
                "closing_side": ["offerer", "answerer", "both concurrently"][who], "twice_concurrently": bool(twice),
                "injected_task_failure": ["none", "receiver _run_rtcp raises", "sender _run_rtcp raises",
                                          "sender BYE raises"][fault]}

    # ------------------------------------------------------------ implementation
    def safe_impl(self, case):
        res = None
        for attempt in (0, 1):
            try:
                res = run_real(case)
            except BaseException as exc:   # harness failure: report as a crash of the run
                res = {"status": 9, "late": 0, "obs": [], "tasks_left": 0, "threads_left": 0, "close_ms": 0,
                       "skip": [1, 1], "detail": {"error": repr(exc)}, "configs": [], "snaps": [], "traces": []}
            res["attempts"] = attempt + 1
            if res["status"] == 0:
                break
        self.stash[json.dumps(case)] = res
        return self.impl_out(res)

    def impl_run(self, case):
        if case and case[0] == "dcclose-probe":
            return run_dcclose_probe(case[1])
        if case and case[0] == "reneg-probe":
            return run_reneg_probe(case[1])
        return self.safe_impl(case)

    def extra_checks(self, ctx):
        """`every data channel is closed` when the application closes a channel and then, without waiting for the stream
        reset to be acknowledged, the connection: a real connected pair, both variants"""
        out = []
        self.dcclose_probe = []
        for variant in (0, 1):
            res = run_dcclose_probe(variant)
            self.dcclose_probe.append(res)
            if isinstance(res, list) and any(st != "closed" for st in res):
                out.append(("channel-not-closed", f"channel.close() then close() on the {['offerer', 'answerer'][variant]}: "
                                                  f"data channel states after both connections closed: {res}",
                            ["dcclose-probe", variant]))
        # a second negotiation round before close(): all received tracks end
        self.reneg_probe = []
        for kind in (0, 1):
            res = run_reneg_probe(kind)
            self.reneg_probe.append(res)
            if isinstance(res, list) and any(st != "ended" for st in res):
                out.append(("track-not-ended", f"two offer/answer rounds on a connected {['audio', 'video'][kind]} connection, then "
                                               f"close(): states of the tracks handed to the answerer: {res}", ["reneg-probe", kind]))
        return out

    @staticmethod
    def impl_out(res):
        pcs = []
        for p in range(len(res["snaps"])):
            n = len(res["traces"][p])
            if res["skip"][p]:
                pcs.append([])
            else:
                pcs.append([n, n, res["snaps"][p]])
        obs = [res["status"], res["attempts"], res["tasks_left"], res["threads_left"], res["obs"]]
        return [pcs, obs]

    def encode(self, case):
        res = self.stash.get(json.dumps(case))
        if res is None:
            return []
        out = []
        for p in range(len(res["snaps"])):
            if res["skip"][p]:
                continue
            tps, ntp, sc = res["configs"][p]
            out.append([1, tps, ntp, sc, res["traces"][p]])
        return out

    def model_canon(self, case, out):
        res = self.stash.get(json.dumps(case))
        if res is None:
            return out
        it = iter(out)
        pcs = []
        for p in range(len(res["snaps"])):
            if res["skip"][p]:
                pcs.append([])
                continue
            n, acc, cfg = next(it)
            pcs.append([n, acc, cfg[:6]])      # drop the model-only measure
        return [pcs, self.impl_out(res)[1]]

    # ------------------------------------------------------------ oracle: the property on the real objects
    def oracle(self, case, impl_out):
        if case and case[0] == "reneg-probe":
            if isinstance(impl_out, list) and any(st != "ended" for st in impl_out):
                return ("track-not-ended", f"two offer/answer rounds, then close(): states of the received tracks: {impl_out}")
            return None
        if case and case[0] == "dcclose-probe":
            if isinstance(impl_out, list) and any(st != "closed" for st in impl_out):
                return ("channel-not-closed", f"channel.close() then close(): data channel states after both connections "
                                              f"closed: {impl_out}")
            return None
        if not impl_out or len(impl_out) < 2:
            return None
        status, attempts, tasks_left, threads_left, obs = impl_out[1]
        det = self.stash.get(json.dumps(case), {}).get("detail", {})
        if status == 9:
            return ("harness-error", "the run could not be executed: %s" % det.get("error"))
        if status in (1, 2):
            return ("close-timeout", f"close() did not return within {CLOSE_TIMEOUT}s in two consecutive runs "
                                     f"(pending: {det.get('left')})")
        for p, o in enumerate(obs):
            called, returned, second, sig, ice, conn, chans, live, after, raised = o
            side = ["offerer", "answerer"][p]
            if not called:
                continue
            if raised:
                return ("close-raised", f"close() on the {side} raised {det.get('close_exc', [[], []])[p]}")
            if not returned:
                return ("close-timeout", f"close() on the {side} did not return")
            if not second:
                return ("second-close-blocks", f"a further close() on the {side} suspended instead of returning")
            if not (sig and ice and conn):
                return ("state-not-closed", f"{side}: signalingState/iceConnectionState/connectionState = "
                                            f"{det.get('states', [None, None])[p]} after close()")
            if chans:
                return ("channel-not-closed", f"{side}: {chans} data channel(s) not closed after close()")
            if live:
                return ("track-not-ended", f"{side}: {live} received track(s) not ended after close()")
            if after:
                return ("event-after-close", f"{side}: events fired after close() returned: "
                                             f"{det.get('events_after', [[], []])[p]}")
        if tasks_left:
            return ("task-left-running", f"asyncio tasks still running {GRACE}s after close(): {det.get('left')}")
        if threads_left:
            return ("thread-left-running", f"decoder threads still alive after close(): {det.get('threads')}")
        return None

    def nontrivial(self, case, impl_out):
        res = self.stash.get(json.dumps(case))
        if not res:
            return False
        return any(ev[0] in (E_CANCEL, E_ICE_CONN_CLOSED) for tr in res["traces"] for ev in tr)

    def distribution(self, cases, outs):
        d = {"runs": 0, "retried": 0, "late_trigger": 0, "replay_skipped_pcs": 0, "events": 0,
             "close_ms_max": 0, "by_point": {}, "by_side": {}, "by_policy": {}, "twice": 0, "fault": {},
             "exact_point": 0, "kth_callback": 0, "at_lifecycle_event": 0, "nego_call_overtaken": 0, "cancels": 0, "ice_shutdowns": 0,
             "tasks_begun": 0, "pumps_ended": 0, "closes_with_task_not_yet_started": 0, "event_kinds": {},
             "channel_close_then_close_probe": getattr(self, "dcclose_probe", None),
             "renegotiate_then_close_probe": getattr(self, "reneg_probe", None)}
        for c in cases:
            res = self.stash.get(json.dumps(c))
            if not res:
                continue
            d["runs"] += 1
            d["retried"] += 1 if res["attempts"] > 1 else 0
            d["late_trigger"] += res["late"]
            d["replay_skipped_pcs"] += sum(res["skip"])
            d["close_ms_max"] = max(d["close_ms_max"], res["close_ms"])
            d["by_point"][str(c[6])] = d["by_point"].get(str(c[6]), 0) + 1
            d["by_side"][str(c[8])] = d["by_side"].get(str(c[8]), 0) + 1
            d["by_policy"][str(c[0])] = d["by_policy"].get(str(c[0]), 0) + 1
            d["twice"] += c[9]
            d["fault"][str(c[10])] = d["fault"].get(str(c[10]), 0) + 1
            d["exact_point" if c[7] == 0 else "kth_callback" if c[7] < 1000 else "at_lifecycle_event"] += 1
            d["nego_call_overtaken"] += 1 if res["detail"].get("nego") else 0
            for tr in res["traces"]:
                for ev in tr:
                    name = EVENT_CODE_NAMES[ev[0]] if ev[0] < len(EVENT_CODE_NAMES) else str(ev[0])
                    d["event_kinds"][name] = d["event_kinds"].get(name, 0) + 1
                d["events"] += len(tr)
                begun = set()
                for ev in tr:
                    if ev[0] == E_CANCEL:
                        d["cancels"] += 1
                    elif ev[0] == E_ICE_CONN_CLOSED:
                        d["ice_shutdowns"] += 1
                    elif ev[0] == E_TASK_BEGIN:
                        d["tasks_begun"] += 1
                        begun.add((ev[1], ev[2]))
                    elif ev[0] == E_PUMP_END:
                        d["pumps_ended"] += 1
                # stop() called while a task it must wait for had not begun yet
                created = set()
                seen_stop = False
                for ev in tr:
                    if ev[0] == E_STOP_CALL and ev[2] in (O_RECV, O_SEND):
                        seen_stop = True
                    if ev[0] == E_TASK_BEGIN and seen_stop:
                        d["closes_with_task_not_yet_started"] += 1
                        break
        return d


if __name__ == "__main__":
    rc = C19().main(sys.argv[1:])
    sys.stdout.flush()
    sys.stderr.flush()
    os._exit(rc)
