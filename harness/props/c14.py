"""C14 -- JSEP signalling state machine of RTCPeerConnection.

Correspondence of Model/Jsep.v against REAL RTCPeerConnection pairs (offline, loop-back
host candidates only) and the implementation-level oracle for the property.

A case is [cfg, ops].  cfg selects how the two peers are populated (tracks / data channel).
An op is
  [p, 0]                 createOffer on peer p
  [p, 1]                 createAnswer
  [p, 2, src, edit, ty]  setLocalDescription(description)
  [p, 3]                 setLocalDescription()            (implicit offer / answer)
  [p, 4, src, edit, ty]  setRemoteDescription(description)
  [p, 5]                 close
src  0 = an offer, 1 = an answer (see _pick: always REAL SDP text produced by one of the two
         peer connections; setLocal takes the peer's own descriptions, setRemote the other's)
edit 0 none, 1 drop the last m-section, 2 drop a=ice-ufrag, 3 drop a=rtcp-mux, 4 drop a=setup,
     5 a=setup:actpass
ty   -1 keep the type, 1 relabel as "pranswer", 3 relabel as "rollback" (outside the property's
     alphabet: used only in a small part of the random stream, for the model tie)
"""
import asyncio
import itertools
import json
import multiprocessing
import os
import threading

from harness.framework import Check, CaseTimeout

KINDS = {"audio": 0, "video": 1, "application": 2}
SETUP = {"actpass": 1, "active": 2, "passive": 3}
TYPES = {"offer": 0, "pranswer": 1, "answer": 2, "rollback": 3}
TYPE_NAMES = {v: k for k, v in TYPES.items()}
SIG = {"stable": 0, "have-local-offer": 1, "have-remote-offer": 2, "have-local-pranswer": 3,
       "have-remote-pranswer": 4, "closed": 5}
NCFG = 8

OK, INVALID, VALUE, OTHER = 0, 1, -1, -2
CASE_DEADLINE = 60.0


# ------------------------------------------------------------------ SDP text tools (independent of aiortc.sdp)
def edit_sdp(text, edit):
    lines = text.split("\r\n")
    if edit == 1:
        idx = [i for i, l in enumerate(lines) if l.startswith("m=")]
        if idx:
            lines = lines[:idx[-1]] + [""]
    elif edit == 2:
        lines = [l for l in lines if not l.startswith("a=ice-ufrag:")]
    elif edit == 3:
        lines = [l for l in lines if l != "a=rtcp-mux"]
    elif edit == 4:
        lines = [l for l in lines if not l.startswith("a=setup:")]
    elif edit == 5:
        lines = ["a=setup:actpass" if l.startswith("a=setup:") else l for l in lines]
    elif edit in (6, 7, 8):
        # the same defects in the LAST media section only (the other sections of the BUNDLE group stay well formed)
        idx = [i for i, l in enumerate(lines) if l.startswith("m=")]
        cut = idx[-1] if idx else 0
        drop = {6: lambda l: l.startswith("a=ice-ufrag:"), 7: lambda l: l == "a=rtcp-mux", 8: lambda l: l.startswith("a=setup:")}[edit]
        lines = lines[:cut] + [l for l in lines[cut:] if not drop(l)]
    return "\r\n".join(lines)


def scan_sdp(text, midcodes):
    """-> [[kind, mid, ice_ok, dtls, mux], ...] read off the SDP text."""
    lines = [l for l in text.replace("\r\n", "\n").split("\n") if l]
    sess = {"ufrag": "", "pwd": "", "setup": None}
    out = []
    cur = None
    for l in lines:
        if l.startswith("m="):
            kind = l[2:].split(" ")[0]
            cur = {"kind": KINDS.get(kind, 9), "mid": None, "ufrag": sess["ufrag"], "pwd": sess["pwd"],
                   "setup": sess["setup"], "mux": 0}
            out.append(cur)
            continue
        tgt = cur if cur is not None else sess
        if l.startswith("a=ice-ufrag:"):
            tgt["ufrag"] = l.split(":", 1)[1]
        elif l.startswith("a=ice-pwd:"):
            tgt["pwd"] = l.split(":", 1)[1]
        elif l.startswith("a=setup:"):
            tgt["setup"] = l.split(":", 1)[1]
        elif cur is not None and l == "a=rtcp-mux":
            cur["mux"] = 1
        elif cur is not None and l.startswith("a=mid:"):
            cur["mid"] = l.split(":", 1)[1]
    res = []
    for m in out:
        mid = m["mid"]
        if mid not in midcodes:
            midcodes[mid] = int(mid) if (mid is not None and mid.isdigit() and len(mid) < 6) else 100000 + len(midcodes)
        res.append([m["kind"], midcodes[mid], 1 if (m["ufrag"] and m["pwd"]) else 0,
                    SETUP.get(m["setup"], 0), m["mux"]])
    return res


# ------------------------------------------------------------------ driving the real peer connections
def _classify(exc):
    from aiortc.exceptions import InvalidStateError
    if isinstance(exc, CaseTimeout):
        raise exc
    if isinstance(exc, InvalidStateError):
        return INVALID
    if isinstance(exc, ValueError) and not isinstance(exc, UnicodeError):
        return VALUE
    return OTHER


SLOTS = ("_RTCPeerConnection__pendingLocalDescription", "_RTCPeerConnection__currentLocalDescription",
         "_RTCPeerConnection__pendingRemoteDescription", "_RTCPeerConnection__currentRemoteDescription")


async def _run_pair(cfg, ops):
    from aiortc import RTCConfiguration, RTCPeerConnection, RTCSessionDescription
    from aiortc.mediastreams import AudioStreamTrack, VideoStreamTrack

    conf = RTCConfiguration(iceServers=[])
    pcs = [RTCPeerConnection(conf), RTCPeerConnection(conf)]
    for pc in pcs:
        # aiortc closes a connection by itself (a task running close()) once the remote side's DTLS
        # close arrives.  That environment-initiated close would run concurrently with the scripted
        # calls and make the run depend on timing; the property is about call SEQUENCES, so the
        # self-shutdown is switched off here (concurrent close belongs to C19).
        pc._RTCPeerConnection__closeTask = "disabled-by-harness"
    # cfg 0-3: four set-ups; cfg 4-7: the same with the two peers swapped
    a, b = (pcs[1], pcs[0]) if cfg >= 4 else (pcs[0], pcs[1])
    base = cfg % 4
    if base == 0:
        a.addTrack(AudioStreamTrack())
        a.createDataChannel("chat")
        b.addTrack(AudioStreamTrack())
    elif base == 1:
        a.createDataChannel("chat")
    elif base == 2:
        a.addTrack(AudioStreamTrack())
        b.addTrack(AudioStreamTrack())
    else:
        a.addTrack(AudioStreamTrack())
        a.addTransceiver("video", direction="recvonly")
        a.createDataChannel("chat")
        b.addTrack(AudioStreamTrack())       # same order on both sides: the mids of the two peers
        b.addTrack(VideoStreamTrack())       # agree (mid collisions under glare belong to C03)
    events = [0, 0]
    for i in (0, 1):
        def on_change(i=i):
            events[i] += 1
        pcs[i].on("signalingstatechange", on_change)

    midcodes = {}
    known = {}          # id(parsed description object) -> description handle
    keep = []           # keeps those objects alive so that id() stays unique
    # every peer starts with one offer in hand (createOffer does not touch the signalling state)
    created_offer = [await pcs[0].createOffer(), await pcs[1].createOffer()]
    created_answer = [None, None]
    descs = []
    obs = []
    notes = []

    def pick(owner, src, for_remote):
        """REAL text from peer `owner`: (sdp, type).  An applied description (with candidates) is
        preferred for signalling to the other side, like an application would do."""
        pc = pcs[owner]
        want = "offer" if src == 0 else "answer"
        if for_remote:
            ld = pc.localDescription
            if ld is not None and ld.type == want:
                return ld.sdp, want
        if src == 0:
            return created_offer[owner].sdp, "offer"
        if created_answer[owner] is not None:
            return created_answer[owner].sdp, "answer"
        # no answer exists yet: the offer text relabelled (as tests/test_rtcpeerconnection.py does)
        return created_offer[owner].sdp, "answer"

    try:
        for n, op in enumerate(ops):
            p, code = op[0], op[1]
            pc = pcs[p]
            handle = n + 1
            passed = None       # [type, media] of the description handed to the call
            ev0 = events[p]
            res = OK
            try:
                if code == 0:
                    created_offer[p] = await pc.createOffer()
                elif code == 1:
                    created_answer[p] = await pc.createAnswer()
                elif code == 3:
                    await pc.setLocalDescription()
                elif code == 5:
                    await pc.close()
                else:
                    src, edit, ty = op[2], op[3], op[4]
                    text, typ = pick(p if code == 2 else 1 - p, src, code == 4)
                    text = edit_sdp(text, edit)
                    if ty >= 0:
                        typ = TYPE_NAMES[ty]
                    passed = [TYPES[typ], scan_sdp(text, midcodes)]
                    d = RTCSessionDescription(sdp=text, type=typ)
                    if code == 2:
                        await pc.setLocalDescription(d)
                    else:
                        await pc.setRemoteDescription(d)
            except CaseTimeout:
                raise
            except Exception as exc:        # noqa: BLE001 - classified, never swallowed
                res = _classify(exc)
                if res == OTHER:
                    notes.append("%d:%s" % (n, type(exc).__name__))
            if code == 3 and res == OK:
                ld = pc.localDescription
                passed = [TYPES[ld.type], scan_sdp(ld.sdp, midcodes)]
            # slots -> handles
            slots = []
            for name in SLOTS:
                o = getattr(pc, name)
                if o is None:
                    slots.append([])
                    continue
                if id(o) not in known:
                    keep.append(o)
                    good = (passed is not None and TYPES.get(o.type) == passed[0] and
                            [[KINDS.get(m.kind, 9), midcodes.get(m.rtp.muxId, -7)] for m in o.media] ==
                            [m[:2] for m in passed[1]])
                    known[id(o)] = handle if good else -1
                slots.append([known[id(o)]])
            # the public localDescription / remoteDescription must show the pending-or-current slot
            vis = []
            for pub, pend, cur in ((pc.localDescription, SLOTS[0], SLOTS[1]), (pc.remoteDescription, SLOTS[2], SLOTS[3])):
                o = getattr(pc, pend) or getattr(pc, cur)
                if pub is None and o is None:
                    vis.append([])
                elif pub is None or o is None or pub.type != o.type or \
                        [m[:2] for m in scan_sdp(pub.sdp, midcodes)] != \
                        [[KINDS.get(m.kind, 9), midcodes.get(m.rtp.muxId, -7)] for m in o.media]:
                    vis.append([-1])
                else:
                    vis.append([TYPES[pub.type]])
            obs.append([res, events[p] - ev0, SIG[pc.signalingState]] + slots + vis)
            descs.append([handle] + passed if passed is not None else [])
    finally:
        for pc in pcs:
            try:
                await pc.close()
            except CaseTimeout:
                raise
            except Exception:       # noqa: BLE001
                notes.append("close-raised")
    return descs, obs, notes


_BASE_THREADS = [None]


def run_case(case):
    """Run one case in a fresh event loop; nothing survives the case."""
    cfg, ops = case
    if _BASE_THREADS[0] is None:
        _BASE_THREADS[0] = threading.active_count()
    loop = asyncio.new_event_loop()
    loop.set_exception_handler(lambda l, c: None)
    leak = 0
    try:
        asyncio.set_event_loop(loop)
        try:
            descs, obs, notes = loop.run_until_complete(asyncio.wait_for(_run_pair(cfg, ops), CASE_DEADLINE))
        except asyncio.TimeoutError:
            descs, obs, notes = [], [[-3, "a call did not return within %ss" % CASE_DEADLINE]], []
        pend = [t for t in asyncio.all_tasks(loop) if not t.done()]
        for t in pend:
            t.cancel()
        if pend:
            loop.run_until_complete(asyncio.gather(*pend, return_exceptions=True))
        loop.run_until_complete(loop.shutdown_asyncgens())
        loop.run_until_complete(loop.shutdown_default_executor())
        if [t for t in asyncio.all_tasks(loop) if not t.done()]:
            leak = 1
    finally:
        asyncio.set_event_loop(None)
        loop.close()
    if threading.active_count() > _BASE_THREADS[0]:
        for t in threading.enumerate():
            if t is not threading.current_thread() and not t.daemon:
                t.join(1.0)
        if threading.active_count() > _BASE_THREADS[0]:
            leak = 2
    return [descs, obs, leak, notes]


def _warm_up():
    """Pool initializer: import aiortc (and PyAV) and run one negotiation outside any deadline."""
    run_case([0, [[0, 3], [1, 4, 0, 0, -1], [1, 3], [0, 4, 1, 0, -1]]])


def _worker(chunk):
    out = []
    for c in chunk:
        try:
            out.append(run_case(c))
        except BaseException as exc:    # noqa: BLE001 - reported as a crash of the case
            out.append([[], [[-9, repr(exc)[:80]]], 0, []])
    return out


# ------------------------------------------------------------------ alphabets
def core_alphabet():
    out = []
    for p in (0, 1):
        out += [[p, 0], [p, 1], [p, 2, 0, 0, -1], [p, 2, 1, 0, -1], [p, 3], [p, 4, 0, 0, -1], [p, 4, 1, 0, -1], [p, 5]]
    return out


def full_alphabet():
    out = core_alphabet()
    for p in (0, 1):
        out += [[p, 4, 1, 1, -1]]                                   # answer with an m-section missing
        out += [[p, 4, 1, e, -1] for e in (2, 3, 4, 5, 6, 7, 8)]    # defective answers
        out += [[p, 4, 0, e, -1] for e in (2, 4, 6, 8)]             # defective offers (ICE, DTLS)
    return out


class Spec:
    """JSEP state machine (RFC 8829 3.2 / W3C webrtc-pc 4.4.1.5) for ONE peer connection, written
    independently of the Coq model; used by the oracle and to bias the random generator."""
    TABLE = {
        ("stable", "L", "offer"): "have-local-offer",
        ("stable", "R", "offer"): "have-remote-offer",
        ("have-local-offer", "L", "offer"): "have-local-offer",
        ("have-local-offer", "R", "answer"): "stable",
        ("have-remote-offer", "R", "offer"): "have-remote-offer",
        ("have-remote-offer", "L", "answer"): "stable",
    }

    def __init__(self):
        self.state = "stable"
        self.offer_keys = {"L": None, "R": None}   # media of the last offer applied on each side

    def implicit_type(self):
        return "answer" if self.state in ("have-remote-offer", "have-local-pranswer") else "offer"

    def next(self, side, typ):
        return self.TABLE.get((self.state, side, typ))


def defect_of(side, typ, media):
    """Which requirement of the property a description misses (None = well formed)."""
    for kind, mid, ice, dtls, mux in media:
        if not ice:
            return "ice-credentials"
        if typ == "answer" and dtls not in (2, 3):
            return "dtls-role"
        if side == "R" and dtls == 0:
            return "dtls-role"
        if kind in (0, 1) and not mux:
            return "rtcp-mux"
    return None


class C14(Check):
    prop = "C14"
    props_file = "Props/C14.v"
    models = ["Jsep"]
    case_timeout = 150.0
    random_quick = 2000
    level_note = (
        "Theorems are about Model/Jsep.v (one peer connection; descriptions abstracted to type + per media section "
        "kind/mid/ICE/DTLS/rtcp-mux). Guard lists, type/role/kind lists and state assignments are regenerated from the "
        "Python ast (Gen/Jsep.v); statement order, slot writes and the implicit offer/answer choice are tied by the "
        "differential run against real RTCPeerConnection pairs. SDP parsing, offer/answer construction, codec "
        "negotiation, ICE/DTLS start-up are not modelled; an exception raised by them after validation is outside the "
        "model (none occurs in the generated stream). Types pranswer/rollback are outside the property's alphabet. The "
        "self-initiated close() on remote DTLS shutdown is disabled in the harness (calls are strictly sequential).")
    rule = ("all call sequences of length <= 4 over the 16-symbol core alphabet {createOffer, createAnswer, "
            "setLocal(offer|answer|implicit), setRemote(offer|answer), close} x {peer 0, peer 1}, and all of length <= 3 "
            "over the 30-symbol full alphabet (adds setRemote of: an answer with an m-section missing, answers without "
            "ice-ufrag / rtcp-mux / a=setup / with a=setup:actpass, offers without ice-ufrag / a=setup) -- enumerated up "
            "to renaming of the two peers (first call on peer 0; additionally all continuations of length <= 2 (full alphabet) of a completed negotiation, of "
            "two negotiations in opposite directions and of glare; the 4 peer set-ups audio+data/audio, data/none, "
            "audio/audio, audio+video+data/audio+video come in both orientations); plus random sequences of length 5-40 "
            "biased towards legal continuations (also edited local descriptions, offers without rtcp-mux, a few "
            "pranswer/rollback types); thorough adds 1M sampled sequences of length 5-6; distinct by (case, observations); "
            "non-trivial = at least one state-changing call succeeded and at least one later call on that peer was rejected")

    def __init__(self):
        self.state = "stable"
        self.offer_keys = {"L": None, "R": None}   # media of the last offer applied on each side

    def implicit_type(self):
        return "answer" if self.state in ("have-remote-offer", "have-local-pranswer") else "offer"

    def next(self, side, typ):
        return self.TABLE.get((self.state, side, typ))


def defect_of(side, typ, media):
    """Which requirement of the property a description misses (None = well formed)."""
    for kind, mid, ice, dtls, mux in media:
        if not ice:
            return "ice-credentials"
        if typ == "answer" and dtls not in (2, 3):
            return "dtls-role"
        if side == "R" and dtls == 0:
            return "dtls-role"
        if kind in (0, 1) and not mux:
            return "rtcp-mux"
    return None


class C14(Check):
    prop = "C14"
    props_file = "Props/C14.v"
    models = ["Jsep"]
    case_timeout = 150.0
    random_quick = 2000
    level_note = (
        "Theorems are about Model/Jsep.v (one peer connection; descriptions abstracted to type + per media section "
        "kind/mid/ICE/DTLS/rtcp-mux). Guard lists, type/role/kind lists and state assignments are regenerated from the "
        "Python ast (Gen/Jsep.v); statement order, slot writes and the implicit offer/answer choice are tied by the "
        "differential run against real RTCPeerConnection pairs. SDP parsing, offer/answer construction, codec "
        "negotiation, ICE/DTLS start-up are not modelled; an exception raised by them after validation is outside the "
        "model (none occurs in the generated stream). Types pranswer/rollback are outside the property's alphabet. The "
        "self-initiated close() on remote DTLS shutdown is disabled in the harness (calls are strictly sequential).")
    rule = ("all call sequences of length <= 4 over the 16-symbol core alphabet {createOffer, createAnswer, "
            "setLocal(offer|answer|implicit), setRemote(offer|answer), close} x {peer 0, peer 1}, all of length <= 3 over "
            "the 30-symbol full alphabet (adds setRemote of a mismatched answer and of offers/answers without "
            "ice-ufrag / rtcp-mux / a=setup / with a=setup:actpass), plus random sequences of length 5-40 biased "
            "towards legal continuations; 4 peer set-ups (audio+data/audio, data/none, audio/audio, "
            "audio+video+data/video+audio); distinct by (case, observations); non-trivial = at least one state-changing "
            "call succeeded and at least one later call was rejected")

    def __init__(self):
        self._cases = None
        self._outs = {}
        self._tier = "quick"
        self._n = None
        self.retried = 0

    # ------------------------------------------------------------ generation
    def run(self, tier, seed, ncases=None):
        self._tier, self._n = tier, ncases
        total = self._plan(tier)
        return super().run(tier, seed, ncases if ncases is not None else total)

    def _plan(self, tier):
        n = sum(1 for _ in self._enumerated()) + self.random_quick
        if tier != "quick":
            n += self.thorough_sampled + self.thorough_random
        return n

    thorough_sampled = 1000000
    thorough_random = 150000

    def _enumerated(self):
        """All sequences whose FIRST call is on peer 0: a sequence starting on peer 1 is the same
        sequence with the peers renamed, and the set-ups come in both orientations (cfg 4-7)."""
        core, full = core_alphabet(), full_alphabet()
        coreset = {json.dumps(a) for a in core}
        for k in range(1, 5):
            for seq in itertools.product(core, repeat=k):
                if seq[0][0] == 0:
                    yield list(seq)
        for k in range(1, 4):
            for seq in itertools.product(full, repeat=k):
                if seq[0][0] != 0 or all(json.dumps(a) in coreset for a in seq):
                    continue
                yield list(seq)
        # states that the short sequences above reach only at depth >= 4: after a complete negotiation
        # (peer 0 offered), after a second one in the other direction, and under glare -- followed by
        # all sequences of length <= 2 over the full alphabet
        nego = [[0, 3], [1, 4, 0, 0, -1], [1, 3], [0, 4, 1, 0, -1]]
        back = [[1, 3], [0, 4, 0, 0, -1], [0, 3], [1, 4, 1, 0, -1]]
        for prefix in (nego, nego + back, [[0, 3], [1, 3]]):
            for k in (1, 2):
                for seq in itertools.product(full, repeat=k):
                    yield prefix + list(seq)

    def random_ops(self, rng, lo=5, hi=40, exotic=False):
        """Random walk biased by the spec tracker: mostly legal continuations, some illegal / defective."""
        n = rng.randrange(lo, hi + 1)
        spec = [Spec(), Spec()]
        closed = [False, False]
        ops = []
        for _ in range(n):
            p = rng.randrange(2)
            s = spec[p]
            r = rng.random()
            if closed[p] and r < 0.7:
                p = 1 - p
                s = spec[p]
            legal = []
            if not closed[p]:
                for side, code in (("L", 2), ("R", 4)):
                    for typ, src in (("offer", 0), ("answer", 1)):
                        if s.next(side, typ):
                            legal.append((code, src, side, typ))
            r = rng.random()
            if r < 0.55 and legal:
                code, src, side, typ = rng.choice(legal)
                if code == 2:
                    # a proper local description needs the create call first
                    if rng.random() < 0.5:
                        ops.append([p, 3])
                    else:
                        ops.append([p, 0 if src == 0 else 1])
                        ops.append([p, 2, src, 0, -1])
                    s.state = s.next(side, typ)
                else:
                    edit = 0 if rng.random() < 0.75 else rng.randrange(1, 9)
                    ops.append([p, 4, src, edit, -1])
                    if edit == 0 or (edit == 5 and src == 0):
                        s.state = s.next(side, typ)
            elif r < 0.62:
                ops.append([p, rng.randrange(2)])
            elif r < 0.66:
                ops.append([p, 5])
                closed[p] = True
            elif r < 0.70 and exotic:
                ops.append([p, rng.choice([2, 4]), rng.randrange(2), rng.choice([0, 0, 2, 4]), rng.choice([1, 3])])
            else:
                code = rng.choice([2, 4, 4, 3])
                if code == 3:
                    ops.append([p, 3])
                    if not closed[p]:
                        typ = s.implicit_type()
                        if s.next("L", typ):
                            s.state = s.next("L", typ)
                else:
                    ops.append([p, code, rng.randrange(2), rng.choice([0, 0, 0, 1, 2, 3, 4, 5]), -1])
        ops = ops[:hi]
        # An OFFER with an m-section cut out is a different, well-formed offer; once applied, the two
        # peers disagree about the m-line layout and later calls fail inside the negotiation code
        # (MID assignment), which is C03's subject and not modelled here.  Cut m-sections out of
        # answers only (there it is the "mismatched answer" of the property).
        for op in ops:
            if len(op) == 5 and op[2] == 0 and op[3] == 1:
                op[3] = 0
        return ops

    def _build(self, rng):
        cases = []
        for seq in self._enumerated():
            cases.append([rng.randrange(NCFG), seq])
        if self._tier != "quick":
            core, full = core_alphabet(), full_alphabet()
            for _ in range(self.thorough_sampled):
                k = rng.choice([5, 5, 6])
                alpha = core if rng.random() < 0.6 else full
                cases.append([rng.randrange(NCFG), [rng.choice(alpha) for _ in range(k)]])
        nrand = self.random_quick if self._tier == "quick" else self.thorough_random
        for j in range(nrand):
            cases.append([rng.randrange(NCFG), self.random_ops(rng, exotic=(j % 5 == 0))])
        if self._n is not None and self._n < len(cases):
            cases = rng.sample(cases, self._n)
        return cases

    def gen_case(self, rng, i):
        if self._cases is None:
            # fork the worker processes while this process is still small, then build the case list
            pool = self._pool()
            try:
                self._cases = self._build(rng)
                self._precompute(pool, self._cases)
            finally:
                if pool is not None:
                    pool.terminate()
                    pool.join()
        if i < len(self._cases):
            return self._cases[i]
        return [rng.randrange(NCFG), self.random_ops(rng)]

    def _pool(self):
        nproc = max(1, min(12, (os.cpu_count() or 2) - 2))
        if nproc == 1 or (self._n is not None and self._n < 200):
            return None
        return multiprocessing.get_context("fork").Pool(nproc, initializer=_warm_up)

    def _precompute(self, pool, cases):
        """Run the implementation on all cases in a process pool (each worker process runs its cases
        one after the other, each in a fresh event loop).  A case that hit the deadline or crashed the
        worker is run once more here, alone; only a repeated failure is reported."""
        if pool is None:
            return
        size = 200
        chunks = [cases[i:i + size] for i in range(0, len(cases), size)]
        again = []
        for chunk, outs in zip(chunks, pool.imap(_worker, chunks)):
            for c, o in zip(chunk, outs):
                if o[1] and o[1][0] and o[1][0][0] in (-3, -9):
                    again.append(c)
                else:
                    self._outs[id(c)] = (c, o)
        self.retried = len(again)
        for c in again:
            self._outs[id(c)] = (c, run_case(c))

    def extra_search_cases(self, rng, n):
        return [[rng.randrange(NCFG), self.random_ops(rng)] for _ in range(min(n, 6000))]

    def shrink_candidates(self, case):
        cfg, ops = case
        n = len(ops)
        step = max(1, n // 2)
        while step >= 1:
            for i in range(0, n, step):
                if len(ops) - min(step, n - i) >= 1:
                    yield [cfg, ops[:i] + ops[i + step:]]
            if step == 1:
                break
            step //= 2
        for i, op in enumerate(ops):
            if len(op) == 5 and op[3] != 0:
                yield [cfg, ops[:i] + [[op[0], op[1], op[2], 0, op[4]]] + ops[i + 1:]]

    # ------------------------------------------------------------ implementation / model glue
    def impl_run(self, case):
        # results are remembered per case OBJECT (the framework hands the same list back to
        # encode / model_canon); a different object -- replay, shrinking -- is run afresh
        hit = self._outs.get(id(case))
        if hit is None or hit[0] is not case:
            hit = (case, run_case(case))
            self._outs[id(case)] = hit
        return hit[1]

    def encode(self, case):
        descs = self.impl_run(case)[0]
        out = []
        for i, op in enumerate(case[1]):
            if op[1] in (0, 1, 5):
                out.append([op[0], op[1]])
            else:
                d = descs[i] if i < len(descs) and descs[i] else [i + 1, 0, []]
                out.append([op[0], op[1], d])
        return out

    def model_canon(self, case, out):
        impl = self.impl_run(case)
        return [impl[0], out, 0, impl[3]]     # descriptions and exception names are inputs / annotations

    # ------------------------------------------------------------ oracle: the property, on the implementation
    def oracle(self, case, impl_out):
        cfg, ops = case
        descs, obs, leak, notes = impl_out
        if obs and obs[0] and obs[0][0] == -9:
            return ("harness-crash", "the case crashed the harness: %s" % (obs[0][1],))
        if obs and obs[0] and obs[0][0] == -3:
            return ("hang", obs[0][1])
        if leak:
            return ("leak", "tasks or threads survived the case (%d)" % leak)
        spec = [Spec(), Spec()]
        closed = [False, False]
        prev = [[SIG["stable"], [], [], [], []], [SIG["stable"], [], [], [], []]]
        for n, (op, o) in enumerate(zip(ops, obs)):
            p, code = op[0], op[1]
            s = spec[p]
            res, ev, sig = o[0], o[1], o[2]
            cur = [sig] + o[3:7]
            if len(op) == 5 and op[4] >= 0:
                return None          # pranswer / rollback: outside the property's alphabet, stop here
            want, why, nxt = OK, "legal", None
            if code == 5:
                nxt = "closed"
            elif closed[p]:
                want, why = INVALID, "closed"
            elif code == 0:
                pass
            elif code == 1:
                if s.state not in ("have-remote-offer", "have-local-pranswer"):
                    want, why = INVALID, "illegal-state"
            else:
                side = "R" if code == 4 else "L"
                if code == 3:
                    typ = s.implicit_type()
                else:
                    d = descs[n]
                    typ = TYPE_NAMES[d[1]]
                nxt = s.next(side, typ)
                if nxt is None:
                    want, why = INVALID, "illegal-state"
                elif code != 3:
                    media = d[2]
                    bad = defect_of(side, typ, media)
                    if bad:
                        want, why, nxt = VALUE, bad, None
                    elif typ == "answer" and [m[:2] for m in media] != s.offer_keys["R" if side == "L" else "L"]:
                        want, why, nxt = VALUE, "mismatch", None
            where = "call %d %s on peer %d in state %s" % (n, op, p, s.state)
            if closed[p] and sig != SIG["closed"]:
                return ("closed-not-absorbing", where + ": signalingState left 'closed'")
            if res != want:
                names = {OK: "no exception", INVALID: "InvalidStateError", VALUE: "ValueError", OTHER: "another exception"}
                return ("exception-class/" + why, "%s: raised %s, property says %s (%s)%s" %
                        (where, names.get(res, res), names[want], why,
                         "".join(" [%s]" % x for x in notes if x.startswith("%d:" % n))))
            if res != OK:
                if cur != prev[p]:
                    return ("rejected-call-changed-state", "%s: rejected (%s) but state/slots went %s -> %s" %
                            (where, why, prev[p], cur))
            else:
                after = SIG[nxt] if nxt is not None else SIG[s.state]
                if sig != after:
                    return ("transition-not-jsep", "%s: signalingState became %d, JSEP says %d" % (where, sig, after))
                if code in (0, 1) and cur != prev[p]:
                    return ("create-changed-state", where + ": create call changed state or descriptions")
                if nxt is not None and code in (2, 3, 4):
                    d = descs[n]
                    side = "R" if code == 4 else "L"
                    if TYPE_NAMES[d[1]] == "offer":
                        s.offer_keys[side] = [m[:2] for m in d[2]]
                    # the applied description must be what localDescription/remoteDescription now shows
                    vis = o[7] if side == "L" else o[8]
                    if vis != [d[1]]:
                        return ("description-not-applied", where + ": the applied description is not visible")
                if nxt is not None:
                    s.state = nxt
                    if nxt == "closed":
                        closed[p] = True
            prev[p] = cur
        return None

    def nontrivial(self, case, impl_out):
        obs = impl_out[1]
        changed = [False, False]
        for op, o in zip(case[1], obs):
            p = op[0]
            if o[0] == OK and op[1] in (2, 3, 4, 5):
                changed[p] = True
            elif o[0] in (INVALID, VALUE) and changed[p]:
                return True
        return False

    def distribution(self, cases, outs):
        d = {"calls": 0, "ok": 0, "InvalidStateError": 0, "ValueError": 0, "other": 0, "len<=4": 0, "len5-10": 0,
             "len>10": 0, "reached_have_local_offer": 0, "reached_have_remote_offer": 0, "completed_negotiation": 0,
             "renegotiated": 0, "closed": 0, "exotic_type": 0, "cfg": [0] * NCFG,
             "calls_by_kind": {"createOffer": 0, "createAnswer": 0, "setLocal": 0, "setLocalImplicit": 0,
                               "setRemote": 0, "close": 0}, "edited": [0] * 9}
        names = ["createOffer", "createAnswer", "setLocal", "setLocalImplicit", "setRemote", "close"]
        for c, o in zip(cases, outs):
            n = len(c[1])
            d["len<=4" if n <= 4 else "len5-10" if n <= 10 else "len>10"] += 1
            d["cfg"][c[0]] += 1
            hlo = hro = cl = False
            done = 0
            for op, ob in zip(c[1], o[1]):
                if len(ob) < 3:
                    continue
                d["calls"] += 1
                d["calls_by_kind"][names[op[1]]] += 1
                d[{OK: "ok", INVALID: "InvalidStateError", VALUE: "ValueError"}.get(ob[0], "other")] += 1
                if len(op) == 5:
                    d["edited"][op[3]] += 1
                    if op[4] >= 0:
                        d["exotic_type"] += 1
                if ob[0] == OK and op[1] in (2, 3, 4):
                    if ob[2] == 1:
                        hlo = True
                    elif ob[2] == 2:
                        hro = True
                    elif ob[2] == 0:
                        done += 1
                if ob[2] == 5:
                    cl = True
            d["reached_have_local_offer"] += hlo
            d["reached_have_remote_offer"] += hro
            d["completed_negotiation"] += done > 0
            d["renegotiated"] += done > 1
            d["closed"] += cl
        d["rerun_after_deadline_or_worker_crash"] = self.retried
        return d

    def describe_case(self, case):
        names = ["createOffer", "createAnswer", "setLocalDescription", "setLocalDescription()", "setRemoteDescription",
                 "close"]
        edits = ["", " -m-section", " -ice-ufrag", " -rtcp-mux", " -setup", " setup:actpass", " -ice-ufrag(last section)",
                 " -rtcp-mux(last section)", " -setup(last section)"]
        out = []
        for op in case[1]:
            s = "pc%d.%s" % (op[0], names[op[1]])
            if len(op) == 5:
                s += "(%s%s%s)" % ("offer" if op[2] == 0 else "answer", edits[op[3]],
                                   "" if op[4] < 0 else " as " + TYPE_NAMES[op[4]])
            out.append(s)
        return {"cfg": case[0], "calls": out}


if __name__ == "__main__":
    import sys
    sys.exit(C14().main(sys.argv[1:]))
