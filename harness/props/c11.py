"""C11 -- video frames reach the decoder unspliced; NACK/RTX recovers loss.

Case kinds (first element):
  ["N", [seq, ...]]                      NackGenerator.add on packets with these sequence numbers
  ["S", cfg, ops]                        a real RTCRtpSender: _run_rtp fed scripted encoded frames, NACKs
                                         handed to _handle_rtcp_packet between frames
  ["R", cfg, packets]                    a real video RTCRtpReceiver (receive() called, decoder_worker
                                         replaced by a tap): _handle_rtp_packet on scripted packets
  ["L", params, frames, script]          closed loop: the real sender's _run_rtp / _retransmit, the real
                                         packetisers, a scripted lossy / duplicating / reordering network in
                                         both directions, the real receiver with the decoder tap

Every implementation output is [cmp, obs]: `cmp` is compared with the model (Model/RtpSend.v or
Model/RtpRecv.v, for "L" the receiver model is run on the arrivals that occurred), `obs` is only used
by the oracle, which states the property on the implementation's behaviour without using the model.
"""
import asyncio
import json
import struct
import threading

from harness.framework import Check, canon, classify_exc

M16 = 0xFFFF
M32 = 0xFFFFFFFF
HIST = 128

URI_MID = "urn:ietf:params:rtp-hdrext:sdes:mid"
URI_ABS = "http://www.webrtc.org/experiments/rtp-hdrext/abs-send-time"

KIND_MIME = {0: "video/VP8", 1: "video/H264", 2: "video/RAWX", 3: "video/rtx"}


# ------------------------------------------------------------------ small helpers
def _loop_run(coro):
    loop = asyncio.new_event_loop()
    try:
        asyncio.set_event_loop(loop)
        return loop.run_until_complete(coro)
    finally:
        try:
            pend = [t for t in asyncio.all_tasks(loop) if not t.done()]
            for t in pend:
                t.cancel()
            if pend:
                loop.run_until_complete(asyncio.gather(*pend, return_exceptions=True))
        finally:
            asyncio.set_event_loop(None)
            loop.close()


class _Track:
    kind = "video"
    id = "t"

    def stop(self):
        pass


class _SendTransport:
    state = "connected"
    _stats_id = "transport_s"

    def __init__(self, on_send):
        self.on_send = on_send

    async def _send_rtp(self, data):
        await self.on_send(bytes(data))

    def _register_rtp_sender(self, sender, parameters):
        pass

    def _unregister_rtp_sender(self, sender):
        pass

    def _get_stats(self):
        return {}


class _RecvTransport:
    state = "connected"
    _stats_id = "transport_r"

    def __init__(self, on_send):
        self.on_send = on_send

    async def _send_rtp(self, data):
        await self.on_send(bytes(data))

    def _register_rtp_receiver(self, receiver, parameters):
        pass

    def _unregister_rtp_receiver(self, receiver):
        pass

    def _get_stats(self):
        return {}


class _Clock:
    """stands in for aiortc.clock inside rtcrtpsender: scripted current_ntp_time()"""

    def __init__(self, real):
        self._real = real
        self.values = []
        self.last = 0

    def current_ntp_time(self):
        if self.values:
            self.last = self.values.pop(0)
        return self.last

    def __getattr__(self, name):
        return getattr(self._real, name)


def _pkt_fields(p):
    ext = p.extensions
    al = ext.audio_level
    return [p.marker, p.payload_type, p.sequence_number, p.timestamp, p.ssrc, list(p.csrc),
            [[] if ext.abs_send_time is None else [ext.abs_send_time],
             [] if al is None else [[1 if al[0] else 0, al[1]]],
             [] if ext.mid is None else [list(ext.mid.encode("utf8"))],
             [] if ext.repaired_rtp_stream_id is None else [list(ext.repaired_rtp_stream_id.encode("utf8"))],
             [] if ext.rtp_stream_id is None else [list(ext.rtp_stream_id.encode("utf8"))],
             [] if ext.transmission_offset is None else [ext.transmission_offset],
             [] if ext.transport_sequence_number is None else [ext.transport_sequence_number]],
            list(p.payload), p.padding_size]


# ------------------------------------------------------------------ the sender rig
class SenderRig:
    """A real RTCRtpSender whose _run_rtp loop is fed scripted encoded frames.
    cfg = [pt, ssrc, rtx_ssrc, [rtx_pt]|[], [mid bytes]|[], seq0, ts_origin, rtx_seq0, ext_ids]"""

    def __init__(self, cfg, on_wire):
        import aiortc.rtcrtpsender as S
        from aiortc import rtp
        from aiortc.rtcrtpparameters import (RTCRtpCodecParameters, RTCRtpHeaderExtensionParameters,
                                             RTCRtpParameters)
        self.S = S
        self.cfg = cfg
        pt, ssrc, rtx_ssrc, rtx_pt, mid, seq0, ts0, rtx_seq0, ext_ids = cfg
        self.transport = _SendTransport(on_wire)
        self.sender = S.RTCRtpSender("video", self.transport)
        s = self.sender
        s._ssrc = ssrc
        s._rtx_ssrc = rtx_ssrc
        s._RTCRtpSender__rtx_payload_type = rtx_pt[0] if rtx_pt else None
        s._RTCRtpSender__rtx_sequence_number = rtx_seq0
        s._RTCRtpSender__mid = bytes(mid[0]).decode("utf8") if mid else None
        s._RTCRtpSender__track = _Track()
        self.ext_params = RTCRtpParameters(headerExtensions=(
            [RTCRtpHeaderExtensionParameters(id=1, uri=URI_MID),
             RTCRtpHeaderExtensionParameters(id=2, uri=URI_ABS)] if ext_ids else []))
        s._RTCRtpSender__rtp_header_extensions_map.configure(self.ext_params)
        self.codec = RTCRtpCodecParameters(mimeType="video/VP8", clockRate=90000, payloadType=pt)
        self.clock = _Clock(S.clock)
        self.handed = []          # packets handed to serialize, in order

    def history(self):
        h = self.sender._RTCRtpSender__rtp_history
        return [[k, _pkt_fields(h[k])] for k in sorted(h)]

    async def run(self, next_frame):
        """next_frame: async callable returning (payloads, enc_ts, audio_level, ntps) or None at the end.
        It may call self.nack(...) before returning."""
        S = self.S
        from aiortc import rtp
        from aiortc.mediastreams import MediaStreamError
        rig = self

        async def fake_next(codec):
            fr = await next_frame()
            if fr is None:
                raise MediaStreamError
            payloads, enc_ts, audio, ntps = fr
            # clock.current_ntp_time() is read twice per packet: abs_send_time and __ntp_timestamp
            rig.clock.values = [v for t in ntps for v in (t, t)]
            return S.RTCEncodedFrame([bytes(p) for p in payloads], enc_ts, audio)

        self.sender._next_encoded_frame = fake_next
        old = (S.random_sequence_number, S.random32, S.clock, rtp.RtpPacket.serialize)
        real_serialize = rtp.RtpPacket.serialize

        def tap_serialize(pkt, *a, **k):
            rig.handed.append(_pkt_fields(pkt))
            return real_serialize(pkt, *a, **k)

        S.random_sequence_number = lambda: rig.cfg[5]
        S.random32 = lambda: rig.cfg[6]
        S.clock = self.clock
        rtp.RtpPacket.serialize = tap_serialize
        try:
            await self.sender._run_rtp(self.codec)
        finally:
            S.random_sequence_number, S.random32, S.clock, rtp.RtpPacket.serialize = old

    async def nack(self, lost):
        from aiortc import rtp
        pkt = rtp.RtcpRtpfbPacket(fmt=rtp.RTCP_RTPFB_NACK, ssrc=1, media_ssrc=self.sender._ssrc)
        pkt.lost = list(lost)
        await self.sender._handle_rtcp_packet(pkt)


# ------------------------------------------------------------------ the receiver rig
class ReceiverRig:
    """A real video RTCRtpReceiver; decoder_worker is replaced by a tap while receive() runs.
    cfg = [[[pt, [kind, apt...]], ...], [[rtx_ssrc, ssrc], ...], [rtcp_ssrc]|[]]"""

    def __init__(self, cfg, on_rtcp):
        import aiortc.rtcrtpreceiver as R
        self.R = R
        self.cfg = cfg
        self.taps = []
        self.rtcp = []           # (kind, fields) of every RTCP packet the receiver put on the wire
        self.on_rtcp = on_rtcp
        self.transport = _RecvTransport(self._wire)
        self.receiver = R.RTCRtpReceiver("video", self.transport)
        self.nack_args = []

    async def _wire(self, data):
        from aiortc import rtp
        for p in rtp.RtcpPacket.parse(data):
            if isinstance(p, rtp.RtcpRtpfbPacket) and p.fmt == rtp.RTCP_RTPFB_NACK:
                self.rtcp.append(["nack", p.ssrc, p.media_ssrc, list(p.lost)])
            elif isinstance(p, rtp.RtcpPsfbPacket) and p.fmt == rtp.RTCP_PSFB_PLI:
                self.rtcp.append(["pli", p.ssrc, p.media_ssrc])
            else:
                self.rtcp.append(["other"])
        if self.on_rtcp is not None:
            await self.on_rtcp(data)

    async def start(self):
        R = self.R
        from aiortc.rtcrtpparameters import (RTCRtpCodecParameters, RTCRtpDecodingParameters,
                                             RTCRtpReceiveParameters, RTCRtpRtxParameters)
        codecs_cfg, rtx_map, rtcp_ssrc = self.cfg
        codecs = []
        for pt, kind in codecs_cfg:
            params = {}
            if kind[0] == 3 and len(kind) > 1 and kind[1]:
                params["apt"] = kind[1][0]
            codecs.append(RTCRtpCodecParameters(mimeType=KIND_MIME[kind[0]], clockRate=90000, payloadType=pt,
                                                parameters=params))
        encodings = [RTCRtpDecodingParameters(ssrc=ssrc, payloadType=codecs_cfg[0][0] if codecs_cfg else 0,
                                              rtx=RTCRtpRtxParameters(ssrc=rtx)) for rtx, ssrc in rtx_map]
        rig = self

        def tap_worker(loop, input_q, output_q):
            while True:
                task = input_q.get()
                try:
                    if task is None:
                        break
                    codec, frame = task
                    rig.taps.append([codec.payloadType, frame.timestamp, list(frame.data)])
                finally:
                    input_q.task_done()

        self.receiver._track = R.RemoteStreamTrack(kind="video")
        if rtcp_ssrc:
            self.receiver._set_rtcp_ssrc(rtcp_ssrc[0])
        old = R.decoder_worker
        R.decoder_worker = tap_worker
        try:
            await self.receiver.receive(RTCRtpReceiveParameters(codecs=codecs, encodings=encodings))
        finally:
            R.decoder_worker = old
        # observe the arguments of _send_rtcp_nack (the list before wire encoding), then run the real one
        real_nack = self.receiver._send_rtcp_nack

        async def spy_nack(media_ssrc, lost):
            rig.nack_args.append(list(lost))
            await real_nack(media_ssrc, lost)

        self.receiver._send_rtcp_nack = spy_nack

    async def handle(self, packet, arrival_ms=0):
        """returns [nack, pli, frame] of this call (what went on the wire / into the decoder)"""
        n_rtcp, n_tap, n_args = len(self.rtcp), len(self.taps), len(self.nack_args)
        await self.receiver._handle_rtp_packet(packet, arrival_time_ms=arrival_ms)
        self.receiver._RTCRtpReceiver__decoder_queue.join()
        nack, pli = [], []
        for r in self.rtcp[n_rtcp:]:
            if r[0] == "nack":
                nack.append(r[1:])
            elif r[0] == "pli":
                pli.append(r[1:])
        frames = self.taps[n_tap:]
        return [nack, pli, frames, self.nack_args[n_args:]]

    def nack_state(self):
        g = self.receiver._RTCRtpReceiver__nack_generator
        return [[] if g.max_seq is None else [g.max_seq], sorted(g.missing)]

    def origin(self):
        o = self.receiver._RTCRtpReceiver__jitter_buffer._origin
        return [] if o is None else [o]

    async def stop(self):
        await self.receiver.stop()


def _mk_packet(f):
    from aiortc.rtp import RtpPacket
    marker, pt, seq, ts, ssrc, payload = f
    p = RtpPacket(payload_type=pt, marker=marker, sequence_number=seq, timestamp=ts, ssrc=ssrc,
                  payload=bytes(payload))
    return p


def _step_cmp(res):
    """[nack, pli, frames, args] of one call -> the model's rout shape"""
    nack, pli, frames, args = res
    n = [[nack[0][0], nack[0][1], args[0]]] if nack and args else []
    p = [[pli[0][0], pli[0][1]]] if pli else []
    f = [frames[0]] if frames else []
    return [n, p, f]


# ------------------------------------------------------------------ payload builders
def _vp8_payload(rng, start, n):
    """a valid VP8 payload: minimal descriptor + n data bytes"""
    return [0x10 if start else 0x00] + [rng.randrange(256) for _ in range(n)]


def _h264_payload(rng, n):
    return [0x41] + [rng.randrange(256) for _ in range(max(1, n))]


def _raw_payload(fi, j, rng):
    """self-delimiting tagged chunk: frame index, packet index within the frame, n, n bytes"""
    n = rng.choice([0, 1, 2, 5])
    return [(fi >> 8) & 255, fi & 255, j & 255, n] + [rng.randrange(256) for _ in range(n)]


def _parse_raw(data):
    """frame bytes -> [(fi, j), ...] or None"""
    out = []
    i = 0
    while i < len(data):
        if i + 4 > len(data) or i + 4 + data[i + 3] > len(data):
            return None
        out.append((data[i] * 256 + data[i + 1], data[i + 2]))
        i += 4 + data[i + 3]
    return out


SEQ_STARTS = [0, 1, 65535, 65534, 65500, 65400, 32767, 32768, 12345]


def _pick_seq0(rng):
    r = rng.random()
    if r < 0.55:
        return (65536 - rng.randrange(1, 140)) & M16
    if r < 0.75:
        return rng.choice(SEQ_STARTS)
    return rng.randrange(65536)


def _pick_ts0(rng):
    r = rng.random()
    if r < 0.5:
        return (2 ** 32 - rng.randrange(1, 30000)) & M32
    if r < 0.6:
        return 0
    return rng.randrange(2 ** 32)


class C11(Check):
    prop = "C11"
    props_file = "Props/C11.v"
    models = ["RtpSend", "RtpRecv"]
    quick_cases = 1500
    thorough_cases = 20000
    case_timeout = 20.0
    level_note = (
        "Theorems are about Model/RtpSend.v (sequence/timestamp assignment of _run_rtp, __rtp_history, "
        "_retransmit, NACK handling) and Model/RtpRecv.v (NackGenerator, TimestampMapper, the video path of "
        "_handle_rtp_packet), composed with the C07 RTX model, the C16 depayload models and the C10 jitter "
        "buffer model.  Tie = differential runs of a real RTCRtpSender (its _run_rtp loop fed scripted encoded "
        "frames, NACKs through _handle_rtcp_packet), a real NackGenerator, a real video RTCRtpReceiver "
        "(receive() called, decoder_worker replaced by a tap from the harness) and a closed loop of both "
        "through a scripted faulty network, whose receiver-side transcript is also compared with the model. "
        "Not modelled: REMB / bitrate estimator (C15), receiver statistics (C18), RTCP and RTP wire encoding "
        "(C07; the closed loop runs the real encoders and parsers), asyncio scheduling (handlers are driven "
        "one at a time), SRTP.  Frame-whole / suffix theorems assume fewer than 65536 packets per stream "
        "(sequence numbers distinct) and pairwise distinct frame timestamps.")
    rule = ("N: 1-60 sequence numbers (in-order runs, gaps 1..40000, duplicates, late arrivals, starts near the "
            "wrap); S: 1-30 ops (frames of 0-9 payloads, NACK lists hitting / missing the history, RTX on/off, "
            "sequence origin near 65535); R: 5-90 packets from a synthetic stream with loss, duplication, "
            "reordering, RTX wraps (good and malformed), unknown payload types, VP8/H264/raw codecs incl. "
            "undepayloadable payloads; L: closed loop, 4-40 frames of 1-8 packets (real VP8 / H264 packetisers or "
            "raw), per-packet fates (lost / delayed / duplicated), RTCP and retransmission fates, recovery mode "
            "(only media loss) with a flushing tail.  distinct by (case, output); non-trivial = a NACK was "
            "emitted or a retransmission happened or a frame reached the decoder")

    # ================================================================ generation
    def gen_case(self, rng, i):
        r = rng.random()
        if r < 0.2:
            return self.gen_nack(rng)
        if r < 0.4:
            return self.gen_sender(rng)
        if r < 0.7:
            return self.gen_receiver(rng)
        return self.gen_loop(rng)

    def gen_nack(self, rng):
        seq = _pick_seq0(rng)
        out = []
        for _ in range(rng.randrange(1, 60)):
            k = rng.random()
            if k < 0.55:
                seq = (seq + 1) & M16
                out.append(seq)
            elif k < 0.75:
                seq = (seq + rng.choice([2, 3, 5, 17, 100, 127, 128, 129, 130, 200, 300])) & M16
                out.append(seq)
            elif k < 0.77:
                seq = (seq + rng.choice([1000, 32639, 32640, 32767, 32768, 32769, 40000, 65535])) & M16
                out.append(seq)
            elif k < 0.95:
                out.append((seq - rng.choice([0, 1, 2, 3, 10, 50, 127, 128, 129, 200])) & M16)
            else:
                out.append(rng.randrange(65536))
        return ["N", out]

    def gen_sender(self, rng):
        rtx = [rng.choice([97, 101, 127])] if rng.random() < 0.5 else []
        mid = [list(rng.choice([b"0", b"1", b"video", "é".encode("utf8")]))] if rng.random() < 0.6 else []
        seq0 = _pick_seq0(rng)
        cfg = [rng.choice([96, 100, 102]), rng.randrange(1, 2 ** 32), rng.randrange(1, 2 ** 32), rtx, mid,
               seq0, _pick_ts0(rng), _pick_seq0(rng), rng.randrange(2)]
        ops = []
        sent = 0
        enc_ts = rng.choice([0, 0, 2 ** 32 - 5000, rng.randrange(2 ** 32)])
        ntp = rng.randrange(2 ** 40)
        for _ in range(rng.randrange(1, 30)):
            if rng.random() < 0.6:
                big = rng.random() < 0.08
                n = rng.randrange(100, 200) if big else rng.choice([0, 1, 1, 2, 3, 5, 8, 9])
                pls = []
                for _ in range(n):
                    ntp += rng.randrange(0, 2 ** 20)
                    pls.append([[rng.randrange(256) for _ in range(rng.choice([0, 1, 3, 7]))], ntp])
                audio = [rng.randrange(0, 128)] if rng.random() < 0.1 else []
                ops.append([0, enc_ts, audio, pls])
                sent += n
                enc_ts = (enc_ts + rng.choice([0, 1, 3000, 3000, 90000])) % (2 ** 33)
            else:
                lost = []
                for _ in range(rng.randrange(0, 6)):
                    k = rng.random()
                    if k < 0.6 and sent:
                        lost.append((seq0 + sent - 1 - rng.randrange(0, min(sent, 140))) & M16)
                    elif k < 0.8:
                        lost.append((seq0 + sent + rng.choice([0, 1, 128, -128 - sent, 65536 - 128])) & M16)
                    else:
                        lost.append(rng.randrange(65536))
                ops.append([1, lost])
        return ["S", cfg, ops]

    def gen_receiver(self, rng):
        kind = rng.choice([0, 1, 2, 2])
        pt, rpt = 100, 101
        ssrc, rssrc = 1234, 5678
        rtx_kind = rng.random()
        codecs = [[pt, [kind]]]
        if rtx_kind < 0.7:
            codecs.append([rpt, [3, [pt]]])
        elif rtx_kind < 0.8:
            codecs.append([rpt, [3, []]])            # no apt
        elif rtx_kind < 0.9:
            codecs.append([rpt, [3, [55]]])          # apt not a known codec
        rtx_map = [[rssrc, ssrc]] if rng.random() < 0.85 else []
        rtcp = [rng.randrange(1, 2 ** 32)] if rng.random() < 0.9 else []
        cfg = [codecs, rtx_map, rtcp]
        # the synthetic stream
        seq = _pick_seq0(rng)
        ts = _pick_ts0(rng)
        stream = []
        sizes = []
        nframes = rng.randrange(2, 25)
        for fi in range(nframes):
            n = rng.choice([1, 1, 2, 3, 4, 8])
            sizes.append(n)
            for j in range(n):
                if kind == 0:
                    pl = _vp8_payload(rng, j == 0, rng.randrange(1, 6))
                    if rng.random() < 0.04:
                        pl = rng.choice([[], [0x80], [0x90, 0x80], [0xff]])      # empty / truncated descriptors
                elif kind == 1:
                    pl = _h264_payload(rng, rng.randrange(1, 6))
                    if rng.random() < 0.04:
                        pl = rng.choice([[], [0x41], [28], [24, 0], [30, 1, 2]])
                else:
                    pl = _raw_payload(fi, j, rng)
                stream.append([1 if j == n - 1 else 0, pt, seq, ts, ssrc, pl])
                seq = (seq + 1) & M16
            ts = (ts + rng.choice([3000, 3000, 1, 90000])) & M32
        # arrivals
        arr = []
        held = []
        rtx_seq = rng.randrange(65536)
        jump = rng.random() < 0.1
        for idx, p in enumerate(stream):
            k = rng.random()
            if k < 0.12:
                held.append(p)                       # lost for now, maybe retransmitted later
            elif k < 0.2:
                arr.append(p)
                arr.append(p)
            elif k < 0.3 and arr:
                arr.insert(max(0, len(arr) - rng.randrange(1, 4)), p)
            else:
                arr.append(p)
            if held and rng.random() < 0.25:
                q = held.pop(rng.randrange(len(held)))
                if rng.random() < 0.7:
                    wrapped = [q[0], rpt, rtx_seq, q[3], rng.choice([rssrc, rssrc, rssrc, 999]),
                               list(struct.pack("!H", q[2])) + q[5]]
                    rtx_seq = (rtx_seq + 1) & M16
                    if rng.random() < 0.07:
                        wrapped[5] = wrapped[5][:rng.randrange(0, 2)]
                    arr.append(wrapped)
                else:
                    arr.append(q)
            if rng.random() < 0.03:
                arr.append([0, rng.choice([0, 55, 96]), rng.randrange(65536), ts, ssrc, [1, 2, 3]])
            if jump and idx == len(stream) // 2:
                d = rng.choice([100, 128, 129, 300, 5000, 32000, 33000])
                stream[idx + 1:] = [[q[0], q[1], (q[2] + d) & M16, q[3], q[4], q[5]] for q in stream[idx + 1:]]
        return ["R", cfg, arr, [kind, sizes]]

    def gen_loop(self, rng):
        codec = rng.choice([2, 2, 2, 0, 1])
        rtx = rng.random() < 0.5
        mode = rng.choice(["hostile", "hostile", "recovery"])
        nframes = rng.randrange(4, 40) if codec == 2 else rng.randrange(3, 9)
        burst = codec == 2 and mode == "hostile" and rng.random() < 0.2
        if burst:
            nframes = rng.randrange(70, 130)
        frames = []
        enc_ts = rng.choice([0, rng.randrange(2 ** 32)])
        for fi in range(nframes):
            k = rng.choice([1, 1, 2, 2, 3, 4, 5, 8]) if codec == 2 else rng.choice([1, 1, 1, 2, 2, 3, 8])
            if codec == 2:
                body = [_raw_payload(fi, j, rng) for j in range(k)]
            elif codec == 0:
                n = rng.randrange((k - 1) * 1296 + 1, k * 1296 + 1) if k > 1 else rng.randrange(1, 40)
                body = [fi & 255, (fi >> 8) & 255] + [rng.randrange(256) for _ in range(n)]
            else:
                body = []
                left = k
                while left > 0:
                    if left > 1 and rng.random() < 0.6:
                        parts = rng.randrange(2, left + 1)
                        n = rng.randrange((parts - 1) * 1298 + 2, parts * 1298)
                        left -= parts
                    else:
                        n = rng.randrange(2, 30)
                        left -= 1
                    body.append([rng.choice([0x65, 0x41, 0x67, 0x68]), fi & 255] +
                                [rng.randrange(256) for _ in range(n)])
            frames.append([enc_ts, body])
            enc_ts = (enc_ts + rng.choice([3000, 3000, 3000, 1500, 90000])) & M32
        long_delay = rng.random() < 0.15
        loss = rng.choice([0.0, 0.05, 0.1, 0.2, 0.35])

        def fates(n, lossy, maxdelay):
            out = []
            for _ in range(n):
                r = rng.random()
                if r < lossy:
                    out.append([])
                elif r < lossy + 0.08:
                    out.append([0, rng.randrange(0, maxdelay)])
                elif r < lossy + 0.2:
                    out.append([rng.randrange(0, maxdelay)])
                else:
                    out.append([0])
            return out

        npk = sum(8 for _ in frames) + 8
        maxd = rng.choice([3, 6, 12]) if not long_delay else rng.choice([60, 110, 140])
        script = {
            "media": fates(npk, loss, maxd),
            "rtcp": fates(npk * 2, 0.0 if mode == "recovery" else rng.choice([0.0, 0.2, 0.5]), 3),
            "rtx": fates(npk * 3, 0.0 if mode == "recovery" else rng.choice([0.0, 0.2, 0.5]),
                         3 if mode == "recovery" else maxd),
        }
        if burst:
            # a loss burst longer than the history / the jitter buffer, feedback lost as well
            a = rng.randrange(5, 60)
            b = a + rng.choice([100, 127, 128, 129, 140, 200])
            for k in range(a, min(b, len(script["media"]))):
                script["media"][k] = []
            for k in range(len(script["rtx"])):
                if rng.random() < 0.7:
                    script["rtx"][k] = []
        params = {"codec": codec, "rtx": 1 if rtx else 0, "mode": mode, "seq0": _pick_seq0(rng),
                  "ts0": _pick_ts0(rng), "rtx_seq0": _pick_seq0(rng), "pid": rng.randrange(0, 32768),
                  "ext": rng.randrange(2)}
        return ["L", params, frames, [script["media"], script["rtcp"], script["rtx"]]]

    # ================================================================ implementation
    def impl_run(self, case):
        kind = case[0]
        if kind == "N":
            out = self.impl_nack(case)
        elif kind == "S":
            out = _loop_run(self.impl_sender(case))
        elif kind == "R":
            out = _loop_run(self.impl_receiver(case))
        else:
            out = _loop_run(self.impl_loop(case))
        out = canon(out)
        self._cache[json.dumps(case)] = out
        return out

    _cache = {}

    def impl_nack(self, case):
        from aiortc.rtcrtpreceiver import NackGenerator
        from aiortc.rtp import RtpPacket
        g = NackGenerator()
        steps = []
        for s in case[1]:
            missed = g.add(RtpPacket(sequence_number=s))
            steps.append([1 if missed else 0, [[] if g.max_seq is None else [g.max_seq], sorted(g.missing)]])
        return [[0, steps], []]

    async def impl_sender(self, case):
        _, cfg, ops = case
        wire = []

        async def on_wire(data):
            wire.append(data)

        rig = SenderRig(cfg, on_wire)
        outs = []
        status = [0]
        it = iter(ops)

        async def next_frame():
            # close the previous op's output, run NACK ops, return the next frame
            while True:
                op = next(it, None)
                if op is None:
                    return None
                mark = len(rig.handed)
                if op[0] == 1:
                    try:
                        await rig.nack(op[1])
                    except Exception as exc:
                        status[0] = classify_exc(exc)
                        return None
                    outs.append([1, mark])
                else:
                    outs.append([0, mark])
                    if op[3]:
                        return ([p[0] for p in op[3]], op[1], op[2][0] if op[2] else None, [p[1] for p in op[3]])

        await rig.run(next_frame)
        marks = [m for _, m in outs] + [len(rig.handed)]
        res = [[t, rig.handed[marks[i]:marks[i + 1]]] for i, (t, _) in enumerate(outs)]
        s = rig.sender
        # obs: wire bytes re-parsed with the real parser (ties serialize/parse of C07 into the oracle)
        from aiortc import rtp
        hmap = rtp.HeaderExtensionsMap()
        hmap.configure(rig.ext_params)
        parsed = [_pkt_fields(rtp.RtpPacket.parse(d, hmap)) for d in wire]
        n_media = sum(len(pk) for t, pk in res if t == 0)
        state = [(cfg[5] + n_media) & M16, s._RTCRtpSender__rtx_sequence_number, rig.history()]
        return [[status[0], res, state], [parsed]]

    async def impl_receiver(self, case):
        cfg, packets = case[1], case[2]
        rig = ReceiverRig(cfg, None)
        await rig.start()
        steps = []
        status = 0
        try:
            for i, f in enumerate(packets):
                try:
                    res = await rig.handle(_mk_packet(f), arrival_ms=i)
                except Exception as exc:
                    status = classify_exc(exc)
                    break
                steps.append(res)
            final = [rig.nack_state(), rig.origin()]
        finally:
            await rig.stop()
        cmp_ = [status, [_step_cmp(r) for r in steps], final[0], final[1]]
        return [cmp_, [steps]]

    # ---------------------------------------------------------------- closed loop
    async def impl_loop(self, case):
        from aiortc import rtp
        from aiortc.codecs.h264 import H264Encoder, h264_depayload
        from aiortc.codecs.vpx import Vp8Encoder, vp8_depayload
        _, params, frames, script = case
        codec = params["codec"]
        pt, rpt, ssrc, rssrc, rtcp_ssrc = 100, 101, 0x11111111, 0x22222222, 0x33333333
        scfg = [pt, ssrc, rssrc, [rpt] if params["rtx"] else [], [list(b"0")], params["seq0"], params["ts0"],
                params["rtx_seq0"], params["ext"]]
        rcfg = [[[pt, [codec]]] + ([[rpt, [3, [pt]]]] if params["rtx"] else []),
                [[rssrc, ssrc]] if params["rtx"] else [], [rtcp_ssrc]]
        media_f, rtcp_f, rtx_f = [list(x) for x in script]
        net = {"tick": 0, "q": [], "serial": 0, "pumping": False}
        arrivals = []        # packets given to the receiver, with the receiver's reaction
        sent_media = []      # [seq, ts, payload, wire bytes] in sending order
        resent = []          # [tick, wire fields]
        nacks_at_sender = [] # [n_media_sent_so_far, lost, [resent fields...]]
        status = [0]

        def fate(lst):
            return lst.pop(0) if lst else [0]

        async def from_sender(data):
            p = rtp.RtpPacket.parse(data, hmap)
            is_media = p.ssrc == ssrc and p.payload_type == pt and net.get("in_frame")
            if is_media:
                sent_media.append([p.sequence_number, p.timestamp, list(p.payload), list(data)])
                f = fate(media_f)
                net["tick"] += 1
            else:
                resent.append([net["tick"], _pkt_fields(p), list(data)])
                if nacks_at_sender:
                    nacks_at_sender[-1][2].append(_pkt_fields(p))
                f = fate(rtx_f)
            for d in f:
                net["serial"] += 1
                net["q"].append((net["tick"] + d, net["serial"], "rtp", data))
            await pump()

        async def from_receiver(data):
            f = fate(rtcp_f)
            for d in f:
                net["serial"] += 1
                net["q"].append((net["tick"] + d, net["serial"], "rtcp", data))

        async def pump(force=False):
            if net["pumping"]:
                return
            net["pumping"] = True
            try:
                while True:
                    due = [x for x in net["q"] if force or x[0] <= net["tick"]]
                    if not due:
                        break
                    item = min(due)
                    net["q"].remove(item)
                    _, _, kind, data = item
                    if kind == "rtp":
                        p = rtp.RtpPacket.parse(data, hmap)
                        res = await rrig.handle(p, arrival_ms=len(arrivals))
                        arrivals.append([[p.marker, p.payload_type, p.sequence_number, p.timestamp, p.ssrc,
                                          list(p.payload)], res])
                    else:
                        for q in rtp.RtcpPacket.parse(data):
                            if isinstance(q, rtp.RtcpRtpfbPacket) and q.fmt == rtp.RTCP_RTPFB_NACK:
                                nacks_at_sender.append([len(sent_media), list(q.lost), []])
                            net["in_frame"] = False
                            try:
                                await srig.sender._handle_rtcp_packet(q)
                            finally:
                                net["in_frame"] = True
            finally:
                net["pumping"] = False

        srig = SenderRig(scfg, from_sender)
        rrig = ReceiverRig(rcfg, from_receiver)
        hmap = rtp.HeaderExtensionsMap()
        hmap.configure(srig.ext_params)
        await rrig.start()
        # packetise with the real packetisers
        sent_frames = []     # [enc_ts, payloads, bitstream]
        pid = params["pid"]
        for enc_ts, body in frames:
            if codec == 2:
                payloads = [bytes(b) for b in body]
                bitstream = b"".join(payloads)
            elif codec == 0:
                payloads = Vp8Encoder._packetize(bytes(body), pid)
                pid = (pid + 1) % (1 << 15)
                bitstream = bytes(body)
            else:
                payloads = H264Encoder._packetize([bytes(n) for n in body])
                bitstream = b"".join(b"\x00\x00\x00\x01" + bytes(n) for n in body)
            sent_frames.append([enc_ts, payloads, bitstream])
        tail = []
        if params["mode"] == "recovery":
            # flushing tail: two-packet frames, delivered loss-free (fates exhausted -> [0])
            last = frames[-1][0] if frames else 0
            for k in range(len(frames) + 6):
                last = (last + 3000) & M32
                if codec == 2:
                    pls = [bytes([0xEE, k & 255, j, 0]) for j in range(2)]
                    bits = b"".join(pls)
                elif codec == 0:
                    bits = bytes((k * 7 + i) & 255 for i in range(1400))
                    pls = Vp8Encoder._packetize(bits, pid)
                    pid = (pid + 1) % (1 << 15)
                else:
                    nal = bytes([0x41]) + bytes((k * 7 + i) & 255 for i in range(1400))
                    pls = H264Encoder._packetize([nal])
                    bits = b"\x00\x00\x00\x01" + nal
                tail.append([last, pls, bits])
        todo = sent_frames + tail
        n_scripted = sum(len(f[1]) for f in sent_frames)
        it = iter(todo)
        ntp = [1 << 32]

        async def next_frame():
            fr = next(it, None)
            if fr is None:
                return None
            if fr in tail and not net.get("tail_started"):
                net["tail_started"] = True
                media_f[:] = []
                rtcp_f[:] = []
                rtx_f[:] = []
            ntps = []
            for _ in fr[1]:
                ntp[0] += 1 << 18
                ntps.append(ntp[0])
            net["in_frame"] = True
            return (fr[1], fr[0], None, ntps)

        try:
            try:
                await srig.run(next_frame)
                await pump(force=True)
            except Exception as exc:
                status[0] = classify_exc(exc)
            final = [rrig.nack_state(), rrig.origin()]
        finally:
            await rrig.stop()
        # depayloaded suffixes of every sent frame, via the real depayloaders (whole frame = the bitstream)
        dep = {0: vp8_depayload, 1: h264_depayload}.get(codec, lambda b: b)
        obs = {
            "frames": [[(params["ts0"] + f[0]) & M32, [list(p) for p in f[1]], list(f[2]),
                        [list(dep(p)) for p in f[1]]] for f in todo],
            "n_scripted_frames": len(sent_frames),
            "sent": [[s[0], s[1]] for s in sent_media],
            "sent_wire": [s[3] for s in sent_media],
            "resent": resent,
            "nacks_at_sender": nacks_at_sender,
            "arrivals": arrivals,
            "rcfg": rcfg,
            "scfg": scfg,
        }
        cmp_ = [status[0], [_step_cmp(a[1]) for a in arrivals], final[0], final[1]]
        return [cmp_, [obs]]

    # ================================================================ model side
    def model_name(self, case):
        return "RtpSend" if case[0] == "S" else "RtpRecv"

    def encode(self, case):
        kind = case[0]
        if kind == "N":
            return [0, case[1]]
        if kind == "S":
            _, cfg, ops = case
            return [cfg[:8], ops]
        if kind == "R":
            cfg, packets = case[1], case[2]
            return [1, cfg, [self._enc_pkt(p) for p in packets]]
        out = self._cache.get(json.dumps(case))
        if out is None:
            out = canon(self.safe_impl(case))
        obs = out[1][0]
        return [1, obs["rcfg"], [self._enc_pkt(a[0]) for a in obs["arrivals"]]]

    @staticmethod
    def _enc_pkt(p):
        marker, pt, seq, ts, ssrc, payload = p
        return [marker, pt, seq, ts, ssrc, [], [[], [], [], [], [], [], []], payload, 0]

    def model_canon(self, case, out):
        kind = case[0]
        impl = self._cache.get(json.dumps(case))
        obs = impl[1] if impl and len(impl) > 1 else []
        if kind == "N":
            status, steps = out
            return [[status, steps], obs]
        if kind == "S":
            status, outs, state = out
            seq, rtx_seq, hist = state
            return [[status, outs, [seq, rtx_seq, sorted(hist)]], obs]
        status, outs, nack, origin = out
        return [[status, outs, nack, origin], obs]

    # ================================================================ oracle
    def oracle(self, case, impl_out):
        if impl_out == [-3]:
            return ("hang", "the implementation did not finish within the case timeout")
        kind = case[0]
        cmp_, obs = impl_out
        if kind == "N":
            return self.oracle_nack(case[1], cmp_[1])
        if kind == "S":
            return self.oracle_sender(case, cmp_, obs[0])
        if kind == "R":
            return self.oracle_receiver(case, cmp_, obs[0])
        return self.oracle_loop(case, cmp_, obs[0])

    # ---- NackGenerator: bounded and complete, from the arrival list alone
    @staticmethod
    def oracle_nack(seqs, steps):
        if len(steps) != len(seqs):
            return ("nack-raised", f"NackGenerator.add raised after {len(steps)} packets")
        seen = set()
        mx = None
        prev_missing = set()
        for s, (missed, (m, missing)) in zip(seqs, steps):
            seen.add(s)
            m = m[0]
            if len(missing) > HIST:
                return ("nack-unbounded", f"{len(missing)} sequence numbers are tracked as missing (> {HIST})")
            for x in missing:
                d = (m - x) & M16
                if not (1 <= d <= HIST):
                    return ("nack-outside-window", f"missing contains {x}, which is {d} behind max_seq {m}")
            # the serial maximum of the arrivals
            if mx is None:
                mx = s
                skipped = set()
            else:
                d = (s - mx) & M16
                if 0 < d < 0x8000:
                    for j in range(1, d):
                        skipped.add((mx + j) & M16)
                    mx = s
                skipped.discard(s)
            if m != mx:
                return ("nack-max-seq", f"max_seq is {m}, the serial maximum of the arrivals is {mx}")
            want = {x for x in skipped if 1 <= ((mx - x) & M16) <= HIST}
            # `skipped` forgets nothing, the window does: numbers that left the window never come back
            skipped = set(want)
            if set(missing) != want:
                return ("nack-incomplete", f"after {s}: missing = {missing}, skipped-and-not-arrived within the window = "
                                           f"{sorted(want)}")
            grew = bool(set(missing) - prev_missing)
            if grew and not missed:
                return ("nack-not-signalled", f"missing grew on arrival {s} but add() returned False")
            prev_missing = set(missing)
        return None

    # ---- sender: consecutive sequence numbers, one timestamp per frame, marker, history = last 128 sends
    def oracle_sender(self, case, cmp_, parsed):
        _, cfg, ops = case
        pt, ssrc, rtx_ssrc, rtx_pt, mid, seq0, ts0, rtx_seq0, ext = cfg
        status, outs, state = cmp_
        if status != 0:
            return ("sender-raised", f"the sender raised (class {status}) while handling a NACK")
        if len(outs) != len(ops):
            return ("sender-stopped", f"_run_rtp stopped after {len(outs)} of {len(ops)} operations")
        log = []       # media packets in sending order
        seq = seq0
        rseq = rtx_seq0
        widx = 0
        for op, (t, pkts) in zip(ops, outs):
            if op[0] == 0:
                want_ts = (ts0 + op[1]) & M32
                if len(pkts) != len(op[3]):
                    return ("sender-packet-count", f"frame of {len(op[3])} payloads produced {len(pkts)} packets")
                for j, (p, (pl, ntp)) in enumerate(zip(pkts, op[3])):
                    marker = 1 if j == len(pkts) - 1 else 0
                    if p[2] != seq or p[3] != want_ts or p[0] != marker or p[7] != pl or p[1] != pt or p[4] != ssrc:
                        return ("sender-numbering", f"packet {j} of a frame: seq {p[2]} ts {p[3]} marker {p[0]}, "
                                                    f"property says seq {seq} ts {want_ts} marker {marker}")
                    log.append(p)
                    seq = (seq + 1) & M16
            else:
                want = []
                recent = log[-HIST:]
                for x in op[1]:
                    hit = [p for p in recent if p[2] == x]
                    if hit:
                        q = hit[-1]
                        if rtx_pt:
                            want.append([q[0], rtx_pt[0], rseq, q[3], rtx_ssrc, q[5], q[6],
                                         list(struct.pack("!H", q[2])) + q[7], 0])
                            rseq = (rseq + 1) & M16
                        else:
                            want.append(q)
                if pkts != want:
                    return ("retransmit-wrong", f"NACK {op[1]} after {len(log)} sends: retransmitted "
                                                f"{[[p[1], p[2]] for p in pkts]} (pt, seq), property says "
                                                f"{[[p[1], p[2]] for p in want]}")
            # the wire carries the same packets (fields visible on the wire)
            for p in pkts:
                w = parsed[widx] if widx < len(parsed) else None
                widx += 1
                if w is None or w[:5] != p[:5] or w[7] != p[7]:
                    return ("sender-wire", f"packet seq {p[2]} is not what went on the wire")
        return None

    # ---- frames against a synthetic stream (R cases): every frame is a run of one timestamp
    def oracle_receiver(self, case, cmp_, steps):
        cfg, packets = case[1], case[2]
        truth = case[3] if len(case) > 3 else None
        status = cmp_[0]
        if status != 0:
            return ("receiver-raised", f"_handle_rtp_packet raised (class {status}) on packet {len(steps)}")
        pli_since = True
        for res in steps:
            nack, pli, frames, args = res
            if pli:
                pli_since = True
            if truth and truth[0] == 2 and len(packets) < 60000:
                sizes = truth[1]
                for cpt, ts, data in frames:
                    chunks = _parse_raw(data)
                    if not chunks:
                        return ("frame-not-sent", f"a frame of {len(data)} bytes reached the decoder that is not made "
                                                  f"of sent packets")
                    fi = chunks[0][0]
                    js = [j for _, j in chunks]
                    if any(f != fi for f, _ in chunks) or js != list(range(js[0], js[0] + len(js))) or \
                            fi >= len(sizes) or js[-1] != sizes[fi] - 1:
                        return ("frame-not-sent", f"the decoder got packets {chunks} (frame, index): spliced, holed or "
                                                  f"cut short (frame sizes {sizes[fi] if fi < len(sizes) else None})")
                    if js[0] != 0 and not pli_since and cfg[2]:      # without an RTCP SSRC no PLI is visible
                        return ("frame-truncated", f"the tail of frame {fi} (from packet {js[0]}) reached the decoder "
                                                   f"although no packet was discarded since the previous frame")
                    pli_since = False
            for n in nack:
                if len(n[2]) > HIST:
                    return ("nack-too-long", f"a NACK lists {len(n[2])} sequence numbers")
            for a, n in zip(args, nack):
                if sorted(set(n[2])) != sorted(set(a)):
                    return ("nack-wire", f"NACK {a} decodes as {n[2]} after RTCP encoding")
            if len(frames) > 1:
                return ("multi-frame", "one packet put more than one frame into the decoder queue")
        return None

    # ---- closed loop
    def oracle_loop(self, case, cmp_, obs):
        _, params, frames, script = case
        if cmp_[0] != 0:
            return ("loop-raised", f"the closed loop raised (class {cmp_[0]})")
        sent = obs["sent"]
        fr = obs["frames"]
        rtx_on = bool(params["rtx"])
        # stream positions of the sent packets
        pos_of = {}
        base = params["seq0"]
        k = 0
        frame_pos = []
        for fi, f in enumerate(fr):
            frame_pos.append(k)
            for j in range(len(f[1])):
                if k >= len(sent) or sent[k][0] != ((base + k) & M16) or sent[k][1] != f[0]:
                    return ("sender-numbering", f"packet {k} (frame {fi}) has seq/ts {sent[k] if k < len(sent) else None}, "
                                                f"property says {(base + k) & M16}/{f[0]}")
                pos_of[sent[k][0]] = k
                k += 1
        if k != len(sent):
            return ("sender-packet-count", f"{len(sent)} media packets sent, frames hold {k} payloads")
        # what a frame at the tap may be: the whole bitstream of frame i, or (allowed tail) a suffix
        whole = {}
        suffix = {}
        for fi, f in enumerate(fr):
            whole.setdefault(bytes(f[2]), fi)
            deps = f[3]
            for j in range(1, len(deps)):
                suffix.setdefault(bytes(b for d in deps[j:] for b in d), (fi, j))
        # retransmissions: exactly the NACKed packets that are among the last 128 sends
        for n_sent, lost, got in obs["nacks_at_sender"]:
            if len(lost) > HIST:
                return ("nack-too-long", f"a NACK lists {len(lost)} sequence numbers")
            want = []
            for x in lost:
                p = pos_of.get(x)
                cands = [q for q in range(max(0, n_sent - HIST), n_sent) if sent[q][0] == x]
                if cands:
                    want.append(cands[-1])
            if len(got) != len(want):
                return ("retransmit-wrong", f"NACK {lost} after {n_sent} sends: {len(got)} retransmissions, "
                                            f"{len(want)} of the listed packets are among the last {HIST} sends")
            for g, q in zip(got, want):
                f_idx = max(i for i in range(len(fr)) if frame_pos[i] <= q)
                payload = fr[f_idx][1][q - frame_pos[f_idx]]
                if rtx_on:
                    ok = (g[1] == 101 and g[4] == 0x22222222 and g[3] == sent[q][1] and
                          g[7] == list(struct.pack("!H", sent[q][0])) + payload)
                else:
                    ok = (g[1] == 100 and g[2] == sent[q][0] and g[3] == sent[q][1] and g[7] == payload)
                if not ok:
                    return ("retransmit-wrong", f"retransmission of seq {sent[q][0]} is not the packet that was sent")
        rtx_seqs = [r[1][2] for r in obs["resent"]] if rtx_on else []
        for a, b in zip(rtx_seqs, rtx_seqs[1:]):
            if b != ((a + 1) & M16):
                return ("rtx-seq", f"RTX sequence numbers {a}, {b} are not consecutive")
        # the receiver side
        maxpos = None
        late = False
        released = []        # (frame index, whole?)
        pli_since = True     # start counts as "after a discard"
        first_ts = None
        first_pos = None
        pli_after_start = False
        for (pkt, res) in obs["arrivals"]:
            nack, pli, taps, args = res
            # lateness of this arrival relative to the newest position seen (the C10 hypothesis)
            seq = pkt[2]
            if pkt[1] == 101 and len(pkt[5]) >= 2:
                seq = pkt[5][0] * 256 + pkt[5][1]
            p = pos_of.get(seq)
            if p is not None:
                if maxpos is not None and maxpos - p >= 100:
                    late = True
                maxpos = p if maxpos is None else max(maxpos, p)
                if first_pos is None:
                    first_pos = p
            if pli:
                pli_after_start = True
            for n in nack:
                if len(n[2]) > HIST:
                    return ("nack-too-long", f"a NACK lists {len(n[2])} sequence numbers")
            for a, n in zip(args, nack):
                if sorted(set(n[2])) != sorted(set(a)) or len(a) > HIST:
                    return ("nack-wire", f"NACK {a} decodes as {n[2]} after RTCP encoding")
            if pli:
                pli_since = True
            if len(taps) > 1:
                return ("multi-frame", "one packet put more than one frame into the decoder queue")
            for cpt, ts, data in taps:
                b = bytes(data)
                if b in whole:
                    fi, is_whole = whole[b], True
                elif b in suffix:
                    fi, is_whole = suffix[b][0], False
                else:
                    return ("frame-not-sent", f"a frame of {len(b)} bytes reached the decoder that is neither a sent "
                                              f"frame nor the tail of one (spliced or holed)")
                if not is_whole and not pli_since:
                    return ("frame-truncated", f"the tail of frame {fi} (from packet {suffix[b][1]}) reached the decoder "
                                               f"although no packet was discarded since the previous frame")
                if first_ts is None:
                    first_ts = fr[fi][0]
                if (ts - (fr[fi][0] - first_ts)) % (2 ** 32) != 0:
                    return ("frame-timestamp", f"frame {fi} reached the decoder with timestamp {ts}, the sender's is "
                                               f"{fr[fi][0]} (first delivered frame {first_ts})")
                released.append(fi)
                pli_since = False
        if not late:
            for a, b in zip(released, released[1:]):
                if b <= a:
                    return ("frame-order", f"frame {b} reached the decoder after frame {a} although no packet was 100 "
                                           f"or more positions late")
        if params["mode"] == "recovery":
            n = obs["n_scripted_frames"]
            got = set(released)
            miss = [i for i in range(n) if i not in got and first_pos is not None and frame_pos[i] >= first_pos]
            if miss and not late:
                if pli_after_start:
                    return ("recovery-backlog-overflow",
                            f"frames {miss[:10]} never reached the decoder although every NACK and every "
                            f"retransmission was delivered: the jitter buffer overflowed and discarded packets")
                return ("frame-never-delivered", f"frames {miss[:10]} never reached the decoder although every NACK and "
                                                 f"every retransmission was delivered and traffic continued")
        return None

    @staticmethod
    def _late(case, obs):
        """did some packet arrive 100 or more stream positions behind the newest one (C10's lateness hypothesis)?"""
        base = case[1]["seq0"]
        pos_of = {(base + k) & M16: k for k in range(len(obs["sent"]))}
        maxpos = None
        for pkt, _ in obs["arrivals"]:
            seq = pkt[2]
            if pkt[1] == 101 and len(pkt[5]) >= 2:
                seq = pkt[5][0] * 256 + pkt[5][1]
            p = pos_of.get(seq)
            if p is None:
                continue
            if maxpos is not None and maxpos - p >= 100:
                return True
            maxpos = p if maxpos is None else max(maxpos, p)
        return False

    # ================================================================ bookkeeping
    def nontrivial(self, case, impl_out):
        if not isinstance(impl_out, list) or len(impl_out) != 2:
            return False
        kind = case[0]
        cmp_ = impl_out[0]
        if kind == "N":
            return any(st[0] for st in cmp_[1])
        if kind == "S":
            return any(t == 1 and pk for t, pk in cmp_[1])
        return any(o[0] or o[2] for o in cmp_[1])

    def distribution(self, cases, outs):
        d = {"N": 0, "S": 0, "R": 0, "L": 0, "nacks": 0, "plis": 0, "frames_to_decoder": 0, "retransmissions": 0,
             "loop_recovery": 0, "loop_late": 0, "loop_rtx": 0, "loop_vp8": 0, "loop_h264": 0, "arrivals": 0}
        for c, o in zip(cases, outs):
            d[c[0]] += 1
            if not isinstance(o, list) or len(o) != 2:
                continue
            if c[0] in ("R", "L"):
                for st in o[0][1]:
                    d["arrivals"] += 1
                    d["nacks"] += 1 if st[0] else 0
                    d["plis"] += 1 if st[1] else 0
                    d["frames_to_decoder"] += 1 if st[2] else 0
            if c[0] == "S":
                d["retransmissions"] += sum(len(pk) for t, pk in o[0][1] if t == 1)
            if c[0] == "L":
                d["retransmissions"] += len(o[1][0]["resent"])
                d["loop_recovery"] += 1 if c[1]["mode"] == "recovery" else 0
                d["loop_late"] += 1 if self._late(c, o[1][0]) else 0
                d["loop_rtx"] += c[1]["rtx"]
                d["loop_vp8"] += 1 if c[1]["codec"] == 0 else 0
                d["loop_h264"] += 1 if c[1]["codec"] == 1 else 0
        return d

    def describe_case(self, case):
        if case[0] == "L":
            return ["L", case[1], f"{len(case[2])} frames", "script omitted"]
        s = json.dumps(case)
        return case if len(s) < 1500 else [case[0], s[:1500] + "..."]

    def shrink_candidates(self, case):
        kind = case[0]
        if kind == "N":
            for c in Check.shrink_candidates(self, case[1]):
                yield ["N", c]
        elif kind in ("S", "R"):
            for c in Check.shrink_candidates(self, case[2]):
                yield [kind, case[1], c] + case[3:]
        else:
            for c in Check.shrink_candidates(self, case[2]):
                yield ["L", case[1], c, case[3]]


if __name__ == "__main__":
    import sys
    sys.exit(C11().main(sys.argv[1:]))
