"""C17 -- independence of sequence-number origins, across wraparound.

* translator validation: every function of Gen/Utils.v is evaluated inside Coq (vm_compute) and in
  Python on boundary-biased pairs (thorough: all 2^16 x boundary rows) - they must agree;
* k=0  receiver correspondence (Model/SctpRecv.v) with cumulative TSNs within a few hundred of the wrap;
* k=3  metamorphic oracle on the implementation: the same schedule is run with small origins and with
  origins shifted to / across the wrap point; observable behaviour must be equal up to the shift:
    'sctp'   two real endpoints (sim/scenario.py): messages, channel events, quiescence
    'recv'   RTCSctpTransport receive path: deliveries equal, SACK cum shifted, gap blocks equal
    'jitter' JitterBuffer: PLI flags and frames equal
    'nack'   NackGenerator: missing set shifted
    'stats'  StreamStatistics: received / expected / lost / jitter / fraction equal
"""
import os
import random

from harness import framework as F
from harness.framework import Check
from harness.sim import scenario as SC
from harness.props import c01 as C01mod

WRAPS16 = [0, 1, 65535, 65534, 65000, 32767, 32768, 300]
WRAPS32 = [0, 1, 0xFFFFFFFF, 0xFFFFFFF0, 0xFFFFFF00, 0x7FFFFFFF, 0x80000000, 0x7FFFFF00]


def _serial_pairs(bits, rng, n):
    m = 1 << bits
    half = m >> 1
    out = []
    base = [0, 1, 2, half - 1, half, half + 1, m - 2, m - 1]
    for a in base:
        for b in base:
            out.append((a, b))
    for _ in range(n):
        a = rng.randrange(m)
        d = rng.choice([0, 1, 2, half - 1, half, half + 1, m - 1, rng.randrange(m)])
        out.append((a, (a + d) % m))
    return out


class C17(Check):
    prop = "C17"
    props_file = "Props/C17.v"
    models = ["SctpRecv", "SctpSend", "RtpRecv", "RtpSend", "Chan", "SctpTx"]
    quick_cases = 700
    thorough_cases = 15000
    case_timeout = 60.0
    level_note = ("Serial-arithmetic laws are proved about Gen/Utils.v, which is regenerated from utils.py on every "
                  "run (validated by value inside Coq). Shift-invariance theorems are about Model/SctpRecv.v, "
                  "Model/SctpTx.v, Model/SctpSend.v, Model/RtpRecv.v (NackGenerator), Model/RtpSend.v (history), Model/Chan.v (RE-CONFIG numbering), Model/Jitter.v and Model/Stats.v (each tied to the code by its own "
                  "correspondence; the receiver, _send, NackGenerator, RTP sender and data-channel layer ties are re-run here at the wrap points); "
                  "the metamorphic re-run of the implementation is an additional oracle.")
    rule = ("k=0: receiver event lists with cumulative TSN within 300 of 2^32 / 2^31 / 0; k=2 / 4 / 5 / 6: _send, "
            "NackGenerator, RTP sender and data-channel layer correspondences with counters starting at the wrap; k=3: metamorphic pairs "
            "(schedule at small origin, same schedule shifted to the wrap) for SCTP endpoints, receive path, "
            "JitterBuffer, NackGenerator, Generic NACK feedback parsed off the wire (entries straddling the wrap), StreamStatistics; distinct by (case, outputs); non-trivial = the shifted "
            "run actually crosses a wrap point")

    # ---------------------------------------------------------------- translator validation
    def gen_validation(self):
        from aiortc import utils
        rng = random.Random(12345)
        n16 = 400 if os.environ.get("VERIF_TIER") != "thorough" else 20000
        rows = []
        for name, fn, bits, isbool in [("uint16_add", utils.uint16_add, 16, False), ("uint16_gt", utils.uint16_gt, 16, True),
                                       ("uint16_gte", utils.uint16_gte, 16, True), ("uint32_add", utils.uint32_add, 32, False),
                                       ("uint32_gt", utils.uint32_gt, 32, True), ("uint32_gte", utils.uint32_gte, 32, True)]:
            pairs = _serial_pairs(bits, rng, n16)
            lits = "; ".join(f"({a}, {b}, {('true' if fn(a, b) else 'false') if isbool else fn(a, b)})" for a, b in pairs)
            eq = "Bool.eqb" if isbool else "Z.eqb"
            rows.append((name, f"forallb (fun t => {eq} ({name} (fst (fst t)) (snd (fst t))) (snd t)) [{lits}]", len(pairs)))
        text = "From Coq Require Import ZArith List Bool.\nFrom AV Require Import Gen.Utils.\nImport ListNotations.\nLocal Open Scope Z_scope.\n"
        for name, expr, _ in rows:
            text += f"Eval vm_compute in ({expr}).\n"
        os.makedirs(F.WORK, exist_ok=True)
        path = os.path.join(F.WORK, "genval_c17.v")
        with open(path, "w") as fp:
            fp.write(text)
        rc, out = F.sh(f"timeout 600 coqc -Q {F.COQ} AV -w -notation-overridden,-deprecated {path}", cwd=F.WORK)
        vals = [l.strip() for l in out.splitlines() if l.strip().startswith("= ")]
        res = []
        for (name, _, n), v in zip(rows, vals + ["= missing"] * len(rows)):
            res.append((f"{name}: Coq and Python agree on {n} pairs", rc == 0 and v.startswith("= true")))
        self.genval = {name: n for name, _, n in rows}
        return res

    # ---------------------------------------------------------------- cases
    def gen_case(self, rng, i):
        r = rng.random()
        if r < 0.06:
            # theorem 2b is about Model/SctpTx.v: its tie to the real sender (C02's sender cases), with TSN origins at the
            # 32-bit wrap and stream sequence numbers starting just below the 16-bit wrap (FORWARD-TSN stream lists)
            from harness.props import c02 as C02mod
            return {"k": 7, "c02": C02mod.gen_tx_case(rng, ssn_origins=[65535, 65535, 65534, 65533])}
        if r < 0.075:
            # theorem 7 is about Model/Chan.v: its tie to a real RTCSctpTransport (C13's data-channel layer cases) with
            # the RE-CONFIG request numbering starting within 3 of the 32-bit wrap
            from harness.props import c13 as C13mod
            c = C13mod.gen_layer_case(rng)
            delta = (2 ** 32 - rng.randrange(1, 4) - c["req"]) & 0xFFFFFFFF
            c["req"] = (c["req"] + delta) & 0xFFFFFFFF
            c["ins"] = [[10, (i[1] + delta) & 0xFFFFFFFF] if i[0] == 10 else i for i in c["ins"]]
            # a tail that certainly numbers requests across the wrap: channels are created, get ids, are closed, the
            # RE-CONFIG task runs, every request number that may be pending is answered
            nch = sum(1 for i in c["ins"] if i[0] == 0)
            tail = [[6]]
            for j in range(4):
                tail += [[0, 0, [], 1, [], [], [99], []], [4, [0, 0, 0, 0]], [2, nch + j, 0], [5]]
                tail += [[10, (c["req"] + d) & 0xFFFFFFFF] for d in range(0, 6)]
            c["ins"] = c["ins"][:25] + tail
            return {"k": 6, "c13": c}
        if r < 0.10:
            # theorem 6 is about Model/RtpSend.v: its tie to a real RTCRtpSender (C11's sender cases start their sequence
            # counters within 140 of the wrap most of the time)
            from harness.props.c11 import C11
            return {"k": 5, "c11": C11().gen_sender(rng)}
        if r < 0.14:
            # theorem 5 is about the NackGenerator of Model/RtpRecv.v: its tie, at sequence numbers around the wrap
            from harness.props.c11 import C11
            return {"k": 4, "seqs": C11().gen_nack(rng)[1]}
        if r < 0.20:
            # the sender's SSN counters at origins around the 16-bit wrap, TSNs around the 32-bit wrap (theorem 2d is
            # about Model/SctpSend.v: this is its tie to RTCSctpTransport._send)
            c = C01mod.C01.gen_send_case(rng, origins=[65535, 65534, 65533, 65530, 32767, 32768, 0])
            c["tsn0"] = (rng.choice(WRAPS32) - rng.randrange(0, 6)) & 0xFFFFFFFF
            return c
        if r < 0.40:
            base = rng.choice(WRAPS32) - rng.randrange(0, 6) & 0xFFFFFFFF
            chunks, sent = C01mod.make_sender_chunks(rng, base)
            arr = [rng.randrange(len(chunks)) for _ in range(rng.randrange(1, 3 * len(chunks) + 2))]
            perm = list(range(len(chunks)))
            rng.shuffle(perm)
            events = [[0, chunks[j]] for j in arr + perm]
            if rng.random() < 0.3:
                events.insert(rng.randrange(len(events)), [1, (base + rng.randrange(0, len(chunks))) & 0xFFFFFFFF, []])
            return {"k": 0, "base": base, "events": events, "sent": sent, "honest": 1}
        kind = rng.choice(["sctp", "recv", "recv", "jitter", "jitter", "nack", "nackwire", "stats"])
        if kind == "nackwire":
            # Generic NACK feedback as another implementation packs it: entries in serial order, so one entry (packet id +
            # 16-bit mask of the following packets) can straddle the 16-bit wrap
            entries = []
            for _ in range(rng.randrange(1, 5)):
                entries.append([rng.randrange(0, 40), rng.choice([0, 1, 0b111, 0x8000, 0xFFFF, rng.randrange(65536)])])
            return {"k": 3, "kind": "nackwire", "entries": entries,
                    "delta": (rng.choice(WRAPS16) - 1000 - rng.randrange(0, 60)) % 65536}
        if kind == "sctp":
            sc = SC.gen_scenario(rng, reliable_only=(rng.random() < 0.6), origins=[7], nops=rng.randrange(8, 40))
            sc["ops"] = [op for op in sc["ops"] if op[0] != 7]
            d = [rng.choice([0xFFFFFFF0, 0xFFFFFFFF - 7, 0x7FFFFFF0, 0xFFFFFFF8 - 7]) for _ in range(2)]
            return {"k": 3, "kind": "sctp", "scenario": sc, "delta": d}
        if kind == "recv":
            base = 1000
            chunks, sent = C01mod.make_sender_chunks(rng, base)
            arr = [rng.randrange(len(chunks)) for _ in range(rng.randrange(2, 3 * len(chunks) + 2))]
            events = [[0, chunks[j]] for j in arr]
            if rng.random() < 0.4:
                events.insert(rng.randrange(len(events) + 1), [1, base + rng.randrange(0, len(chunks) + 1), [[rng.randrange(3), rng.randrange(3)]]])
            ordered_last = [c for c in chunks if not c[3] and c[5]]
            if ordered_last and rng.random() < 0.5:
                # a FORWARD-TSN that really abandons an ordered message: cumulative TSN = its last fragment, stream
                # list = its stream and sequence number; it arrives early so that later messages depend on it
                c = rng.choice(ordered_last)
                events.insert(rng.randrange(0, len(events) // 2 + 1), [1, c[0], [[c[1], c[2]]]])
                events += [[0, x] for x in chunks if x[0] > c[0]]
            delta = (rng.choice(WRAPS32) - base - rng.randrange(0, len(chunks) + 2)) & 0xFFFFFFFF
            # stream sequence numbers start just below the 16-bit wrap in the shifted run
            sdelta = rng.choice([0, 65535, 65534, 65533, 65530, 32767, 32768])
            return {"k": 3, "kind": "recv", "base": base, "events": events, "delta": delta, "sdelta": sdelta}
        if kind == "jitter":
            cap = rng.choice([4, 8, 16, 32, 128])
            real = None
            if rng.random() < 0.4:
                # exactly the buffers the receivers use (audio: small with prefetch, video: large)
                real = rng.choice(receiver_buffers())
                cap = real[0]
            seq = 1000
            pk = []
            ts = 5000
            for f in range(rng.randrange(2, 20)):
                for _ in range(rng.randrange(1, 5)):
                    pk.append([seq, ts, [f % 256]])
                    seq += 1
                ts += 3000
            arr = []
            for p in pk:
                x = rng.random()
                if x < 0.1:
                    continue
                arr.append(p)
                if x > 0.9:
                    arr.append(p)
            for _ in range(rng.randrange(0, 4)):
                if len(arr) > 2:
                    i1 = rng.randrange(len(arr) - 1)
                    j1 = min(len(arr) - 1, i1 + rng.randrange(1, 6))
                    arr[i1], arr[j1] = arr[j1], arr[i1]
            return {"k": 3, "kind": "jitter", "cap": cap, "prefetch": real[1] if real else rng.randrange(0, 5),
                    "video": real[2] if real else rng.randrange(2),
                    "pkts": arr, "delta": (rng.choice(WRAPS16) - 1000 - rng.randrange(0, 10)) % 65536,
                    "tdelta": (rng.choice(WRAPS32) - 5000 - rng.randrange(0, 3) * 3000) & 0xFFFFFFFF}
        if kind == "nack":
            seqs = []
            s = 2000
            for _ in range(rng.randrange(3, 60)):
                s += rng.choice([1, 1, 1, 2, 3, 5, -1, -2, 130])
                seqs.append(s % 65536)
            return {"k": 3, "kind": "nack", "seqs": seqs, "delta": (rng.choice(WRAPS16) - 2000 - rng.randrange(0, 30)) % 65536}
        seq, ts, arr_t = 3000, 100000, 50000
        evs = []
        for _ in range(rng.randrange(3, 50)):
            seq += rng.choice([1, 1, 1, 2, 4, -1, 0])
            ts += rng.choice([0, 160, 160, 3000])
            arr_t += rng.choice([100, 160, 200, 3000])
            evs.append([seq % 65536, ts & 0xFFFFFFFF, arr_t])
        return {"k": 3, "kind": "stats", "evs": evs, "delta": (rng.choice(WRAPS16) - 3000 - rng.randrange(0, 20)) % 65536,
                "tdelta": (rng.choice(WRAPS32) - 100000 - rng.randrange(0, 5) * 160) & 0xFFFFFFFF}

    def model_name(self, case):
        return {0: "SctpRecv", 2: "SctpSend", 4: "RtpRecv", 5: "RtpSend", 6: "Chan", 7: "SctpTx"}.get(case["k"])

    def model_canon(self, case, out):
        if case["k"] == 5:
            from harness.props.c11 import C11
            return C11().model_canon(case["c11"], out)
        return out

    def encode(self, case):
        if case["k"] == 7:
            from harness.props.c02 import C02
            return C02().encode(case["c02"])
        if case["k"] == 6:
            from harness.props.c13 import C13
            return C13().encode(case["c13"])
        if case["k"] == 5:
            from harness.props.c11 import C11
            return C11().encode(case["c11"])
        if case["k"] == 4:
            return [0, case["seqs"]]
        if case["k"] == 2:
            return C01mod.C01().encode(case)
        return [case["base"], case["events"]]

    def describe_case(self, case):
        if case["k"] == 7:
            from harness.props.c02 import C02
            return C02().describe_case(case["c02"])
        if case["k"] == 6:
            from harness.props.c13 import C13
            return C13().describe_case(case["c13"])
        if case["k"] == 5:
            return {"k": 5, "cfg": case["c11"][1], "ops": len(case["c11"][2])}
        if case["k"] == 4:
            return {"k": 4, "seqs": case["seqs"][:40]}
        if case["k"] == 2:
            return C01mod.C01().describe_case(case)
        if case["k"] == 0:
            return {"k": 0, "base": case["base"], "events": [[e[0], e[1][:7] if e[0] == 0 else e[1:]] for e in case["events"][:10]]}
        d = {k: v for k, v in case.items() if k not in ("scenario", "events", "pkts", "evs", "seqs")}
        return d

    # ---------------------------------------------------------------- implementation
    def impl_run(self, case):
        if case["k"] == 7:
            from harness.props.c02 import C02
            return C02().impl_run(case["c02"])
        if case["k"] == 6:
            from harness.props.c13 import C13
            return C13().impl_run(case["c13"])
        if case["k"] == 5:
            from harness.props.c11 import C11
            return C11().impl_run(case["c11"])
        if case["k"] == 4:
            from harness.props.c11 import C11
            return C11().impl_nack(["N", case["seqs"]])[0]
        if case["k"] in (0, 2):
            return C01mod.C01().impl_run(case)
        kind = case["kind"]
        if kind == "sctp":
            a = SC.run_scenario(case["scenario"])
            sc2 = dict(case["scenario"])
            sc2["tsn"] = [(7 + case["delta"][0]) & 0xFFFFFFFF, (7 + case["delta"][1]) & 0xFFFFFFFF]
            b = SC.run_scenario(sc2)
            proj = lambda o: {"events": o["events"], "channels": o["channels"], "quiescent": o["quiescent"],
                              "healed": o["healed_rounds"] is not None, "errors": o["errors"],
                              "datagrams": o["datagrams"], "flight": o["flight"]}
            return {"a": proj(a), "b": proj(b)}
        if kind == "recv":
            d = case["delta"]
            sd = case.get("sdelta", 0)
            c1 = {"k": 0, "base": case["base"], "events": case["events"]}
            ev2 = []
            for e in case["events"]:
                if e[0] == 0:
                    ch = list(e[1])
                    ch[0] = (ch[0] + d) & 0xFFFFFFFF
                    ch[2] = (ch[2] + sd) & 0xFFFF
                    ev2.append([0, ch])
                else:
                    ev2.append([1, (e[1] + d) & 0xFFFFFFFF, [[x[0], (x[1] + sd) & 0xFFFF] for x in e[2]]])
            c2 = {"k": 0, "base": (case["base"] + d) & 0xFFFFFFFF, "events": ev2, "ssn0": sd}
            r = C01mod.C01()
            return {"a": r.impl_run(c1), "b": r.impl_run(c2)}
        if kind == "jitter":
            return {"a": _jitter(case, 0, 0), "b": _jitter(case, case["delta"], 0), "c": _jitter(case, 0, case["tdelta"])}
        if kind == "nack":
            return {"a": _nack(case["seqs"], 0), "b": _nack(case["seqs"], case["delta"])}
        if kind == "nackwire":
            return {"a": _nackwire(case["entries"], 1000), "b": _nackwire(case["entries"], 1000 + case["delta"])}
        return {"a": _stats(case["evs"], 0, 0), "b": _stats(case["evs"], case["delta"], case["tdelta"])}

    # ---------------------------------------------------------------- oracle
    def oracle(self, case, out):
        if case["k"] == 7:
            from harness.props.c02 import C02
            return C02().oracle(case["c02"], out)
        if case["k"] == 6:
            from harness.props.c13 import C13
            return C13().oracle(case["c13"], out)
        if case["k"] == 5:
            from harness.props.c11 import C11
            return C11().oracle(case["c11"], out)
        if case["k"] == 4:
            from harness.props.c11 import C11
            return C11().oracle_nack(case["seqs"], out[1])
        if case["k"] in (0, 2):
            return C01mod.C01().oracle(case, out)
        kind = case["kind"]
        if kind == "sctp":
            if out["a"] != out["b"]:
                for key in out["a"]:
                    if out["a"][key] != out["b"][key]:
                        return ("sctp-origin-dependent", f"two-endpoint run differs in '{key}' when the TSN origins are "
                                                         f"shifted by {case['delta']}")
            return None
        if kind == "recv":
            d = case["delta"]
            for (oa, sa), (ob, sb) in zip(out["a"], out["b"]):
                if oa == [-2] or ob == [-2]:
                    if oa != ob:
                        return ("recv-origin-dependent", "assertion fired in only one of the two runs")
                    continue
                if oa[0] != ob[0]:
                    return ("recv-origin-dependent", f"deliveries differ after shifting TSNs by {d}: {oa[0]} vs {ob[0]}")
                if oa[1] and ob[1]:
                    if (oa[1][0] + d) & 0xFFFFFFFF != ob[1][0] or oa[1][2] != ob[1][2] or \
                            [(x + d) & 0xFFFFFFFF for x in oa[1][3]] != ob[1][3]:
                        return ("recv-origin-dependent", f"SACK differs beyond the shift {d}: {oa[1]} vs {ob[1]}")
                elif oa[1] != ob[1]:
                    return ("recv-origin-dependent", "SACK sent in only one run")
            return None
        if kind == "jitter":
            if out["a"] != out["b"]:
                return ("jitter-origin-dependent", f"JitterBuffer output differs when sequence numbers are shifted by {case['delta']}")
            td = case["tdelta"]
            want = [[p, [] if not f else [(f[0] + td) & 0xFFFFFFFF, f[1]]] for p, f in out["a"]]
            if want != out["c"]:
                return ("jitter-origin-dependent", f"JitterBuffer output differs when timestamps are shifted by {td}")
            return None
        if kind == "nackwire":
            d = case["delta"]
            want = [(x + d) % 65536 for x in out["a"]]
            if out["b"] != want:
                return ("nack-origin-dependent", f"the packets a Generic NACK names differ beyond the shift {d} of the sequence numbers: "
                                                 f"{out['b'][:20]} instead of {want[:20]}")
            return None
        if kind == "nack":
            d = case["delta"]
            want = [[sorted((x + d) % 65536 for x in m), t] for m, t in out["a"]]
            got = [[sorted(m), t] for m, t in out["b"]]
            if want != got:
                return ("nack-origin-dependent", f"NackGenerator missing set differs beyond the shift {d}")
            return None
        a, b = out["a"], out["b"]
        for x, y in zip(a, b):
            if x != y:
                return ("stats-origin-dependent", f"StreamStatistics figures differ when origins are shifted: {x} vs {y}")
        return None

    def nontrivial(self, case, out):
        if case["k"] == 7:
            return any(any(e[0] == 1 for e in evs) for evs, st in out)      # a FORWARD-TSN was built
        if case["k"] == 6:
            # a RE-CONFIG request was numbered across the wrap
            reqs = [e[1] for evs, _ in out for e in evs if e and e[0] == 6]
            return any(q >= 2 ** 32 - 4 for q in reqs) and any(q < 4 for q in reqs)
        if case["k"] == 5:
            return True
        if case["k"] == 4:
            return max(case["seqs"]) - min(case["seqs"]) > 60000 and any(st[0] for st in out[1])
        if case["k"] == 2:
            ssns = [ch[2] for chunks in out for ch in chunks[:1] if not ch[3]]
            return 65535 in ssns and 0 in ssns
        if case["k"] == 0:
            tsns = [e[1][0] for e in case["events"] if e[0] == 0]
            return bool(tsns) and (max(tsns) - min(tsns) > 2 ** 31)
        if case["kind"] == "sctp":
            return any(e[1] == "message" for e in out["a"]["events"])
        return True

    def distribution(self, cases, outs):
        d = {"recv_corr": 0, "crossing_wrap": 0}
        for c, o in zip(cases, outs):
            if c["k"] == 7:
                d["sctp_sender_corr"] = d.get("sctp_sender_corr", 0) + 1
            elif c["k"] == 6:
                d["chan_corr"] = d.get("chan_corr", 0) + 1
            elif c["k"] == 5:
                d["rtp_sender_corr"] = d.get("rtp_sender_corr", 0) + 1
            elif c["k"] == 4:
                d["nack_corr"] = d.get("nack_corr", 0) + 1
            elif c["k"] == 2:
                d["send_corr"] = d.get("send_corr", 0) + 1
            elif c["k"] == 0:
                d["recv_corr"] += 1
                tsns = [e[1][0] for e in c["events"] if e[0] == 0]
                if tsns and max(tsns) - min(tsns) > 2 ** 31:
                    d["crossing_wrap"] += 1
            else:
                d[c["kind"]] = d.get(c["kind"], 0) + 1
        d["translator_validation_pairs"] = getattr(self, "genval", {})
        return d

    def shrink_candidates(self, case):
        return iter(())


_RECEIVER_BUFFERS = None


def receiver_buffers():
    """(capacity, prefetch, is_video) of the jitter buffers the real RTCRtpReceiver creates for audio and for video"""
    global _RECEIVER_BUFFERS
    if _RECEIVER_BUFFERS is None:
        from aiortc.rtcrtpreceiver import RTCRtpReceiver
        from harness.props.c11 import _RecvTransport

        async def noop(data):
            return None
        out = []
        for kind in ("audio", "video"):
            jb = getattr(RTCRtpReceiver(kind, _RecvTransport(noop)), "_RTCRtpReceiver__jitter_buffer")
            out.append([jb._capacity, jb._prefetch, 1 if jb._is_video else 0])
        _RECEIVER_BUFFERS = out
    return _RECEIVER_BUFFERS


def _jitter(case, d, td):
    from aiortc.jitterbuffer import JitterBuffer
    from aiortc.rtp import RtpPacket
    jb = JitterBuffer(capacity=case["cap"], prefetch=case["prefetch"], is_video=bool(case["video"]))
    outs = []
    for seq, ts, data in case["pkts"]:
        p = RtpPacket(sequence_number=(seq + d) % 65536, timestamp=(ts + td) & 0xFFFFFFFF)
        p._data = bytes(data)
        pli, frame = jb.add(p)
        outs.append([1 if pli else 0, [] if frame is None else [frame.timestamp, list(frame.data)]])
    return outs


def _nack(seqs, d):
    from aiortc.rtcrtpreceiver import NackGenerator
    from aiortc.rtp import RtpPacket
    g = NackGenerator()
    outs = []
    for s in seqs:
        t = g.add(RtpPacket(sequence_number=(s + d) % 65536))
        outs.append([sorted(g.missing), 1 if t else 0])
    return outs


def _nackwire(entries, origin):
    """the sequence numbers RTCDtlsTransport's RTCP parser reads out of a Generic NACK (built here byte by byte)"""
    import struct
    from aiortc.rtp import RtcpPacket
    fci = b"".join(struct.pack("!HH", (origin + off) % 65536, blp) for off, blp in entries)
    data = struct.pack("!BBHLL", 0x80 | 1, 205, 2 + len(entries), 77, 1234) + fci
    lost = []
    for p in RtcpPacket.parse(data):
        lost += list(p.lost)
    return lost


def _stats(evs, d, td):
    from aiortc import rtcrtpreceiver as R
    from aiortc.rtp import RtpPacket
    import types
    st = R.StreamStatistics(clockrate=8000)
    outs = []
    real_time = R.time
    try:
        for seq, ts, arr in evs:
            R.time = types.SimpleNamespace(time=lambda arr=arr: arr / 8000.0)
            st.add(RtpPacket(sequence_number=(seq + d) % 65536, timestamp=(ts + td) & 0xFFFFFFFF))
            outs.append([st.packets_received, st.packets_expected, st.packets_lost, st.jitter, st.fraction_lost])
    finally:
        R.time = real_time
    return outs


if __name__ == "__main__":
    import sys
    sys.exit(C17().main(sys.argv[1:]))
