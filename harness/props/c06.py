"""C06 -- partially reliable channels drop only whole messages and never disturb others.

k=0  sender correspondence (Model/SctpTx.v) on histories dominated by retransmit-limited and
     lifetime-limited messages, incl. messages larger than the congestion window;
k=2  receiver correspondence (Model/SctpRecv.v) on event lists with FORWARD-TSN chunks;
k=1  two real endpoints with a mix of reliable and partially reliable channels (ordered / unordered,
     rexmit- / lifetime-limited) under fault schedules; after the fault-free suffix a probe message
     is sent on every open channel; oracle = the property.
"""
from harness.framework import Check
from harness.sim import scenario as SC
from harness.props import c01 as C01mod
from harness.props import c02 as C02mod


def gen_pr_scenario(rng):
    case = SC.gen_scenario(rng, pr=True, big=True)
    ops = case["ops"]
    if rng.random() < 0.5 and [9] in ops:
        # channels created while the network is misbehaving (their DCEP OPEN / ACK can be lost, duplicated, overtaken),
        # then used
        first = ops.index([9]) + 1
        for _ in range(rng.randrange(1, 4)):
            at = rng.randrange(first, len(ops) + 1)
            ep = rng.randrange(2)
            ops[at:at] = [[0, ep, rng.choice([2, 3, 4, 5, 6, 0]), rng.randrange(40)]] + \
                [[1, ep, -1, rng.randrange(2), rng.choice([1, 100, 1200, 3000])] for _ in range(rng.randrange(0, 3))]
    case["ops"] = ops + [[12], [11]]
    return case


class C06(C02mod.C02):
    prop = "C06"
    props_file = "Props/C06.v"
    models = ["SctpTx", "SctpRecv"]
    quick_cases = 700
    thorough_cases = 20000
    level_note = ("Theorems are about Model/SctpTx.v (abandonment, FORWARD-TSN construction) and Model/SctpRecv.v "
                  "(FORWARD-TSN handling, pruning, delivery); ties = the sender and receiver differential runs. "
                  "Non-interference and recovery across two endpoints are observed by the two-endpoint simulator "
                  "(probe message on every channel after the network healed), not proved.")
    rule = ("k=0: sender histories with 25-40% partially reliable messages (maxRetransmits 0/1, lifetimes), messages "
            "of up to 11 fragments (> cwnd), SACKs, T3, time jumps; k=2: receiver event lists with FORWARD-TSN; "
            "k=1: two real endpoints, mixed channel kinds (half of the runs also create channels while faults are being injected), faults, "
            "heal, probe on every channel, heal; "
            "distinct by (case, outputs); non-trivial = at least one FORWARD-TSN sent or received, or a message "
            "abandoned")

    def gen_case(self, rng, i):
        r = rng.random()
        if r < 0.2:
            return gen_pr_scenario(rng)
        if r < 0.6:
            return C02mod.gen_tx_case(rng)
        base = rng.choice(C01mod.ORIGINS)
        chunks, sent = C01mod.make_sender_chunks(rng, base)
        events = []
        for _ in range(rng.randrange(2, 16)):
            if rng.random() < 0.3:
                cum = (base + rng.randrange(0, len(chunks) + 2)) & 0xFFFFFFFF
                events.append([1, cum, [[rng.randrange(3), rng.randrange(4)] for _ in range(rng.randrange(0, 3))]])
            else:
                events.append([0, rng.choice(chunks)])
        return {"k": 2, "base": base, "events": events, "sent": sent, "honest": 1}

    def model_name(self, case):
        return {0: "SctpTx", 2: "SctpRecv"}.get(case["k"])

    def encode(self, case):
        if case["k"] == 2:
            return [case["base"], case["events"]]
        return super().encode(case)

    def describe_case(self, case):
        if case["k"] == 2:
            return {"k": 2, "base": case["base"],
                    "events": [[e[0], e[1][:7] if e[0] == 0 else e[1:]] for e in case["events"][:12]]}
        return super().describe_case(case)

    def impl_run(self, case):
        if case["k"] == 2:
            c = dict(case)
            c["k"] = 0
            return C01mod.C01().impl_run(c)
        return super().impl_run(case)

    def oracle(self, case, out):
        if case["k"] == 2:
            # integrity under FORWARD-TSN: whatever is delivered is a sent message, at most once
            sent = case["sent"]
            keyed = [[s[0], s[2], s[3]] for s in sent]
            seen = []
            for o in out:
                if o[0] == [-2]:
                    return ("reassembly-assertion", "InboundStream.add_chunk assertion fired")
                for m in o[0][0]:
                    if m not in keyed:
                        return ("corrupt-message", f"delivered {m[:2]} is not a sent message")
                    if m in seen:
                        return ("duplicate-delivery", f"message {m[:2]} delivered twice")
                    seen.append(m)
            # `messages sent afterwards are delivered again`: on a stream that carries unordered chunks only, a complete
            # message (B .. E with consecutive TSNs) never stays behind in the reassembly queue - every arrival is
            # followed by a scan of the queue, which must find it whatever fragments of other messages surround it
            if case.get("honest"):
                by_tsn = {e[1][0]: e[1] for e in case["events"] if e[0] == 0}
                for k, o in enumerate(out):
                    if o[0] == [-2] or len(o) < 2:
                        continue
                    for sid, tsns, _seq in o[1][3]:
                        chunks = [by_tsn.get(t) for t in tsns]
                        if any(c is None or not c[3] for c in chunks):
                            continue
                        for i, c in enumerate(chunks):
                            if c[4]:
                                t = c[0]
                                for d in chunks[i:]:
                                    if d[0] != t:
                                        break
                                    if d[5]:
                                        return ("unordered-message-stuck-behind-fragments",
                                                f"after event #{k} the complete unordered message starting at TSN {c[0]} on stream "
                                                f"{sid} sits in the reassembly queue {tsns} and was not delivered")
                                    t = (t + 1) & 0xFFFFFFFF
            return None
        if case["k"] == 0:
            return super().oracle(case, out)
        return scenario_oracle_pr(out)

    def nontrivial(self, case, out):
        if case["k"] == 0:
            return any(any(e[0] == 1 for e in evs) or any(c[2] for c in st[9]) for evs, st in out)
        if case["k"] == 2:
            return any(e[0] == 1 for e in case["events"]) and any(o[0] != [-2] and o[0][0] for o in out)
        return any(ch["maxRetransmits"] is not None or ch["maxPacketLifeTime"] is not None
                   for ch in out["channels"][0] + out["channels"][1])

    def distribution(self, cases, outs):
        d = {"tx": 0, "recv": 0, "scenario": 0, "fwd_sent": 0, "fwd_received": 0, "abandoned_chunks": 0, "probes": 0,
             "pr_channels": 0}
        for c, o in zip(cases, outs):
            if c["k"] == 0:
                d["tx"] += 1
                for evs, st in o:
                    d["fwd_sent"] += sum(1 for e in evs if e[0] == 1)
                    d["abandoned_chunks"] += sum(1 for x in st[9] if x[2])
            elif c["k"] == 2:
                d["recv"] += 1
                d["fwd_received"] += sum(1 for e in c["events"] if e[0] == 1)
            else:
                d["scenario"] += 1
                d["probes"] += len(o.get("probes", []))
                d["pr_channels"] += sum(1 for ch in o["channels"][0] + o["channels"][1]
                                        if ch["maxRetransmits"] is not None or ch["maxPacketLifeTime"] is not None)
        return d

    def shrink_candidates(self, case):
        if case["k"] == 1:
            ops = case["ops"][:-2]
            n = len(ops)
            step = max(1, n // 2)
            while step >= 1:
                for i in range(0, n, step):
                    c = dict(case)
                    c["ops"] = ops[:i] + ops[i + step:] + [[12], [11]]
                    yield c
                if step == 1:
                    break
                step //= 2
        elif case["k"] == 2:
            l = case["events"]
            for i in range(len(l)):
                c = dict(case)
                c["events"] = l[:i] + l[i + 1:]
                yield c


def scenario_oracle_pr(obs):
    if obs["errors"]:
        return ("exception-escaped", f"exception escaped a handler: {obs['errors'][0]}")
    closed = set((a, b) for a, b in obs["closed_ops"])
    for ep, i, j, ch in SC.pair_channels(obs):
        sent = SC.sent_on(obs, ep, i)
        got = SC.delivered_on(obs, 1 - ep, j)
        for m in got:
            if m not in sent:
                return ("corrupt-message", f"channel id {ch['id']}: delivered value was never sent on it")
            if got.count(m) > sent.count(m):
                return ("duplicate-delivery", f"channel id {ch['id']}: a message was delivered more often than sent")
        if ch["ordered"] and not SC.is_subsequence(got, sent):
            return ("order-violation", f"ordered channel id {ch['id']}: deliveries are not in sending order")
    if not obs["established"] or obs["stopped"]:
        return None
    if not obs["healed_mid"] or obs["healed_mid"][0] is None or obs["healed_rounds"] is None or not obs["quiescent"]:
        return ("not-quiescent-after-healing", f"queues sent={obs['sent_queue']} outbound={obs['outbound_queue']}")
    pr = lambda c: c["maxRetransmits"] is not None or c["maxPacketLifeTime"] is not None
    # a channel that was created and never closed is usable once the network has recovered (its DCEP OPEN / ACK are
    # sent reliably whatever the channel's own reliability): otherwise nothing sent on it afterwards can be delivered
    for ep in (0, 1):
        remote = set(key for e, kind, key, m in obs["events"] if e == ep and kind == "datachannel")
        for i, ch in enumerate(obs["channels"][ep]):
            if i not in remote and (ep, i) not in closed and ch["state"] == "connecting":
                return ("no-recovery-after-healing", f"ep{ep} channel #{i} (id {ch['id']}, {'PR' if pr(ch) else 'reliable'}) is still "
                                                     "'connecting' after the network healed: nothing can be sent on it")
    for ep, i, j, ch in SC.pair_channels(obs):
        peer = obs["channels"][1 - ep][j]
        if (ep, i) in closed or ch["state"] != "open" or peer["state"] != "open":
            continue
        sent = SC.sent_on(obs, ep, i)
        got = SC.delivered_on(obs, 1 - ep, j)
        if not pr(ch):
            if sorted(map(str, got)) != sorted(map(str, sent)):
                return ("reliable-channel-disturbed", f"reliable channel id {ch['id']}: {len(sent)} sent, {len(got)} "
                                                      f"delivered although only other channels abandoned messages")
        probes = [p[2] for p in obs["probes"] if p[0] == ep and p[1] == i]
        for p in probes:
            if p not in got and ch["id"] in obs.get("complete_unordered_waiting", [[], []])[1 - ep]:
                return ("unordered-message-stuck-behind-fragments",
                        f"unordered channel id {ch['id']}: a complete message sent after the network healed sits in the peer's "
                        "reassembly queue and is not delivered: it arrived while fragments of an abandoned message preceded it")
            if p not in got:
                return ("no-recovery-after-healing", f"channel id {ch['id']} ({'PR' if pr(ch) else 'reliable'}): a "
                                                     f"message sent after the network healed was not delivered")
    return None


if __name__ == "__main__":
    import sys
    sys.exit(C06().main(sys.argv[1:]))
