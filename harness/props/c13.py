"""C13 -- data channel lifecycle.

k=0  channel-layer correspondence: one real RTCSctpTransport whose _send / _send_reconfig_param /
     asyncio.ensure_future are replaced by recorders, driven by the same input list as
     Model/Chan.v (events and full state snapshot compared after every input).
k=1  two real endpoints running create/send/close programs under fault schedules; the oracle
     states the property (one datachannel event with equal parameters, id parity, forward-only
     states, at most one open/close, close() closes both ends and frees the id, bufferedAmount).
"""
import types

from harness.framework import Check
from harness.sim import scenario as SC
from harness.sim import sctp as M

LABELS = [b"", b"chat", "héllo✓".encode(), "数据通道".encode(), b"a" * 40, "\U0001F600x".encode(), b"\xff\xfe"]
PPIDS = [51, 53, 56, 57, 50, 99]


def gen_layer_case(rng):
    role = rng.choice([0, 1])
    ins = []
    nch = 0
    established = False
    n = rng.randrange(3, 40)
    if rng.random() < 0.12:
        # two negotiated channels, one with a packet lifetime (or a retransmission limit) and a fully reliable one, open
        # at once when the association is established; a message on each is queued and ONE flush hands both to _send:
        # the reliability settings of the first must not rub off on the second
        first = rng.choice([[[], [500]], [[], [1]], [[0], []], [[3], []]])
        order = rng.sample([0, 1], 2)
        specs = {0: first, 1: [[], []]}
        for j in order:
            ins.append([0, 1, [2 + 2 * j], 1, specs[j][0], specs[j][1], [99 + j], []])
        ins.append([6])
        established = True
        nch = 2
        for j in (0, 1):
            ins.append([1, j, 53, [1, 2, 3]])
        ins.append([4, [0, 0, 0]])
    for _ in range(n):
        k = rng.random()
        oracle = [1 if rng.random() < 0.15 else 0] + [1 if rng.random() < 0.3 else 0 for _ in range(rng.randrange(0, 4))]
        if k < 0.18:
            neg = rng.random() < 0.25
            cid = rng.choice([0, 1, 2, 3, 4, 5, 7, 65534]) if (neg or rng.random() < 0.15) else None
            mr = rng.choice([None, None, 0, 3])
            ml = None if mr is not None else rng.choice([None, None, 0, 500])
            ins.append([0, 1 if neg else 0, [] if cid is None else [cid], rng.randrange(2), [] if mr is None else [mr],
                        [] if ml is None else [ml], list(rng.choice(LABELS[:6])), list(rng.choice(LABELS[:6]))])
            nch += 1
        elif k < 0.36 and nch:
            kind = rng.randrange(4)
            if kind == 0:
                ins.append([1, rng.randrange(nch), 56, [0]])
            elif kind == 1:
                ins.append([1, rng.randrange(nch), 57, [0]])
            elif kind == 2:
                txt = rng.choice(["x", "hello", "héllo✓", "s" * 1200, "é" * 700])
                ins.append([1, rng.randrange(nch), 51, list(txt.encode("utf8"))])
            else:
                size = rng.choice([1, 5, 100, 1200, 3000])
                ins.append([1, rng.randrange(nch), 53, [rng.randrange(256) for _ in range(min(size, 6))] + [0] * max(0, size - 6)])
        elif k < 0.46 and nch:
            # third field: this end's association is being set up (COOKIE_WAIT / COOKIE_ECHOED) when close() runs
            ins.append([2, rng.randrange(nch), 1 if rng.random() < 0.4 else 0])
        elif k < 0.50 and nch:
            ins.append([3, rng.randrange(nch), rng.choice([0, 1, 50, 1000, 4294967295])])
        elif k < 0.68:
            ins.append([4, oracle])
        elif k < 0.73:
            ins.append([5])
        elif k < 0.80:
            ins.append([6])
            established = True
        elif k < 0.82:
            ins.append([7])
        elif k < 0.92:
            # stream ids the peer may use: small ones, and the ends of the 16-bit range (65535 is a legal SCTP stream
            # although createDataChannel refuses it as a negotiated id)
            sid = rng.choice([0, 1, 2, 3, 4, 5, 6, 7, 0, 1, 2, 3, 65535, 65534, 1000])
            pp = rng.choice(PPIDS)
            if pp == 50:
                kind = rng.random()
                if kind < 0.6:
                    label = rng.choice(LABELS)
                    proto = rng.choice(LABELS[:6])
                    ctype = rng.choice([0, 1, 2, 3, 0x80, 0x81, 0x82, 0x83, 0x7f])
                    ll = len(label) + rng.choice([0, 0, 0, 1, -1]) if rng.random() < 0.2 else len(label)
                    data = bytes([3, ctype, 0, 0]) + rng.choice([0, 5, 70000]).to_bytes(4, "big") + \
                        max(0, ll).to_bytes(2, "big") + len(proto).to_bytes(2, "big") + label + proto
                    if rng.random() < 0.1:
                        data = data[:rng.randrange(0, 13)]
                elif kind < 0.9:
                    data = bytes([2])
                else:
                    data = bytes(rng.randrange(256) for _ in range(rng.randrange(0, 4)))
            else:
                data = rng.choice([b"x", b"hello", "é".encode(), b"\xff", b"\x00"])
            ok = 1
            try:
                if pp == 50 and len(data) >= 12 and data[0] == 3:
                    ll = int.from_bytes(data[8:10], "big")
                    pl = int.from_bytes(data[10:12], "big")
                    data[12:12 + ll].decode("utf8")
                    data[12 + ll:12 + ll + pl].decode("utf8")
                elif pp == 51:
                    data.decode("utf8")
            except UnicodeDecodeError:
                ok = 0
            ins.append([8, sid, pp, list(data), ok, oracle])
        elif k < 0.96:
            ins.append([9, rng.randrange(1000), [rng.randrange(8) for _ in range(rng.randrange(0, 4))]])
        elif k < 0.99:
            ins.append([10, rng.choice([100, 101, 102, 103, 5])])
        else:
            ins.append([11])
    # the RE-CONFIG request sequence number starts at the (random) initial TSN: now and then right below the 32-bit wrap
    req = 100 if rng.random() < 0.7 else rng.choice([0xFFFFFFFF, 0xFFFFFFFE, 0xFFFFFFFD, 0xFFFFFFF0, 0, 0x7FFFFFFF])
    return {"k": 0, "role": role, "req": req, "ins": ins}


def gen_program(rng):
    """two-endpoint create/send/close program"""
    origins = [7, 0xFFFFFFF0, 0x7FFFFFF0, 0xFFFFFFFF, 0xFFFFFFFE]
    ops = []
    late_start = rng.random() < 0.3
    chans = {0: 0, 1: 0}
    n = rng.randrange(6, 45)
    for _ in range(n):
        k = rng.random()
        if k < 0.16:
            ep = rng.randrange(2)
            ops.append([0, ep, rng.randrange(7), rng.randrange(42)])
            chans[ep] += 1
        elif k < 0.34:
            ep = rng.randrange(2)
            ops.append([1, ep, rng.randrange(4), rng.randrange(2), rng.choice([0, 1, 10, 1200, 3000, 9000])])
        elif k < 0.42:
            ep = rng.randrange(2)
            ops.append([6, ep, rng.randrange(4)])
        elif k < 0.46:
            ops.append([8, rng.randrange(2), rng.randrange(4), rng.choice([0, 5, 1000])])
        elif k < 0.52:
            ops.append([3, rng.randrange(2), rng.randrange(6)])
        elif k < 0.56:
            ops.append([4, rng.randrange(2), rng.randrange(6)])
        elif k < 0.86:
            ops.append([2, rng.randrange(2), rng.choice([0, 0, 0, 1, 3])])
        elif k < 0.93:
            ops.append([5, rng.randrange(2)])
        else:
            ops.append([9])
    if rng.random() < 0.15:
        ops.append([9])
        ops.append([10, rng.randrange(2)])
    return {"k": 1, "tsn": [rng.choice(origins), rng.choice(origins)], "ops": ops, "heal": True,
            "handshake": not late_start}


class C13(Check):
    prop = "C13"
    props_file = "Props/C13.v"
    models = ["Chan"]
    quick_cases = 1000
    thorough_cases = 25000
    case_timeout = 30.0
    level_note = ("Theorems are about Model/Chan.v (data-channel layer) for all input lists including every "
                  "interleaving of deferred flush / reconfig tasks; tie = differential run against a real "
                  "RTCSctpTransport with _send, _send_reconfig_param and ensure_future recorded. Congestion state "
                  "(is _outbound_queue empty after a send) and UTF-8 validity are oracle inputs. Close-protocol "
                  "liveness across two endpoints is observed by the two-endpoint simulator, not proved.")
    rule = ("k=0: 3-40 inputs over create (negotiated or not, explicit ids, all reliability settings, Unicode labels), "
            "send, close, threshold, flush with oracle, reconfig, established/closed, received DCEP/user messages "
            "(valid, truncated, bad UTF-8), reset request/response; k=1: two real endpoints, create/send/close "
            "programs with faults, also before the handshake, and stream ids used by 2-3 channels in a row (DCEP-opened or negotiated, "
            "senders refilling from a 'bufferedamountlow' handler); distinct by (case, outputs); non-trivial = some channel "
            "reaches open and some channel reaches closing or closed")

    def gen_case(self, rng, i):
        r = rng.random()
        if r < 0.03:
            # a stream id used by several channels in a row (DCEP-opened or negotiated), flow-controlled senders
            return SC.gen_recycle(rng, stale=(rng.random() < 0.4))
        return gen_program(rng) if r < 0.12 else gen_layer_case(rng)

    def model_name(self, case):
        return "Chan" if case["k"] == 0 else None

    def encode(self, case):
        return [case["role"], case["req"], case["ins"]]

    def describe_case(self, case):
        if case["k"] == 0:
            return {"k": 0, "role": case["role"], "ins": [i if i[0] != 8 else i[:3] + [len(i[3])] for i in case["ins"][:25]]}
        return {"k": 1, "tsn": case["tsn"], "ops": case["ops"][:40], "handshake": case.get("handshake", True)}

    def impl_run(self, case):
        if case["k"] == 1:
            return SC.run_scenario(case)
        return M.run(self._layer(case))

    async def _layer(self, case):
        from aiortc import rtcsctptransport as S
        from aiortc.exceptions import InvalidStateError
        from aiortc.rtcdatachannel import RTCDataChannel, RTCDataChannelParameters
        sim = M.Sim([1, case["req"], 3, 4])
        sim._patch()
        real_asyncio = S.asyncio
        events = []
        chans = []
        oracle = []

        def ensure_future(coro):
            name = coro.__name__ if hasattr(coro, "__name__") else coro.cr_code.co_name
            coro.close()
            events.append([8] if "flush" in name else [9])
            return None

        S.asyncio = types.SimpleNamespace(ensure_future=ensure_future, get_event_loop=real_asyncio.get_event_loop,
                                          TimerHandle=real_asyncio.TimerHandle)
        try:
            t = S.RTCSctpTransport(M._Dtls(sim, 1 - case["role"]), port=5000)
            t._data_channel_id = case["role"]

            def handle(ch):
                return next(i for i, c in enumerate(chans) if c is ch)

            def watch(ch):
                chans.append(ch)
                h = len(chans) - 1
                ch.on("open", lambda h=h: events.append([0, h]))
                ch.on("close", lambda h=h: events.append([1, h]))
                ch.on("bufferedamountlow", lambda h=h: events.append([2, h]))
                ch.on("message", lambda m, h=h: events.append([4, h, m]))

            async def fake_send(stream_id, pp_id, user_data, expiry=None, max_retransmits=None, ordered=True):
                events.append([5, stream_id, pp_id, list(user_data), 1 if ordered else 0,
                               [] if max_retransmits is None else [max_retransmits], expiry])
                busy = oracle.pop(0) if oracle else 0
                t._outbound_queue.clear()
                if busy:
                    t._outbound_queue.append(object())

            async def fake_reconfig(param):
                if isinstance(param, S.StreamResetOutgoingParam):
                    events.append([6, param.request_sequence, list(param.streams)])
                elif isinstance(param, S.StreamResetResponseParam):
                    events.append([7, param.response_sequence])

            t._send = fake_send
            t._send_reconfig_param = fake_reconfig
            # RTCDataChannel.__init__ of remotely opened channels does not go through create: watch via patch
            orig_setready = RTCDataChannel._setReadyState

            def on_dc(ch):
                events.append([3, handle(ch)])
            t.on("datachannel", on_dc)

            outs = []
            for inp in case["ins"]:
                events.clear()
                k = inp[0]
                try:
                    if k == 0:
                        params = RTCDataChannelParameters(
                            label=bytes(inp[6]).decode("utf8"), protocol=bytes(inp[7]).decode("utf8"),
                            ordered=bool(inp[3]), maxRetransmits=inp[4][0] if inp[4] else None,
                            maxPacketLifeTime=inp[5][0] if inp[5] else None, negotiated=bool(inp[1]),
                            id=inp[2][0] if inp[2] else None)
                        try:
                            ch = RTCDataChannel.__new__(RTCDataChannel)
                            # register the watcher before __init__ can emit 'open' (negotiated + established)
                            chans.append(ch)
                            try:
                                ch.__init__(t, params)
                            except ValueError:
                                chans.pop()
                                raise
                            h = len(chans) - 1
                            if ch.readyState == "open":
                                events.append([0, h])
                            ch.on("open", lambda h=h: events.append([0, h]))
                            ch.on("close", lambda h=h: events.append([1, h]))
                            ch.on("bufferedamountlow", lambda h=h: events.append([2, h]))
                            ch.on("message", lambda m, h=h: events.append([4, h, m]))
                        except ValueError:
                            events.append([10, 1])
                    elif k == 1:
                        if inp[1] < len(chans):
                            pp, data = inp[2], bytes(inp[3])
                            value = {56: "", 57: b""}.get(pp, data.decode("utf8") if pp == 51 else data)
                            try:
                                chans[inp[1]].send(value)
                            except InvalidStateError:
                                events.append([10, 2])
                    elif k == 2:
                        if inp[1] < len(chans):
                            St = S.RTCSctpTransport.State
                            saved = t._association_state
                            if len(inp) > 2 and inp[2] and saved != St.ESTABLISHED:
                                t._association_state = St.COOKIE_WAIT if inp[1] % 2 else St.COOKIE_ECHOED
                            try:
                                chans[inp[1]].close()
                            except KeyError:
                                events.append([10, 3])
                            finally:
                                t._association_state = saved
                    elif k == 3:
                        if inp[1] < len(chans):
                            chans[inp[1]].bufferedAmountLowThreshold = inp[2]
                    elif k == 4:
                        oracle[:] = list(inp[1])
                        entry = oracle.pop(0) if oracle else 0
                        t._outbound_queue.clear()
                        if entry:
                            t._outbound_queue.append(object())
                        await t._data_channel_flush()
                    elif k == 5:
                        await t._transmit_reconfig()
                    elif k == 6:
                        t._set_state(S.RTCSctpTransport.State.ESTABLISHED)
                        t.on("datachannel", on_dc) if not t.listeners("datachannel") else None
                    elif k == 7:
                        t._set_state(S.RTCSctpTransport.State.CLOSED)
                        t.on("datachannel", on_dc)
                    elif k == 8:
                        oracle[:] = list(inp[5])
                        entry = oracle.pop(0) if oracle else 0
                        t._outbound_queue.clear()
                        if entry:
                            t._outbound_queue.append(object())
                        before = set(id(c) for c in t._data_channels.values())
                        # remotely opened channels: hook creation to watch them
                        orig_init = RTCDataChannel.__init__

                        def init_hook(self_, transport, parameters, send_open=True):
                            orig_init(self_, transport, parameters, send_open)
                            chans.append(self_)
                            h = len(chans) - 1
                            self_.on("open", lambda h=h: events.append([0, h]))
                            self_.on("close", lambda h=h: events.append([1, h]))
                            self_.on("bufferedamountlow", lambda h=h: events.append([2, h]))
                            self_.on("message", lambda m, h=h: events.append([4, h, m]))
                        RTCDataChannel.__init__ = init_hook
                        try:
                            await t._data_channel_receive(inp[1], inp[2], bytes(inp[3]))
                        except KeyError:
                            raise
                        except Exception as exc:  # noqa -- whatever escapes here escapes the SCTP receive path
                            events.append([10, 5])
                            last_exc = type(exc).__name__
                        finally:
                            RTCDataChannel.__init__ = orig_init
                    elif k == 9:
                        if t._association_state == S.RTCSctpTransport.State.ESTABLISHED:
                            try:
                                await t._receive_reconfig_param(S.StreamResetOutgoingParam(
                                    request_sequence=inp[1], response_sequence=0, last_tsn=0, streams=list(inp[2])))
                            except KeyError:
                                events.append([10, 3])
                    elif k == 10:
                        if t._association_state == S.RTCSctpTransport.State.ESTABLISHED:
                            try:
                                await t._receive_reconfig_param(S.StreamResetResponseParam(
                                    response_sequence=inp[1], result=1))
                            except KeyError:
                                events.append([10, 3])
                    elif k == 11:
                        t._association_state = S.RTCSctpTransport.State.SHUTDOWN_ACK_SENT
                except KeyError:
                    events.append([10, 3])
                evs = []
                for e in events:
                    if e[0] == 4:
                        m = e[2]
                        if isinstance(m, str):
                            evs.append([4, e[1], 51 if m else 56, list(m.encode("utf8"))])
                        else:
                            evs.append([4, e[1], 53 if m else 57, list(m)])
                    elif e[0] == 5:
                        evs.append(e[:6] + [[] if e[6] is None else [int(round((e[6] - sim.now) * 1000))]])
                    else:
                        evs.append(e)
                RANK = SC.RANK
                state = [
                    [[[] if c.id is None else [c.id], RANK[c.readyState], c.bufferedAmount, c.bufferedAmountLowThreshold,
                      1 if c.ordered else 0, [] if c.maxRetransmits is None else [c.maxRetransmits],
                      [] if c.maxPacketLifeTime is None else [c.maxPacketLifeTime],
                      list(c.label.encode("utf8")), list(c.protocol.encode("utf8"))] for c in chans],
                    [[k2, handle(v)] for k2, v in t._data_channels.items()],
                    [[handle(c), p, len(d)] for c, p, d in t._data_channel_queue],
                    list(t._reconfig_queue),
                    [t._reconfig_request.request_sequence, list(t._reconfig_request.streams)] if t._reconfig_request else [],
                    t._reconfig_response_seq,
                ]
                outs.append([evs, state])
            return outs
        finally:
            S.asyncio = real_asyncio
            sim._unpatch()

    # ------------------------------------------------------------ oracle
    def oracle(self, case, out):
        if case["k"] == 0:
            # forward-only / single open+close, straight from the implementation's trace
            ranks = {}
            opens, closes = {}, {}
            prev = {}
            for evs, state in out:
                # bufferedamountlow fires exactly on downward crossings: within one input of the layer the
                # amount moves monotonically (send: up, flush: down), so at most one crossing per channel
                for h, c in enumerate(state[0]):
                    lows = sum(1 for e in evs if e[0] == 2 and e[1] == h)
                    before = prev.get(h, (0, 0))
                    want = 1 if (before[0] > before[1] and c[2] <= before[1]) else 0
                    if lows != want and c[1] != 3:
                        return ("bufferedamountlow-miscount",
                                f"channel #{h}: bufferedAmount {before[0]} -> {c[2]} with threshold {before[1]}: "
                                f"{lows} bufferedamountlow event(s), expected {want}")
                for h, c in enumerate(state[0]):
                    prev[h] = (c[2], c[3])
                for e in evs:
                    if e[0] == 10 and e[1] == 3:
                        return ("keyerror-in-close", "KeyError escaped the data-channel layer")
                    if e[0] == 10 and e[1] == 5:
                        return ("receive-raised", "an exception escaped _data_channel_receive on a received message "
                                                  "(it escapes the SCTP receive path and closes the transport)")
                    if e[0] in (6, 7) and not 0 <= e[1] < 2 ** 32:
                        return ("reconfig-sequence-out-of-range", f"a RE-CONFIG parameter carries sequence number {e[1]}, "
                                                                  "which does not fit its 32-bit field (serialising it raises)")
                    if e[0] == 0:
                        opens[e[1]] = opens.get(e[1], 0) + 1
                    if e[0] == 1:
                        closes[e[1]] = closes.get(e[1], 0) + 1
                for h, c in enumerate(state[0]):
                    if h in ranks and c[1] < ranks[h]:
                        return ("state-moved-backwards", f"channel #{h} readyState rank {ranks[h]} -> {c[1]}")
                    ranks[h] = c[1]
                    if c[1] != 3:
                        queued = sum(q[2] for q in state[2] if q[0] == h and q[1] != 50)
                        if c[2] != queued:
                            return ("buffered-amount-mismatch",
                                    f"channel #{h} bufferedAmount {c[2]} but {queued} bytes queued")
                # ids unique in table; automatically chosen ids have the role's parity
            if any(v > 1 for v in opens.values()) or any(v > 1 for v in closes.values()):
                return ("repeated-open-or-close", f"open counts {opens} close counts {closes}")
            return None
        return scenario_oracle(case, out)

    def nontrivial(self, case, out):
        if case["k"] == 0:
            rk = [c[1] for c in out[-1][1][0]] if out else []
            return any(r >= 1 for r in rk) and any(r >= 2 for r in rk)
        return any(e[1] == "datachannel" for e in out["events"]) and any(op[0] == 6 for op in case["ops"])

    def distribution(self, cases, outs):
        d = {"layer": 0, "program": 0, "inputs": 0, "creates": 0, "closes": 0, "recv_open": 0, "datachannel_events": 0,
             "low_events": 0, "reconfig_requests": 0, "raises": 0, "late_handshake": 0}
        for c, o in zip(cases, outs):
            if c["k"] == 0:
                d["layer"] += 1
                d["inputs"] += len(c["ins"])
                d["creates"] += sum(1 for i in c["ins"] if i[0] == 0)
                d["closes"] += sum(1 for i in c["ins"] if i[0] == 2)
                d["recv_open"] += sum(1 for i in c["ins"] if i[0] == 8 and i[2] == 50)
                for evs, _ in o:
                    d["datachannel_events"] += sum(1 for e in evs if e[0] == 3)
                    d["low_events"] += sum(1 for e in evs if e[0] == 2)
                    d["reconfig_requests"] += sum(1 for e in evs if e[0] == 6)
                    d["raises"] += sum(1 for e in evs if e[0] == 10)
            else:
                d["program"] += 1
                d["late_handshake"] += 0 if c.get("handshake", True) else 1
        return d

    def shrink_candidates(self, case):
        key = "ins" if case["k"] == 0 else "ops"
        l = case[key]
        n = len(l)
        step = max(1, n // 2)
        while step >= 1:
            for i in range(0, n, step):
                c = dict(case)
                c[key] = l[:i] + l[i + step:]
                yield c
            if step == 1:
                break
            step //= 2


def reconfig_lost(obs):
    """a RE-CONFIG never reached the peer's stream-reset logic: dropped by the network, or discarded by a peer that
    was not established yet; aiortc never retransmits it (K4)"""
    return "ReconfigChunk" in obs.get("dropped_types", []) or bool(obs.get("reconfig_discarded"))


def scenario_oracle(case, obs):
    r = scenario_oracle_raw(case, obs)
    if r is None and case.get("recycle"):
        # `frees the id for reuse`: what is delivered on a channel that took over a stream id was sent on that very
        # channel - nothing accepted by send() on an earlier owner of the id may surface on it
        from harness.props import c01 as C01mod
        m = C01mod.scenario_oracle_reliable(obs)
        if m is not None and m[0] in ("corrupt-message", "duplicate-delivery", "order-violation"):
            if obs.get("reset_overtook_own_data") or obs.get("reset_hit_reused_id"):
                # K9 / K10: the peer executed a reset request ahead of DATA of that very stream, or a late reset hit the
                # next owner of the id
                return ("reset-request-overtakes-data", "a stream reset request was processed before the DATA it follows "
                                                        "(last_tsn ignored): " + m[1])
            if not reconfig_lost(obs):
                return ("message-on-wrong-channel", "after close() and re-use of the stream id: " + m[1])
    if r is not None and obs.get("reset_overtook_data") and r[0] in (
            "datachannel-params", "datachannel-event-count", "close-incomplete", "not-open-after-heal"):
        return ("reset-request-overtakes-data", "a stream reset request was processed before the DATA it "
                                                "follows (last_tsn ignored): " + r[1])
    if r is not None and obs.get("reset_hit_reused_id") and r[0] in (
            "datachannel-params", "datachannel-event-count", "close-incomplete", "not-open-after-heal"):
        return ("stale-reset-closes-reused-id", "a stream id was reused before the peer's own reset of that stream "
                                                "arrived; the late reset request closed the new channel: " + r[1])
    if r is not None and reconfig_lost(obs) and r[0] in (
            "datachannel-params", "datachannel-event-count", "close-incomplete", "not-open-after-heal"):
        # K4: a lost RE-CONFIG is never retransmitted; one side keeps the stream registered ('closing' for ever) while
        # the other frees and reuses the id, so later OPENs on that stream are ignored by the stuck side
        return ("reconfig-lost-no-retransmit", "a RE-CONFIG datagram was lost and the stream reset never completes: " + r[1])
    return r


def scenario_oracle_raw(case, obs):
    if obs["errors"]:
        return ("exception-escaped", f"exception escaped: {obs['errors'][0]}")
    if obs["snapshots"]:
        s = obs["snapshots"][0]
        return ("buffered-amount-mismatch", f"{s[0]} on ep{s[1]} channel #{s[2]}: bufferedAmount {s[3]}, queued {s[4]}")
    # forward-only, single open / close
    for ep in (0, 1):
        for i, hist in enumerate(obs["ranks"][ep]):
            if hist != sorted(hist):
                return ("state-moved-backwards", f"ep{ep} channel #{i} readyState history {hist}")
        counts = {}
        for e, kind, key, m in obs["events"]:
            if e == ep and kind in ("open", "close"):
                counts[(key, kind)] = counts.get((key, kind), 0) + 1
        for (key, kind), v in counts.items():
            if v > 1:
                return ("repeated-open-or-close", f"ep{ep} channel #{key}: {v} '{kind}' events")
    closed_ops = set((a, b) for a, b in obs["closed_ops"])
    stopped = obs["stopped"]
    created = {0: [], 1: []}
    for op in case["ops"]:
        if op[0] == 0:
            created[op[1]].append(op)
    for ep in (0, 1):
        local = [c for c in obs["channels"][ep]]
        nlocal = len(created[ep])
        # automatically chosen ids: client (ep0) odd, server (ep1) even
        dc_events = [(key, m) for e, kind, key, m in obs["events"] if e == 1 - ep and kind == "datachannel"]
        for e, kind, key, m in obs["events"]:
            pass
    # locally created channels appear in obs["channels"][ep] interleaved with remote ones: use events to split
    remote_idx = {ep: set(key for e, kind, key, m in obs["events"] if e == ep and kind == "datachannel") for ep in (0, 1)}
    for ep in (0, 1):
        for i, ch in enumerate(obs["channels"][ep]):
            if i in remote_idx[ep] or ch["id"] is None or ch.get("negotiated"):
                continue
            if ch["id"] % 2 != (1 if ep == 0 else 0):
                return ("id-parity", f"ep{ep} chose id {ch['id']}")
    if not obs["established"] or stopped:
        # association end: every channel of a stopped endpoint is closed
        for ep in stopped:
            for i, ch in enumerate(obs["channels"][ep]):
                if ch["state"] != "closed":
                    return ("open-after-association-end", f"ep{ep} channel #{i} is {ch['state']} after stop()")
        return None
    if obs["healed_rounds"] is None:
        return None   # liveness is C02's business
    # after healing: every local channel that was never closed has exactly one datachannel event with equal parameters
    for ep in (0, 1):
        for i, ch in enumerate(obs["channels"][ep]):
            if i in remote_idx[ep]:
                continue
            if ch["id"] is None:
                if ch["state"] != "closed":
                    return ("no-id-after-heal", f"ep{ep} channel #{i} never got an id")
                continue
            events_for_id = [m2 for e, kind, k2, m2 in obs["events"]
                             if e == 1 - ep and kind == "datachannel" and m2[0] == ch["id"]]
            if ch.get("negotiated"):
                # negotiated out of band: nothing is announced in band
                if events_for_id and not any(c2["id"] == ch["id"] and not c2.get("negotiated") for e2 in (0, 1) for c2 in obs["channels"][e2]):
                    return ("datachannel-event-count", f"negotiated channel id {ch['id']} of ep{ep}: the peer saw a datachannel event")
                if (ep, i) not in closed_ops and ch["state"] != "open" and not any(
                        (1 - ep, j) in closed_ops for j, rc in enumerate(obs["channels"][1 - ep]) if rc["id"] == ch["id"]):
                    return ("not-open-after-heal", f"ep{ep} negotiated channel id {ch['id']} is {ch['state']}")
                continue
            incarnations = [j for j, c2 in enumerate(obs["channels"][ep])
                            if j not in remote_idx[ep] and c2["id"] == ch["id"]]
            if len(events_for_id) > len(incarnations):
                return ("datachannel-event-count", f"id {ch['id']} of ep{ep}: {len(events_for_id)} datachannel "
                                                   f"events for {len(incarnations)} channels")
            was_closed = (ep, i) in closed_ops
            if not was_closed and i == incarnations[-1]:
                if not events_for_id:
                    return ("datachannel-event-count", f"channel id {ch['id']} of ep{ep}: no datachannel event")
                m = events_for_id[-1]
                want = [ch["id"], ch["label"], ch["protocol"], ch["ordered"], ch["maxRetransmits"], ch["maxPacketLifeTime"]]
                if list(m) != want:
                    return ("datachannel-params", f"peer saw {list(m)}, created with {want}")
                if ch["state"] != "open":
                    # the peer may have closed it
                    peer_closed = any((1 - ep, j) in closed_ops for j, rc in enumerate(obs["channels"][1 - ep]) if rc["id"] == ch["id"])
                    if not peer_closed:
                        return ("not-open-after-heal", f"ep{ep} channel id {ch['id']} is {ch['state']}")
            if ch["buffered"] != 0 and ch["state"] != "closed":
                return ("buffered-nonzero-after-drain", f"ep{ep} channel id {ch['id']} bufferedAmount {ch['buffered']}")
    # close(): both ends closed and id freed (ids are recycled: compare incarnation by incarnation)
    for (ep, i) in closed_ops:
        if i >= len(obs["channels"][ep]):
            continue
        ch = obs["channels"][ep][i]
        mine = [j for j, c2 in enumerate(obs["channels"][ep]) if c2["id"] == ch["id"] and ch["id"] is not None]
        theirs = [c2 for c2 in obs["channels"][1 - ep] if c2["id"] == ch["id"] and ch["id"] is not None]
        stuck = ch["state"] != "closed"
        if ch["id"] is not None and mine:
            pos = mine.index(i)
            if pos < len(theirs) and theirs[pos]["state"] != "closed":
                stuck = True
            if pos == len(mine) - 1 and len(theirs) <= len(mine) and (ch["registered"] or any(c2["registered"] for c2 in theirs)):
                stuck = True
        if stuck:
            if reconfig_lost(obs):
                return ("reconfig-lost-no-retransmit", "a RE-CONFIG datagram was lost and the stream reset never completes")
            return ("close-incomplete", f"close() on ep{ep} channel #{i} (id {ch['id']}): local {ch['state']}, "
                                        f"peer {[c2['state'] for c2 in theirs]}")
    # a stream whose reset completed in both directions (no channel registered under the id on either side) starts
    # afresh: no receive-side state may survive it - a later channel reusing the id would inherit the old expected
    # sequence number (harmless until the old stream had carried more than 2^15 messages, then the new channel never
    # opens) and whatever fragments were still waiting
    if obs.get("healed_rounds") is not None and not obs.get("reset_overtook_data") and not obs.get("reset_hit_reused_id") \
            and not reconfig_lost(obs) and not any(obs.get("reconfig_pending", [])):
        for ep in (0, 1):
            for sid, seq, waiting in obs.get("inbound", [[], []])[ep]:
                if sid not in obs["registered"][0] and sid not in obs["registered"][1] and (seq != 0 or waiting):
                    return ("stale-inbound-stream-after-reset",
                            f"ep{ep} still holds receive state for stream {sid} (expects sequence number {seq}, {waiting} chunk(s) "
                            "waiting) although the stream was reset in both directions and no channel uses the id")
    return None


if __name__ == "__main__":
    import sys
    sys.exit(C13().main(sys.argv[1:]))
