"""C08 -- SCTP packets round-trip exactly; corrupted packets are rejected by the checksum.

Correspondence of Model/Crc32c.v (against google_crc32c.value) and Model/SctpWire.v (against
aiortc.rtcsctptransport: encode/decode_params, chunk classes, parse_packet/serialize_packet, RE-CONFIG
parameter classes) plus the implementation-level oracle of the property.

Case formats (JSON lists; first element is the kind):
  ["crc", bytes]                         crc32c(bytes)
  ["rt", sp, dp, tag, chunk]             serialize_packet -> parse_packet -> serialize each parsed chunk again
  ["parse", bytes]                       parse_packet on arbitrary / mutated bytes
  ["encp", params]  ["decp", bytes]      encode_params / decode_params
  ["rpb", rparam]   ["rpp", type, bytes] bytes(param) / RECONFIG_PARAM_TYPES[type].parse(bytes)
  ["cb", chunk]                          bytes(chunk)
  ["burst", packet, [bit positions]]     parse_packet(packet) and parse_packet(packet with those bits flipped);
                                         bit i = bit (i % 8) (LSB first) of byte i // 8 = CRC / transmission order
chunk  = [type, flags, ...fields] as in Model/SctpWire.v (chunk_of_sx)
rparam = [13, req, resp, last_tsn, streams] | [17, req, new_streams] | [16, resp, result]
"""
import glob
import os
import struct

from harness.framework import REPO, Check, canon, classify_exc

PLAIN = (8, 10, 11, 14)
PARAMS = (4, 5, 6, 9, 130)
INIT = (1, 2)
ALL_TYPES = (0, 1, 2, 3, 4, 5, 6, 7, 8, 9, 10, 11, 14, 130, 192)
U8, U16, U32 = 255, 65535, 4294967295
FIELD_LO, FIELD_HI = 64, 96      # bit positions of the checksum field (bytes 8..11)


def crc32c(data):
    from google_crc32c import value
    return value(bytes(data))


def padl(n):
    return (4 - n % 4) % 4


# ------------------------------------------------------------------ reference encoder (independent of aiortc)
def ref_params(ps):
    out = b""
    for i, (t, v) in enumerate(ps):
        out += struct.pack("!HH", t, len(v) + 4) + bytes(v)
        if i != len(ps) - 1:
            out += b"\0" * padl(len(v))
    return out


def ref_body(c):
    t = c[0]
    if t == 0:
        return struct.pack("!LHHL", c[2], c[3], c[4], c[5]) + bytes(c[6])
    if t in INIT:
        return struct.pack("!LLHHL", c[2], c[3], c[4], c[5], c[6]) + ref_params(c[7])
    if t == 3:
        return (struct.pack("!LLHH", c[2], c[3], len(c[4]), len(c[5])) + b"".join(struct.pack("!HH", *g) for g in c[4])
                + b"".join(struct.pack("!L", d) for d in c[5]))
    if t in PARAMS:
        return ref_params(c[2])
    if t == 7:
        return struct.pack("!L", c[2])
    if t == 192:
        return struct.pack("!L", c[2]) + b"".join(struct.pack("!HH", *s) for s in c[3])
    return bytes(c[2])


def ref_chunk(c, length_delta=0):
    body = ref_body(c)
    return struct.pack("!BBH", c[0], c[1], len(body) + 4 + length_delta) + body + b"\0" * padl(len(body))


def raw_chunk(t, flags, body, length=None):
    return struct.pack("!BBH", t, flags, len(body) + 4 if length is None else length) + body + b"\0" * padl(len(body))


def ref_packet(sp, dp, tag, chunk_bytes, fix=True):
    h = struct.pack("!HHL", sp, dp, tag)
    c = crc32c(h + b"\0\0\0\0" + chunk_bytes) if fix else 0
    return h + struct.pack("<L", c) + chunk_bytes


def fix_checksum(data):
    data = bytes(data)
    if len(data) < 12:
        return data
    c = crc32c(data[:8] + b"\0\0\0\0" + data[12:])
    return data[:8] + struct.pack("<L", c) + data[12:]


def checksum_ok(data):
    data = bytes(data)
    return len(data) >= 16 and struct.unpack_from("<L", data, 8)[0] == crc32c(data[:8] + b"\0\0\0\0" + data[12:])


def flip(data, bits):
    out = bytearray(data)
    for i in bits:
        out[i // 8] ^= 1 << (i % 8)
    return bytes(out)


# ------------------------------------------------------------------ well-formedness (= struct.pack accepts everything)
def wf_params(ps):
    return all(0 <= t <= U16 and len(v) + 4 <= U16 for t, v in ps)


def wf_chunk(c):
    t = c[0]
    if not 0 <= c[1] <= U8:
        return False
    if t == 0:
        ok = 0 <= c[2] <= U32 and 0 <= c[3] <= U16 and 0 <= c[4] <= U16 and 0 <= c[5] <= U32
        return ok and 16 + len(c[6]) <= U16
    if t in INIT:
        ok = 0 <= c[2] <= U32 and 0 <= c[3] <= U32 and 0 <= c[4] <= U16 and 0 <= c[5] <= U16 and 0 <= c[6] <= U32
        return ok and wf_params(c[7]) and len(ref_body(c)) + 4 <= U16
    if t == 3:
        ok = 0 <= c[2] <= U32 and 0 <= c[3] <= U32 and all(0 <= a <= U16 and 0 <= b <= U16 for a, b in c[4])
        return ok and all(0 <= d <= U32 for d in c[5]) and 16 + 4 * (len(c[4]) + len(c[5])) <= U16
    if t in PARAMS:
        return wf_params(c[2]) and len(ref_body(c)) + 4 <= U16
    if t == 7:
        return 0 <= c[2] <= U32
    if t == 192:
        return 0 <= c[2] <= U32 and all(0 <= a <= U16 and 0 <= b <= U16 for a, b in c[3]) and 8 + 4 * len(c[3]) <= U16
    return len(c[2]) + 4 <= U16


def wf_rparam(p):
    if p[0] == 13:
        return all(0 <= x <= U32 for x in p[1:4]) and all(0 <= s <= U16 for s in p[4])
    if p[0] == 17:
        return 0 <= p[1] <= U32 and 0 <= p[2] <= U16
    return 0 <= p[1] <= U32 and 0 <= p[2] <= U32


# ------------------------------------------------------------------ generators
def g_int(rng, hi):
    k = rng.random()
    if k < 0.12:
        return 0
    if k < 0.24:
        return hi
    if k < 0.32:
        return rng.choice([1, hi - 1, hi // 2, hi // 2 + 1, 255, 256, 65535, 65536]) % (hi + 1)
    return rng.randrange(hi + 1)


def g_bytes(rng, n):
    k = rng.random()
    if k < 0.1:
        return [0] * n
    if k < 0.2:
        return [255] * n
    return list(rng.randbytes(n))


def g_len(rng, big=1300):
    k = rng.random()
    if k < 0.45:
        return rng.randrange(0, 13)
    if k < 0.8:
        return rng.randrange(0, 80)
    return rng.randrange(0, big)


def g_params(rng, maxn=5, big=300):
    return [[g_int(rng, U16), g_bytes(rng, g_len(rng, big))] for _ in range(rng.choice([0, 1, 1, 2, 2, 3, maxn]))]


def g_chunk(rng, t=None, huge=False):
    t = rng.choice(ALL_TYPES) if t is None else t
    f = g_int(rng, U8)
    if t == 0:
        n = g_len(rng, 1300)
        if huge:
            n = rng.choice([65519, 65518, 65517, 65516, 20000])
        return [0, f, g_int(rng, U32), g_int(rng, U16), g_int(rng, U16), g_int(rng, U32), g_bytes(rng, n)]
    if t in INIT:
        return [t, f, g_int(rng, U32), g_int(rng, U32), g_int(rng, U16), g_int(rng, U16), g_int(rng, U32),
                g_params(rng)]
    if t == 3:
        ng = rng.choice([0, 0, 1, 2, 3, rng.randrange(0, 40)])
        nd = rng.choice([0, 0, 1, 2, rng.randrange(0, 20)])
        if huge == 2:
            ng, nd = rng.choice([(16379, 0), (0, 16379), (8000, 8379), (10000, 6379)])
        elif huge:
            ng, nd = rng.choice([(1500, 0), (0, 1500), (800, 700)])
        return [3, f, g_int(rng, U32), g_int(rng, U32), [[g_int(rng, U16), g_int(rng, U16)] for _ in range(ng)],
                [g_int(rng, U32) for _ in range(nd)]]
    if t in PARAMS:
        if huge:
            return [t, f, [[7, g_bytes(rng, 65527)]]]
        if t == 130 and rng.random() < 0.6:
            ps = []
            for _ in range(rng.randrange(1, 3)):
                p = g_rparam(rng)
                ps.append([p[0], list(ref_rparam(p))])
            return [t, f, ps]
        return [t, f, g_params(rng)]
    if t == 7:
        return [7, f, g_int(rng, U32)]
    if t == 192:
        n = rng.choice([0, 1, 2, 3, rng.randrange(0, 60)])
        if huge:
            n = 16381 if huge == 2 else 1500
        return [192, f, g_int(rng, U32), [[g_int(rng, U16), g_int(rng, U16)] for _ in range(n)]]
    n = g_len(rng, 400)
    if huge:
        n = rng.choice([65531, 65530, 65529, 65528])
    return [t, f, g_bytes(rng, n)]


def g_bad_chunk(rng):
    """a chunk with one field outside the range struct.pack accepts"""
    c = g_chunk(rng)
    t = c[0]
    k = rng.random()
    if k < 0.25:
        c[1] = rng.choice([256, -1, 1000])
    elif t == 0:
        if k < 0.6:
            c[rng.choice([2, 5])] = rng.choice([U32 + 1, -1])
        elif k < 0.8:
            c[rng.choice([3, 4])] = rng.choice([U16 + 1, -1])
        else:
            c[6] = g_bytes(rng, rng.choice([65520, 65521, 70000]))
    elif t in INIT:
        c[rng.choice([2, 3, 6])] = rng.choice([U32 + 1, -1])
    elif t == 3:
        if k < 0.6:
            c[4] = c[4] + [[U16 + 1, 0]]
        elif k < 0.8:
            c[5] = c[5] + [U32 + 1]
        else:
            c[4] = [[1, 2]] * 16380
    elif t in PARAMS:
        if k < 0.5:
            c[2] = c[2] + [[U16 + 1, [1]]]
        elif k < 0.75:
            c[2] = [[1, g_bytes(rng, 65532)]]
        else:
            c[2] = [[1, g_bytes(rng, 40000)], [2, g_bytes(rng, 30000)]]
    elif t in (7, 192):
        c[2] = rng.choice([U32 + 1, -1])
    else:
        c[2] = g_bytes(rng, rng.choice([65532, 65533, 66000]))
    return c


def g_rparam(rng):
    k = rng.randrange(3)
    if k == 0:
        return [13, g_int(rng, U32), g_int(rng, U32), g_int(rng, U32),
                [g_int(rng, U16) for _ in range(rng.choice([0, 1, 2, 3, rng.randrange(0, 30)]))]]
    if k == 1:
        return [17, g_int(rng, U32), g_int(rng, U16)]
    return [16, g_int(rng, U32), g_int(rng, U32)]


def ref_rparam(p):
    if p[0] == 13:
        return struct.pack("!LLL", p[1], p[2], p[3]) + b"".join(struct.pack("!H", s) for s in p[4])
    if p[0] == 17:
        return struct.pack("!LHH", p[1], p[2], 0)
    return struct.pack("!LL", p[1], p[2])


_SEEDS = None


def seed_packets():
    global _SEEDS
    if _SEEDS is None:
        _SEEDS = []
        for path in sorted(glob.glob(os.path.join(REPO, "tests", "sctp_*.bin"))):
            with open(path, "rb") as fp:
                _SEEDS.append(fp.read())
    return _SEEDS


def chunk_spans(data):
    """(pos, length field, type) of each chunk of a (well-formed) packet"""
    spans = []
    pos = 12
    while pos + 4 <= len(data):
        t, _, ln = struct.unpack_from("!BBH", data, pos)
        if ln < 4:
            break
        spans.append((pos, ln, t))
        pos += ln + padl(ln)
    return spans


def param_offsets(data):
    """offsets of plausible parameter headers inside params / init chunks"""
    offs = []
    for pos, ln, t in chunk_spans(data):
        start = pos + 4 + (16 if t in INIT else 0)
        if t in INIT or t in PARAMS:
            p = start
            end = min(pos + ln, len(data))
            while p + 4 <= end:
                pl = struct.unpack_from("!H", data, p + 2)[0]
                offs.append(p)
                if pl < 4:
                    break
                p += pl + padl(pl)
    return offs


def g_valid_packet(rng):
    """valid packet built by the reference encoder: 1-4 chunks, possibly unknown chunk types in between"""
    if rng.random() < 0.15 and seed_packets():
        return rng.choice(seed_packets())
    parts = []
    for _ in range(rng.choice([1, 1, 1, 2, 3, 4])):
        if rng.random() < 0.1:
            parts.append(raw_chunk(rng.choice([12, 13, 15, 64, 128, 129, 193, 255]), g_int(rng, U8),
                                   bytes(g_bytes(rng, g_len(rng, 60)))))
        else:
            parts.append(ref_chunk(g_chunk(rng)))
    return ref_packet(g_int(rng, U16), g_int(rng, U16), g_int(rng, U32), b"".join(parts))


def g_malformed(rng):
    """structure-aware mutation of a valid packet, checksum recomputed (mostly)"""
    k = rng.random()
    if k < 0.08:
        n = rng.choice([0, 1, 11, 12, 15, 16, 17, 20, rng.randrange(0, 200)])
        data = bytes(g_bytes(rng, n))
        return fix_checksum(data) if rng.random() < 0.7 else data
    if k < 0.30:
        # a chunk of a known type with an arbitrary body / arbitrary length field
        t = rng.choice(ALL_TYPES + (0, 0, 0, 1, 2, 3, 3, 7, 7, 192, 192))
        n = rng.choice([0, 1, 2, 3, 4, 5, 7, 8, 11, 12, 13, 15, 16, 17, 19, 20, rng.randrange(0, 64)])
        fixed = {0: 12, 1: 16, 2: 16, 3: 12, 7: 4, 192: 4}.get(t)
        if fixed is not None and rng.random() < 0.5:
            n = max(0, fixed + rng.choice([-3, -2, -1, -1, 0, 0, 1, 2, 3, 4, 5, 8]))
        body = bytes(g_bytes(rng, n))
        if t == 3 and n >= 12 and rng.random() < 0.7:
            room = (n - 12) // 4
            ng = rng.choice([0, room, room + 1, rng.randrange(0, room + 2), 65535])
            nd = rng.choice([0, max(0, room - ng), max(0, room - ng) + 1, 65535])
            body = body[:8] + struct.pack("!HH", ng, nd) + body[12:]
        if (t in PARAMS or t in INIT) and rng.random() < 0.7:
            pre = bytes(g_bytes(rng, 16)) if t in INIT else b""
            pl = rng.choice([0, 1, 2, 3, 4, 5, 8, n, n + 1, n + 4, n + 5, 65535])
            body = pre + struct.pack("!HH", g_int(rng, U16), pl) + bytes(g_bytes(rng, n))
            if rng.random() < 0.5:
                body = ref_params(g_params(rng, 2, 30)) + b"\0" * rng.randrange(0, 4) + body
                body = body if t not in INIT else pre + body
        ln = None
        if rng.random() < 0.25:
            ln = max(0, len(body) + 4 + rng.choice([-8, -5, -4, -3, -2, -1, 1, 2, 3, 4, 8]))
        chunk = raw_chunk(t, g_int(rng, U8), body, ln)
        if rng.random() < 0.3:
            chunk = ref_chunk(g_chunk(rng)) + chunk
        if rng.random() < 0.2:
            chunk = chunk + ref_chunk(g_chunk(rng))
        data = ref_packet(5000, 5001, g_int(rng, U32), chunk)
        return data
    data = bytearray(g_valid_packet(rng))
    m = rng.random()
    spans = chunk_spans(data)
    if m < 0.25 and spans:
        pos, ln, t = rng.choice(spans)
        struct.pack_into("!H", data, pos + 2, max(0, min(U16, ln + rng.choice([-8, -7, -6, -5, -4, -3, -2, -1, 1, 2, 3, 4, 5, 6, 7, 8]))))
    elif m < 0.45:
        offs = param_offsets(data)
        if offs:
            p = rng.choice(offs)
            pl = struct.unpack_from("!H", data, p + 2)[0]
            new = rng.choice([0, 1, 2, 3, pl + rng.choice([-8, -4, -3, -2, -1, 1, 2, 3, 4, 8]), 65535])
            struct.pack_into("!H", data, p + 2, max(0, min(U16, new)))
    elif m < 0.55:
        sacks = [s for s in spans if s[2] == 3 and s[1] >= 16]
        if sacks:
            pos, ln, t = rng.choice(sacks)
            off = pos + 12 + rng.choice([0, 2])
            old = struct.unpack_from("!H", data, off)[0]
            struct.pack_into("!H", data, off, max(0, min(U16, old + rng.choice([-2, -1, 1, 2, 3, 100, 65535]))))
    elif m < 0.8:
        data = data[:rng.randrange(0, len(data) + 1)]
    elif m < 0.9:
        data = data + bytes(g_bytes(rng, rng.choice([1, 2, 3, 4, 5, 8])))
    else:
        if len(data) > 12:
            for _ in range(rng.randrange(1, 4)):
                data[rng.randrange(12, len(data))] = rng.randrange(256)
    data = bytes(data)
    return fix_checksum(data) if rng.random() < 0.93 else data


def single_bit_deltas(data, positions):
    base = crc32c(data[:8] + b"\0\0\0\0" + data[12:])
    out = {}
    for i in positions:
        d = flip(data, [i])
        out[i] = crc32c(d[:8] + b"\0\0\0\0" + d[12:]) ^ base
    return out


def craft_straddle(rng, data):
    """Find a <=32-bit window that alters bits on both sides of a boundary of the checksum field and is
    self-consistent (CRC linearity); returns the flipped bit positions or None."""
    data = bytes(data)
    nbits = len(data) * 8
    if rng.random() < 0.5:
        # low boundary: data bits [64-j, 64) + field bits [64, 64+32-j)
        deltas = single_bit_deltas(data, range(33, 64))
        for _ in range(400):
            j = rng.randrange(1, 20)
            bits = [64 - j] + [i for i in range(64 - j + 1, 64) if rng.random() < 0.5]
            d = 0
            for i in bits:
                d ^= deltas[i]
            if d and d < (1 << (32 - j)):
                return bits + [64 + b for b in range(32) if d >> b & 1]
    else:
        # high boundary: field bits [96-k, 96) + data bits [96, 96+j), k + j <= 32
        hi = min(nbits, 96 + 31)
        deltas = single_bit_deltas(data, range(96, hi))
        for _ in range(400):
            j = rng.randrange(1, min(20, hi - 96 + 1))
            bits = [96 + j - 1] + [i for i in range(96, 96 + j - 1) if rng.random() < 0.5]
            d = 0
            for i in bits:
                d ^= deltas[i]
            k = 32 - j
            if d and d % (1 << (32 - k)) == 0:
                return [64 + b for b in range(32) if d >> b & 1] + bits
    return None


def g_burst_bits(rng, nbits_total):
    n = rng.choice([1, 1, 2, 3, 8, 16, 31, 32, rng.randrange(1, 33)])
    k = rng.random()
    if k < 0.5:
        start = rng.randrange(max(0, FIELD_LO - 40), min(nbits_total - n, FIELD_HI + 8) + 1)
    else:
        start = rng.randrange(0, nbits_total - n + 1)
    bits = {start, start + n - 1}
    for i in range(start + 1, start + n - 1):
        if rng.random() < 0.5:
            bits.add(i)
    return sorted(bits)


def special_checksum_burst(rng, data):
    """A burst confined to the checksum field that turns it into a value an over-lenient parser might accept:
    zero (RFC 9653 zero checksum), all ones, the byte-swapped or complemented CRC, or another checksum of the packet."""
    import zlib
    data = bytes(data)
    if len(data) < 12:
        return None
    cur = data[8:12]
    zeroed = data[:8] + b"\0\0\0\0" + data[12:]
    v = struct.unpack("<L", cur)[0]
    targets = [b"\0\0\0\0", b"\xff\xff\xff\xff", cur[::-1], struct.pack("<L", v ^ 0xFFFFFFFF),
               struct.pack("<L", zlib.crc32(zeroed) & 0xFFFFFFFF), struct.pack(">L", zlib.crc32(zeroed) & 0xFFFFFFFF),
               struct.pack("<L", zlib.adler32(zeroed) & 0xFFFFFFFF), struct.pack("<L", crc32c(data) & 0xFFFFFFFF),
               struct.pack("<L", crc32c(data[:8] + data[12:]) & 0xFFFFFFFF)]
    t = rng.choice(targets)
    bits = [64 + 8 * i + b for i in range(4) for b in range(8) if (cur[i] ^ t[i]) >> b & 1]
    return bits or None


def straddles(bits):
    inside = [i for i in bits if FIELD_LO <= i < FIELD_HI]
    return bool(inside) and len(inside) != len(bits)


# ------------------------------------------------------------------ implementation adapters
def chunk_obj(c):
    from aiortc import rtcsctptransport as m
    cls = m.CHUNK_TYPES[c[0]]
    t = c[0]
    o = cls(flags=c[1])
    if t == 0:
        o.tsn, o.stream_id, o.stream_seq, o.protocol = c[2], c[3], c[4], c[5]
        o.user_data = bytes(c[6])
    elif t in INIT:
        (o.initiate_tag, o.advertised_rwnd, o.outbound_streams, o.inbound_streams, o.initial_tsn) = c[2:7]
        o.params = [(p[0], bytes(p[1])) for p in c[7]]
    elif t == 3:
        o.cumulative_tsn, o.advertised_rwnd = c[2], c[3]
        o.gaps = [tuple(g) for g in c[4]]
        o.duplicates = list(c[5])
    elif t in PARAMS:
        o.params = [(p[0], bytes(p[1])) for p in c[2]]
    elif t == 7:
        o.cumulative_tsn = c[2]
    elif t == 192:
        o.cumulative_tsn = c[2]
        o.streams = [tuple(s) for s in c[3]]
    else:
        o.body = bytes(c[2])
    return o


def chunk_list(o):
    t = o.type
    if t == 0:
        return [0, o.flags, o.tsn, o.stream_id, o.stream_seq, o.protocol, list(o.user_data)]
    if t in INIT:
        return [t, o.flags, o.initiate_tag, o.advertised_rwnd, o.outbound_streams, o.inbound_streams, o.initial_tsn,
                [[p[0], list(p[1])] for p in o.params]]
    if t == 3:
        return [3, o.flags, o.cumulative_tsn, o.advertised_rwnd, [list(g) for g in o.gaps], list(o.duplicates)]
    if t in PARAMS:
        return [t, o.flags, [[p[0], list(p[1])] for p in o.params]]
    if t == 7:
        return [7, o.flags, o.cumulative_tsn]
    if t == 192:
        return [192, o.flags, o.cumulative_tsn, [list(s) for s in o.streams]]
    return [t, o.flags, list(o.body)]


def rparam_obj(p):
    from aiortc import rtcsctptransport as m
    if p[0] == 13:
        return m.StreamResetOutgoingParam(request_sequence=p[1], response_sequence=p[2], last_tsn=p[3],
                                          streams=list(p[4]))
    if p[0] == 17:
        return m.StreamAddOutgoingParam(request_sequence=p[1], new_streams=p[2])
    return m.StreamResetResponseParam(response_sequence=p[1], result=p[2])


def rparam_list(o):
    n = o.__class__.__name__
    if n == "StreamResetOutgoingParam":
        return [13, o.request_sequence, o.response_sequence, o.last_tsn, list(o.streams)]
    if n == "StreamAddOutgoingParam":
        return [17, o.request_sequence, o.new_streams]
    return [16, o.response_sequence, o.result]


def attempt(fn):
    try:
        return [0, fn()]
    except Exception as exc:  # noqa
        return [classify_exc(exc)]


def impl_parse(data):
    from aiortc.rtcsctptransport import parse_packet

    def go():
        sp, dp, tag, chunks = parse_packet(bytes(data))
        return [sp, dp, tag, [chunk_list(c) for c in chunks]]
    return attempt(go)


class C08(Check):
    prop = "C08"
    props_file = "Props/C08.v"
    models = ["Crc32c", "SctpWire"]
    quick_cases = 6000
    thorough_cases = 150000
    case_timeout = 3.0
    level_note = ("Theorems are about Model/Crc32c.v (bit-serial reflected CRC-32C) and Model/SctpWire.v (hand "
                  "transcription of the SCTP wire codec at the top of rtcsctptransport.py, repaired tree); their tie to "
                  "aiortc is the differential run: crc32c against google_crc32c.value, serialise/parse in both "
                  "directions including structure-aware malformed packets with recomputed checksum, RE-CONFIG "
                  "parameters, and burst-corrupted packets. google_crc32c itself, struct and bytes slicing are trusted.")
    rule = ("mixed stream: 8% crc32c inputs (random/structured, 0-3000 bytes), 30% round trips of random chunks of all "
            "15 types with boundary-biased field values, parameter/user-data lengths over all residues mod 4 (a few at "
            "the 65535 limit and a few out of struct range), 27% malformed parse inputs (length fields +-1..8, "
            "parameter lengths 0..3, SACK counts, truncation, trailing bytes, random bodies, random bytes; checksum "
            "recomputed), 10% params/RE-CONFIG parameter codecs, 25% burst corruptions (1..32 bit windows biased to the "
            "checksum-field boundaries, plus crafted self-consistent straddling bursts = K6); distinct by (case, "
            "output); non-trivial = accepted packet with >= 1 chunk, or a burst case, or a crc of >= 1 byte")

    _tier = "quick"

    def run(self, tier, seed, ncases=None):
        self._tier = tier
        return super().run(tier, seed, ncases)

    # ------------------------------------------------------------ generator
    def gen_case(self, rng, i):
        k = rng.random()
        if k < 0.08:
            m = rng.random()
            if m < 0.3:
                n = rng.randrange(0, 40)
            elif m < 0.9:
                n = rng.randrange(0, 400)
            else:
                n = rng.randrange(0, 3000)
            return ["crc", g_bytes(rng, n)]
        if k < 0.38:
            m = rng.random()
            if m < 0.008:
                # chunks at the 65535-byte limit; list-shaped ones (model cost is quadratic) at the limit only
                # in the thorough tier and rarely
                c = g_chunk(rng, rng.choice([0, 3, 4, 192, 10]),
                            huge=2 if (self._tier == "thorough" and rng.random() < 0.004) else 1)
            elif m < 0.07:
                c = g_bad_chunk(rng)
            else:
                c = g_chunk(rng)
            sp, dp, tag = g_int(rng, U16), g_int(rng, U16), g_int(rng, U32)
            if rng.random() < 0.02:
                sp = rng.choice([U16 + 1, -1])
            if rng.random() < 0.02:
                tag = rng.choice([U32 + 1, -1])
            return ["rt", sp, dp, tag, c]
        if k < 0.65:
            return ["parse", list(g_malformed(rng))]
        if k < 0.68:
            ps = g_params(rng)
            if rng.random() < 0.1:
                ps.append([rng.choice([U16 + 1, -1, 5]), g_bytes(rng, rng.choice([3, 65532]))])
            return ["encp", ps]
        if k < 0.71:
            m = rng.random()
            if m < 0.4:
                body = ref_params(g_params(rng, 4, 40)) + b"\0" * rng.randrange(0, 5)
            else:
                n = rng.randrange(0, 40)
                body = bytearray(ref_params(g_params(rng, 3, 20)) + bytes(g_bytes(rng, n)))
                if len(body) >= 4 and rng.random() < 0.7:
                    struct.pack_into("!H", body, 2, rng.choice([0, 1, 2, 3, 4, 5, 6, 7, 8, len(body), len(body) + 1, 65535]))
            return ["decp", list(body)]
        if k < 0.73:
            p = g_rparam(rng)
            if rng.random() < 0.15:
                p[1] = rng.choice([U32 + 1, -1])
            return ["rpb", p]
        if k < 0.75:
            t = rng.choice([13, 13, 16, 17, 17, 1, 14])
            m = rng.random()
            if m < 0.5:
                data = ref_rparam(g_rparam(rng)) + bytes(g_bytes(rng, rng.choice([0, 0, 1, 2, 3, 8])))
            else:
                data = bytes(g_bytes(rng, rng.choice([0, 1, 4, 7, 8, 9, 11, 12, 13, 14, 15, rng.randrange(0, 40)])))
            return ["rpp", t, list(data)]
        # burst corruption of a valid packet
        m = rng.random()
        if m < 0.5:
            c = g_chunk(rng, rng.choice([0, 0, 3, 7, 11, 1, 192]))
            if c[0] == 0:
                c[6] = g_bytes(rng, rng.choice([1, 2, 3, 4, 5, 20, 48, rng.randrange(1, 200)]))
            data = ref_packet(g_int(rng, U16), g_int(rng, U16), g_int(rng, U32), ref_chunk(c))
        else:
            data = g_valid_packet(rng)
        r = rng.random()
        if r < 0.12:
            bits = craft_straddle(rng, data)
            if bits is None:
                bits = g_burst_bits(rng, len(data) * 8)
        elif r < 0.27:
            bits = special_checksum_burst(rng, data) or g_burst_bits(rng, len(data) * 8)
        else:
            bits = g_burst_bits(rng, len(data) * 8)
        return ["burst", list(data), bits]

    def extra_search_cases(self, rng, n):
        out = []
        for i in range(n):
            k = rng.random()
            if k < 0.4:
                out.append(["rt", g_int(rng, U16), g_int(rng, U16), g_int(rng, U32), g_chunk(rng)])
            elif k < 0.7:
                data = g_valid_packet(rng)
                out.append(["burst", list(data), g_burst_bits(rng, len(data) * 8)])
            else:
                out.append(self.gen_case(rng, i))
        return out

    def model_name(self, case):
        return "Crc32c" if case[0] == "crc" else "SctpWire"

    def encode(self, case):
        k = case[0]
        if k == "crc":
            return case[1]
        if k == "rt":
            return [7, case[1], case[2], case[3], case[4]]
        if k == "parse":
            return [1, case[1]]
        if k == "encp":
            return [2, case[1]]
        if k == "decp":
            return [3, case[1]]
        if k == "rpb":
            return [4, case[1]]
        if k == "rpp":
            return [5, case[1], case[2]]
        if k == "cb":
            return [6, case[1]]
        if k == "burst":
            return [8, case[1], list(flip(bytes(case[1]), case[2]))]
        raise ValueError(k)

    # ------------------------------------------------------------ implementation
    def impl_run(self, case):
        from aiortc import rtcsctptransport as m
        k = case[0]
        if k == "crc":
            return m.crc32c(bytes(case[1]))
        if k == "rt":
            r = attempt(lambda: m.serialize_packet(case[1], case[2], case[3], chunk_obj(case[4])))
            if r[0] != 0:
                return r
            data = r[1]
            try:
                sp, dp, tag, chunks = m.parse_packet(data)
            except Exception as exc:  # noqa
                return [1, list(data), [classify_exc(exc)]]
            return [0, list(data), [sp, dp, tag, [chunk_list(c) for c in chunks]],
                    [attempt(lambda c=c: list(m.serialize_packet(sp, dp, tag, c))) for c in chunks]]
        if k == "parse":
            return impl_parse(case[1])
        if k == "encp":
            return attempt(lambda: list(m.encode_params([(p[0], bytes(p[1])) for p in case[1]])))
        if k == "decp":
            return attempt(lambda: [[t, list(v)] for t, v in m.decode_params(bytes(case[1]))])
        if k == "rpb":
            return attempt(lambda: list(bytes(rparam_obj(case[1]))))
        if k == "rpp":
            cls = m.RECONFIG_PARAM_TYPES.get(case[1])
            if cls is None:
                return []
            return attempt(lambda: rparam_list(cls.parse(bytes(case[2]))))
        if k == "cb":
            return attempt(lambda: list(bytes(chunk_obj(case[1]))))
        if k == "burst":
            data = bytes(case[1])
            return [impl_parse(data)[0], impl_parse(flip(data, case[2]))]
        raise ValueError(k)

    # ------------------------------------------------------------ oracle: the property on the implementation
    def oracle(self, case, impl_out):
        k = case[0]
        if k == "burst":
            data, bits = bytes(case[1]), case[2]
            if not bits or max(bits) - min(bits) >= 32 or max(bits) >= len(data) * 8 or not checksum_ok(data):
                return None                     # precondition: valid packet, non-empty burst within a 32-bit window
            if impl_out[0] != 0:
                return None                     # precondition: the uncorrupted packet is one parse_packet accepts
            if impl_out[1][0] == -1:
                return None
            kind = "accepted" if impl_out[1][0] == 0 else f"raised {impl_out[1][0]}"
            if straddles(bits):
                if impl_out[1][0] == 0:
                    return ("crc-burst-straddles-checksum-field",
                            f"burst over bits {min(bits)}..{max(bits)} touching the checksum field and its "
                            f"neighbourhood is accepted")
                return ("crc-burst-not-rejected", f"corrupted packet {kind} instead of ValueError")
            return ("crc-burst-undetected",
                    f"packet of {len(data)} bytes with bits {bits} flipped (window of {max(bits) - min(bits) + 1} bits, "
                    f"not straddling the checksum field) is {kind} by parse_packet")
        if k == "rt":
            sp, dp, tag, c = case[1:5]
            if not (0 <= sp <= U16 and 0 <= dp <= U16 and 0 <= tag <= U32 and wf_chunk(c)):
                return None                     # precondition: values struct.pack accepts
            if impl_out[0] != 0 or len(impl_out) != 4:
                return ("roundtrip-fails", f"serialize/parse of a well-formed chunk failed: {str(impl_out)[:200]}")
            _, data, parsed, again = impl_out
            if parsed != canon([sp, dp, tag, [c]]):
                return ("roundtrip-fields-differ", f"sent {str([sp, dp, tag, c])[:300]} parsed {str(parsed)[:300]}")
            if again != [[0, data]]:
                return ("roundtrip-bytes-differ", f"re-serialised packet differs from the original for {str(c)[:300]}")
            if not checksum_ok(bytes(data)):
                return ("roundtrip-bad-checksum", "serialize_packet produced a packet whose CRC-32C does not verify")
            return None
        if k == "parse":
            data = bytes(case[1])
            if impl_out[0] in (-2, -3):
                return ("c05-parse-crash" if impl_out[0] == -2 else "c05-parse-hang",
                        f"parse_packet raised a non-ValueError exception / hung on {len(data)} bytes")
            if impl_out[0] == 0 and not checksum_ok(data):
                return ("bad-checksum-accepted", "parse_packet accepted a packet whose checksum does not verify")
            if impl_out[0] == 0:
                # whatever was parsed serialises again and parses back to itself
                from aiortc.rtcsctptransport import parse_packet, serialize_packet
                sp, dp, tag, chunks = impl_out[1]
                for c in chunks:
                    try:
                        again = serialize_packet(sp, dp, tag, chunk_obj(c))
                        sp2, dp2, tag2, cs2 = parse_packet(again)
                        back = [sp2, dp2, tag2, [chunk_list(x) for x in cs2]]
                    except Exception as exc:  # noqa
                        return ("parsed-chunk-not-serialisable", f"{str(c)[:200]}: {exc!r}")
                    if back != [sp, dp, tag, [c]]:
                        return ("parsed-chunk-reparse-differs", f"{str(c)[:200]} -> {str(back)[:200]}")
            return None
        if k in ("decp", "rpp"):
            if impl_out and impl_out[0] in (-2, -3):
                return ("c05-parse-crash" if impl_out[0] == -2 else "c05-parse-hang", f"{k} on {case[-1]}")
            return None
        if k == "encp":
            if not wf_params(case[1]):
                return None
            from aiortc.rtcsctptransport import decode_params
            if impl_out[0] != 0:
                return ("params-roundtrip-fails", str(impl_out))
            try:
                back = [[t, list(v)] for t, v in decode_params(bytes(impl_out[1]))]
            except Exception as exc:  # noqa
                return ("params-roundtrip-fails", repr(exc))
            if back != canon(case[1]):
                return ("params-roundtrip-differ", f"{str(case[1])[:200]} -> {str(back)[:200]}")
            return None
        if k == "rpb":
            p = case[1]
            if not wf_rparam(p):
                return None
            from aiortc.rtcsctptransport import RECONFIG_PARAM_TYPES
            if impl_out[0] != 0:
                return ("rparam-roundtrip-fails", str(impl_out))
            try:
                o = RECONFIG_PARAM_TYPES[p[0]].parse(bytes(impl_out[1]))
                back, again = rparam_list(o), list(bytes(o))
            except Exception as exc:  # noqa
                return ("rparam-roundtrip-fails", repr(exc))
            if back != p or again != impl_out[1]:
                return ("rparam-roundtrip-differ", f"{p} -> {back}")
            return None
        return None

    def nontrivial(self, case, impl_out):
        k = case[0]
        if k == "crc":
            return len(case[1]) >= 1
        if k == "rt":
            return impl_out[0] == 0
        if k == "parse":
            return impl_out[0] == 0 and len(impl_out[1][3]) >= 1
        if k == "burst":
            return True
        return bool(impl_out) and impl_out[0] == 0

    def shrink_candidates(self, case):
        k = case[0]
        if k in ("parse", "decp", "crc"):
            data = case[-1]
            for cand in super().shrink_candidates(data):
                if k == "parse":
                    cand = list(fix_checksum(bytes(cand)))
                yield case[:-1] + [cand]
        elif k == "rt":
            c = case[4]
            for idx, f in enumerate(c):
                if isinstance(f, list) and len(f) > 0:
                    for cand in ([], f[:len(f) // 2], f[1:], f[:-1]):
                        if cand != f:
                            yield case[:4] + [c[:idx] + [cand] + c[idx + 1:]]
                elif isinstance(f, int) and idx >= 1 and f not in (0, 1):
                    yield case[:4] + [c[:idx] + [0] + c[idx + 1:]]
                    yield case[:4] + [c[:idx] + [1] + c[idx + 1:]]
        elif k == "burst":
            bits = case[2]
            if len(bits) > 1:
                for i in range(len(bits)):
                    yield [k, case[1], bits[:i] + bits[i + 1:]]

    def describe_case(self, case):
        s = str(case)
        return case if len(s) < 600 else [case[0], s[:600] + "..."]

    def distribution(self, cases, outs):
        d = {}
        for c, o in zip(cases, outs):
            k = c[0]
            d[k] = d.get(k, 0) + 1
            if k == "rt":
                d[f"rt_type_{c[4][0]}"] = d.get(f"rt_type_{c[4][0]}", 0) + 1
                key = "rt_ok" if o[0] == 0 else "rt_struct_error"
                d[key] = d.get(key, 0) + 1
            elif k == "parse":
                key = {0: "parse_ok", -1: "parse_valueerror", -2: "parse_crash", -3: "parse_hang"}[o[0]]
                d[key] = d.get(key, 0) + 1
                if o[0] == 0:
                    d["parse_ok_chunks"] = d.get("parse_ok_chunks", 0) + len(o[1][3])
                elif o[0] == -1:
                    try:
                        from aiortc.rtcsctptransport import parse_packet
                        parse_packet(bytes(c[1]))
                        why = "?"
                    except Exception as exc:  # noqa
                        why = " ".join(str(exc).split()[:3])
                    d["reject: " + why] = d.get("reject: " + why, 0) + 1
            elif k == "burst":
                key = "burst_straddling" if straddles(c[2]) else "burst_plain"
                d[key] = d.get(key, 0) + 1
                if o[1][0] == 0:
                    d["burst_accepted"] = d.get("burst_accepted", 0) + 1
        return d

    # ------------------------------------------------------------ thorough tier: exhaustive burst sweep
    def extra_checks(self, ctx):
        import random
        out = []
        rng = random.Random(ctx["rng"].random())
        packets = [ref_packet(5000, 5001, 0xDEADBEEF, ref_chunk([0, 3, 1, 2, 3, 51, list(b"hello")]))]
        npk = 2 if ctx["tier"] == "quick" else 12
        for _ in range(npk):
            c = g_chunk(rng, rng.choice([0, 3, 7, 11, 192]))
            if c[0] == 0:
                c[6] = g_bytes(rng, rng.randrange(1, 40))
            packets.append(ref_packet(g_int(rng, U16), g_int(rng, U16), g_int(rng, U32), ref_chunk(c))[:200])
        packets = [p for p in packets if checksum_ok(p)]
        for data in packets:
            nb = len(data) * 8
            lengths = range(1, 33) if ctx["tier"] != "quick" else (1, 2, 7, 8, 31, 32)
            for n in lengths:
                for start in range(0, nb - n + 1):
                    if ctx["tier"] == "quick" and not (start % 8 in (0, 7) or 56 <= start <= 100):
                        continue
                    bits = {start, start + n - 1}
                    for i in range(start + 1, start + n - 1):
                        if rng.random() < 0.5:
                            bits.add(i)
                    bits = sorted(bits)
                    case = ["burst", list(data), bits]
                    r = self.oracle(case, canon(self.impl_run(case)))
                    if r is not None:
                        out.append((r[0], r[1], case))
                        if len(out) > 5:
                            return out
        return out


if __name__ == "__main__":
    import sys
    sys.exit(C08().main(sys.argv[1:]))
