"""C10 -- JitterBuffer: correspondence with Model/Jitter.v and property oracle.

A case is [capacity, prefetch, is_video, packets]; a packet is [seq, ts, data, useq] where `useq` is
the generator's ground truth: the position of the packet in the sender's (unwrapped) stream.  The
model only sees (seq, ts, data).  Tagged data is [tag_hi, tag_lo, n, n bytes] with a tag that is
unique per arrival, so the oracle can tell from a released frame's bytes exactly which arrivals it
was built from, without looking at the model.
"""
from harness.framework import Check, canon, classify_exc, load_known

CAPS = [4, 8, 16, 32, 64, 128]
M16 = 0xFFFF
JUMPS = [99, 100, 101, 127, 128, 129, 255, 256, 257, 1000, 32639, 32640, 32641, 32767, 32768, 32769, 40000,
         65435, 65436, 65437, 65535, 65536, 65537]


def cap_valid(c):
    return 0 < c <= 65536 and c & (c - 1) == 0


def tagged(tag, rng):
    n = rng.choice([0, 0, 1, 2, 3])
    return [(tag >> 8) & 255, tag & 255, n] + [rng.randrange(256) for _ in range(n)]


def parse_tags(data):
    """tagged frame bytes -> list of tags, or None when it does not parse"""
    tags = []
    i = 0
    while i < len(data):
        if i + 3 > len(data):
            return None
        n = data[i + 2]
        if i + 3 + n > len(data):
            return None
        tags.append(data[i] * 256 + data[i + 1])
        i += 3 + n
    return tags


def make_stream(rng, nframes, maxf, wild):
    """list of (useq, ts) in sender order"""
    r = rng.random()
    if r < 0.35:
        ts = 2 ** 32 - rng.randrange(1, 20000)
    elif r < 0.45:
        ts = 0
    else:
        ts = rng.randrange(2 ** 32)
    step = rng.choice([1, 90, 960, 3000, 3000, 3000])
    out = []
    u = 0
    for f in range(nframes):
        size = rng.randint(1, maxf)
        for _ in range(size):
            out.append([u, ts])
            u += 1
        if wild and rng.random() < 0.05:
            pass                       # next frame re-uses the timestamp (frames merge)
        elif wild and rng.random() < 0.05:
            ts = (ts - step) % 2 ** 32  # timestamp going backwards
        else:
            ts = (ts + step * rng.choice([1, 1, 1, 2, 5])) % 2 ** 32
        if wild and rng.random() < 0.08:
            u += rng.choice(JUMPS + [rng.randrange(1, 300), rng.randrange(1, 70000)])
    return out


def displace(rng, items, d):
    keyed = [(i + rng.uniform(0, d), i, x) for i, x in enumerate(items)]
    keyed.sort()
    return [x for _, _, x in keyed]


def gen_rx_pli(rng):
    """arrivals at a real video RTCRtpReceiver (its 128-slot jitter buffer): a framed stream with holes, long enough for
    the buffer to fill up behind an incomplete frame and throw packets away"""
    seq = rng.choice([0, 1000, 65300, 65500, rng.randrange(65536)])
    ts = rng.randrange(1 << 32)
    pk = []
    n = rng.randrange(135, 320)
    while len(pk) < n:
        ts = (ts + 3000) & 0xFFFFFFFF
        for _ in range(rng.choice([1, 1, 2, 3, 4])):
            seq = (seq + 1) & 0xFFFF
            if rng.random() < rng.choice([0.0, 0.01, 0.05]):
                continue
            pk.append([seq, ts])
        if rng.random() < 0.01:
            seq = (seq + rng.choice([200, 1000, 40000])) & 0xFFFF       # a jump: the buffer starts over
    return ["rx", pk]


def run_rx_pli(case):
    """per arrival: what JitterBuffer.add returned (key-frame request, frame) and what the receiver did with it (PLI on the
    wire, frame handed to the decoder)"""
    from aiortc import rtp
    from harness.props.c11 import ReceiverRig, _loop_run
    out = {"steps": []}

    async def go():
        rig = ReceiverRig([[[100, [0]]], [], [99]], None)
        await rig.start()
        try:
            jb = getattr(rig.receiver, "_RTCRtpReceiver__jitter_buffer")
            real_add = jb.add
            last = []

            def spy(packet):
                r = real_add(packet)
                last.append([bool(r[0]), r[1] is not None])
                return r
            jb.add = spy
            for i, (seq, ts) in enumerate(case[1]):
                pkt = rtp.RtpPacket(payload_type=100, sequence_number=seq, timestamp=ts, ssrc=1234, payload=b"\x10\x00\x00\x01data")
                del last[:]
                res = await rig.handle(pkt, arrival_ms=i * 10)
                out["steps"].append([last[0] if last else None, len(res[1]), len(res[2])])
        finally:
            await rig.stop()
    _loop_run(go())
    return out


def oracle_rx_pli(case, out):
    for k, (jb, plis, frames) in enumerate(out["steps"]):
        if jb is None:
            continue
        if jb[0] and plis != 1:
            return ("key-frame-request-swallowed", f"arrival #{k} (seq {case[1][k][0]}): the jitter buffer threw away held packets "
                                                   f"and asked for a key frame, the receiver sent {plis} PLI (frame released by the same call: {jb[1]})")
        if not jb[0] and plis:
            return ("spurious-pli", f"arrival #{k}: {plis} PLI although the jitter buffer did not ask for a key frame")
        if jb[1] != bool(frames):
            return ("frame-not-handed-over", f"arrival #{k}: jitter buffer released a frame: {jb[1]}, frames handed to the decoder: {frames}")
    return None


class C10(Check):
    prop = "C10"
    props_file = "Props/C10.v"
    models = ["Jitter"]
    quick_cases = 2500
    thorough_cases = 50000
    case_timeout = 60.0
    level_note = ("Theorems are about Model/Jitter.v (and, for C17, the window abstraction proved equivalent to it in "
                  "Proof/JitterP.v); the tie to aiortc.jitterbuffer.JitterBuffer is the differential run of generated "
                  "arrival histories in which the return value of every add() AND the complete ring (_origin, length, "
                  "every occupied slot with sequence number, timestamp, data) are compared after every call. "
                  "MAX_MISORDER, uint16_add are regenerated from the source on every run. Packets are the triple "
                  "(sequence_number, timestamp, _data) the buffer reads; sequence numbers are 16-bit as produced by "
                  "RtpPacket.parse.")
    rule = ("arrival histories of 1-260 packets from a framed sender stream (frame sizes 1-8, 16-bit start offsets, "
            "half of them within 300 of the wrap; 32-bit timestamps, a third within 20000 of the wrap) delivered "
            "in order / with bounded displacement < capacity / as a full permutation / with loss, duplication, "
            "unbounded displacement, late packets around MAX_MISORDER, sequence jumps around capacity, 100, 32768, "
            "65536; capacities 4..128 (rarely 1, 2, 256 and invalid ones), prefetch 0..4, audio and video; distinct "
            "by (history, outputs); plus (extra check, oracle only) 25 / 150 arrival lists of 135-320 packets with holes at a real video "
            "RTCRtpReceiver: every key-frame request of its jitter buffer must go out as a PLI, every frame to the decoder; non-trivial = at least two frames released and at least one call that released "
            "nothing")

    # ------------------------------------------------------------ generator
    def gen_case(self, rng, i):
        r = rng.random()
        if r < 0.015:
            cap = rng.choice([0, 3, 6, 12, 100, -4])
        elif r < 0.05:
            cap = rng.choice([1, 2, 256])
        else:
            cap = rng.choice(CAPS) if rng.random() < 0.6 else rng.choice([4, 8, 16])
        pf = rng.randrange(0, 5)
        video = rng.randrange(2)
        base = (65536 - rng.randrange(0, 300)) % 65536 if rng.random() < 0.5 else rng.randrange(65536)
        mode = rng.choice(["inorder", "inorder", "perm", "disp", "disp", "lossdup", "lossdup", "late", "late",
                           "wild", "wild", "wild"])
        maxf = rng.choice([1, 2, 3, 8, 8])
        c = max(cap, 4)
        if mode == "perm":
            stream = make_stream(rng, rng.randrange(1, 40), maxf, False)[:max(1, c - 1)]
            arr = [stream[0]] + rng.sample(stream[1:], len(stream) - 1)
        elif mode == "inorder":
            arr = make_stream(rng, rng.randrange(1, 60), maxf, False)
        elif mode == "disp":
            stream = make_stream(rng, rng.randrange(2, 50), maxf, False)
            arr = displace(rng, stream, rng.choice([1.5, 2, 3, c / 4, c / 2, c - 1]))
        elif mode == "lossdup":
            stream = make_stream(rng, rng.randrange(2, 50), maxf, False)
            ploss = rng.choice([0, 0.02, 0.1, 0.3])
            pdup = rng.choice([0, 0.02, 0.1, 0.3])
            arr = []
            for x in stream:
                if rng.random() < ploss:
                    continue
                arr.append(x)
                while rng.random() < pdup:
                    arr.append(list(x))
            arr = displace(rng, arr, rng.choice([0.5, 2, c / 2, c - 1, c + 3, 2 * c]))
        elif mode == "late":
            # mostly ordered delivery plus retransmissions / stragglers arriving 1..140 positions late
            stream = make_stream(rng, rng.randrange(8, 60), maxf, False)
            arr = displace(rng, stream, rng.choice([0.5, 0.5, 2, c / 4]))
            for _ in range(rng.randrange(1, 5)):
                k = rng.randrange(1, len(arr) + 1)
                mx = max(x[0] for x in arr[:k])
                back = rng.choice([rng.randrange(1, 100), rng.randrange(30, 100), rng.randrange(50, 100), 99, 98,
                                   rng.randrange(100, 141)])
                u = mx - back
                if u < 0:
                    continue
                # a burst of consecutive retransmissions (so that they can form whole frames again)
                burst = [list(x) for x in stream if u <= x[0] < u + rng.choice([1, 1, 2, 4, 9]) and x[0] <= mx]
                if burst and rng.random() < 0.3 and burst[0] in arr[:k]:
                    arr.remove(burst[0])            # a straggler instead of a duplicate
                    k -= 1
                arr[k:k] = burst
        else:
            stream = make_stream(rng, rng.randrange(2, 60), maxf, True)
            arr = []
            for x in stream:
                if rng.random() < 0.05:
                    continue
                arr.append(x)
                if rng.random() < 0.05:
                    arr.append(list(x))
            arr = displace(rng, arr, rng.choice([0.5, 2, c / 2, c, 3 * c, 150, 300]))
            # late arrivals around MAX_MISORDER and around the capacity
            for _ in range(rng.randrange(0, 4)):
                if len(arr) < 2:
                    break
                k = rng.randrange(1, len(arr))
                back = rng.choice([1, 2, c - 1, c, c + 1, 98, 99, 100, 101, 102, 200, 32767, 32768, 32769, 40000])
                u = arr[k][0] - back
                arr.insert(k, [u, rng.choice([arr[k][1], arr[k - 1][1], rng.randrange(2 ** 32)])])
        arr = arr[:260]
        untagged = rng.random() < 0.05
        pkts = []
        for tag, (u, ts) in enumerate(arr):
            data = [rng.randrange(256) for _ in range(rng.randrange(0, 6))] if untagged else tagged(tag, rng)
            pkts.append([(base + u) & M16, ts, data, u])
        return [cap, pf, video, pkts]

    def encode(self, case):
        return [case[0], case[1], case[2], [[p[0], p[1], p[2]] for p in case[3]]]

    def shrink_candidates(self, case):
        if case[0] == "rx":
            for c in Check.shrink_candidates(self, case[1]):
                yield ["rx", c]
            return
        cap, pf, video, pkts = case
        n = len(pkts)
        step = max(1, n // 2)
        while n > 1 and step >= 1:
            for i in range(0, n, step):
                yield [cap, pf, video, pkts[:i] + pkts[i + step:]]
            if step == 1:
                break
            step //= 2
        if pf > 0:
            yield [cap, 0, video, pkts]

    # ------------------------------------------------------------ implementation
    def extra_checks(self, ctx):
        """`a video buffer signals a key-frame request whenever it had to throw away packets it was holding`: in a real
        video RTCRtpReceiver that signal must reach the wire as a PLI, also when the same add() releases a frame"""
        import random
        rng = random.Random(1010)
        n = 150 if ctx["tier"] == "thorough" else 25
        self.rx_pli_cases = n
        for _ in range(n):
            case = gen_rx_pli(rng)
            res = oracle_rx_pli(case, run_rx_pli(case))
            if res:
                return [(res[0], res[1], case)]
        return []

    def impl_run(self, case):
        from aiortc.jitterbuffer import JitterBuffer
        from aiortc.rtp import RtpPacket

        if case[0] == "rx":
            return run_rx_pli(case)

        cap, pf, video, pkts = case
        try:
            jb = JitterBuffer(capacity=cap, prefetch=pf, is_video=bool(video))
        except Exception as exc:
            return [classify_exc(exc), []]
        steps = []
        for seq, ts, data, _u in pkts:
            p = RtpPacket(sequence_number=seq, timestamp=ts)
            p._data = bytes(data)
            try:
                pli, fr = jb.add(p)
            except Exception as exc:
                return [classify_exc(exc), steps]
            occ = [[i, x.sequence_number, x.timestamp, list(x._data)] for i, x in enumerate(jb._packets)
                   if x is not None]
            steps.append([1 if pli else 0,
                          [] if fr is None else [[fr.timestamp, list(fr.data)]],
                          [] if jb._origin is None else [jb._origin],
                          len(jb._packets), occ])
        return [0, steps]

    # ------------------------------------------------------------ oracle (the property, on the implementation)
    def oracle(self, case, impl_out):
        if case[0] == "rx":
            return oracle_rx_pli(case, impl_out)
        cap, pf, video, pkts = case
        if not cap_valid(cap):
            return None                     # outside the property: the constructor / first add rejects it
        if not all(0 <= p[0] <= M16 for p in pkts):
            return None
        if len(impl_out) < 2:
            return ("raised", "add() did not return within the time limit")
        status, steps = impl_out[0], impl_out[1]
        if status != 0 or len(steps) != len(pkts):
            return ("raised", f"add() raised on packet #{len(steps)} {pkts[len(steps)][:2] if len(steps) < len(pkts) else ''} "
                              f"(capacity {cap}, prefetch {pf})")
        tag_ok = all(len(p[2]) >= 3 and len(p[2]) == 3 + p[2][2] for p in pkts)
        by_tag = {}
        if tag_ok:
            for k, p in enumerate(pkts):
                by_tag[p[2][0] * 256 + p[2][1]] = k
            tag_ok = len(by_tag) == len(pkts)
        # ---- 1. bounded ring, nothing stale, nothing foreign
        for k, st in enumerate(steps):
            pli, fr, org, ln, occ = st
            if ln != cap or len(occ) > cap:
                return ("ring-size", f"after add #{k} the ring has {ln} slots / {len(occ)} packets, capacity {cap}")
            if not org:
                return ("ring-invariant", f"after add #{k} the origin is unset")
            for i, s, t, d in occ:
                if i != s % cap or ((s - org[0]) & M16) >= cap:
                    return ("ring-invariant", f"after add #{k}: slot {i} holds seq {s}, origin {org[0]}, capacity {cap}")
                if not any(q[0] == s and q[1] == t and q[2] == d for q in pkts[:k + 1]):
                    return ("foreign-packet", f"after add #{k}: slot {i} holds a packet that was never added")
            if not video and pli:
                pass                          # not part of the property (the code never does it)
        if not tag_ok:
            return None
        # ---- 2. frame integrity, PLI on discard
        released = []                         # arrival indices in release order
        frames = []                           # list of lists of arrival indices
        held = set()
        for k, st in enumerate(steps):
            pli, fr, org, ln, occ = st
            ftags = []
            if fr:
                fts, fdata = fr[0]
                tags = parse_tags(fdata)
                if not tags:
                    return ("frame-integrity", f"add #{k} released a frame that is not a concatenation of whole payloads")
                idx = []
                for t in tags:
                    if t not in by_tag or by_tag[t] > k:
                        return ("frame-integrity", f"add #{k} released a payload that was not received before")
                    idx.append(by_tag[t])
                if [b for j in idx for b in pkts[j][2]] != fdata:
                    return ("frame-integrity", f"add #{k}: frame bytes differ from the received payloads")
                for a, b in zip(idx, idx[1:]):
                    if (pkts[a][0] + 1) & M16 != pkts[b][0]:
                        return ("frame-integrity", f"add #{k}: frame splices seq {pkts[a][0]} and {pkts[b][0]}")
                if any(pkts[j][1] != fts for j in idx):
                    return ("frame-integrity", f"add #{k}: frame timestamp {fts} but packets carry "
                                               f"{[pkts[j][1] for j in idx]}")
                ftags = idx
                released += idx
                frames.append(idx)
            now = set(by_tag[d[0] * 256 + d[1]] for _, _, _, d in occ)
            dropped = [j for j in held if j not in now and j not in ftags and pkts[j][0] != pkts[k][0]]
            if video and dropped and not pli:
                return ("pli-missing", f"add #{k} (seq {pkts[k][0]}) threw away held packets "
                                       f"{[pkts[j][0] for j in dropped]} without requesting a key frame")
            held = now
        # ---- 3. no reuse / order, as long as nothing arrives 100 or more late (ground truth: stream positions)
        base = (pkts[0][0] - pkts[0][3]) & M16 if pkts else 0
        consistent = all(((base + p[3]) & M16) == p[0] for p in pkts)
        if consistent and pkts:
            hyp = True
            mx = pkts[0][3]
            for p in pkts[1:]:
                if not (mx - 100 < p[3] <= mx + 32000):
                    hyp = False
                    break
                mx = max(mx, p[3])
            if hyp:
                if len(set(released)) != len(released):
                    return ("packet-reused", "a received packet was used in two released frames although nothing "
                                             "arrived 100 or more positions late")
                us = [pkts[j][3] for j in released]
                bad = [i for i in range(len(us) - 1) if us[i] >= us[i + 1]]
                if bad:
                    i = bad[0]
                    return ("frames-out-of-order", f"released stream positions not increasing: position {us[i + 1]} "
                                                   f"(seq {pkts[released[i + 1]][0]}) came out after position {us[i]} "
                                                   f"although nothing arrived 100 or more positions late")
        # ---- 4. completeness
        if consistent and pkts:
            us = [p[3] for p in pkts]
            n = len(us)
            perm = sorted(us) == list(range(n)) and us[0] == 0
            if perm:
                ts_of = {p[3]: p[1] for p in pkts}
                sframes = []                  # the sender's frames as lists of stream positions
                for u in range(n):
                    if u and ts_of[u] == ts_of[u - 1]:
                        sframes[-1].append(u)
                    else:
                        sframes.append([u])
                got = [[pkts[j][3] for j in f] for f in frames]
                pp = max(pf, 1)
                inorder = us == list(range(n))
                sizes = [len(f) for f in sframes]
                fits = all(sum(sizes[i:i + pp]) <= cap - 1 for i in range(len(sizes)))
                if inorder and fits:
                    want = sframes[:max(0, len(sframes) - pp)]
                    if got != want:
                        return ("incomplete-inorder", f"in-order complete stream of {len(sframes)} frames, prefetch {pf}: "
                                                      f"released {len(got)} frames, expected the first {len(want)}")
                    if any(st[0] for st in steps):
                        return ("incomplete-inorder", "key-frame request on an in-order complete stream")
                elif n <= cap - 1:
                    if got != sframes[:len(got)]:
                        return ("incomplete-permuted", f"complete stream delivered as a permutation within the capacity: "
                                                       f"released {got[:6]}..., sender frames {sframes[:6]}...")
                    if any(st[0] for st in steps):
                        return ("incomplete-permuted", "key-frame request although nothing had to be discarded")
                    heldu = sorted(pkts[j][3] for j in held)
                    if heldu != [u for f in sframes[len(got):] for u in f]:
                        return ("incomplete-permuted", "a frame was neither released nor is it still held")
                    if self._literal and len(got) < len(sframes) - pp:
                        return ("trailing-backlog", f"{len(sframes) - len(got)} frames still held after a complete "
                                                    f"permuted delivery, prefetch window is {pp}")
        return None

    _literal_cache = None

    @property
    def _literal(self):
        # the literal reading "all but the trailing prefetch window is released" is false after any
        # reordering (known finding C10-K1); it is only checked once that finding is registered, so that
        # the run prints KNOWN-FINDING instead of failing
        if C10._literal_cache is None:
            C10._literal_cache = any(k.get("property") == "C10" and k.get("signature") == "trailing-backlog"
                                     for k in load_known())
        return C10._literal_cache

    def nontrivial(self, case, impl_out):
        if impl_out[0] != 0:
            return False
        steps = impl_out[1]
        return sum(1 for s in steps if s[1]) >= 2 and any(not s[1] for s in steps)

    def distribution(self, cases, outs):
        d = {"adds": 0, "frames": 0, "pli": 0, "raised": 0, "invalid_capacity": 0, "video": 0,
             "wrap_seq": 0, "resets": 0, "overflows": 0, "ignored_late": 0, "dup_overwrite": 0,
             "by_capacity": {}, "by_prefetch": {}, "max_hist": 0}
        for c, o in zip(cases, outs):
            cap, pf, video, pkts = c
            d["by_capacity"][str(cap)] = d["by_capacity"].get(str(cap), 0) + 1
            d["by_prefetch"][str(pf)] = d["by_prefetch"].get(str(pf), 0) + 1
            d["video"] += 1 if video else 0
            d["max_hist"] = max(d["max_hist"], len(pkts))
            if not cap_valid(cap):
                d["invalid_capacity"] += 1
            if o[0] != 0:
                d["raised"] += 1
                continue
            seqs = [p[0] for p in pkts]
            if seqs and max(seqs) - min(seqs) > 60000:
                d["wrap_seq"] += 1
            prev_org = None
            prev_occ = []
            for p, st in zip(pkts, o[1]):
                d["adds"] += 1
                d["frames"] += 1 if st[1] else 0
                d["pli"] += st[0]
                if prev_org is not None and cap_valid(cap):
                    delta = (p[0] - prev_org) & M16
                    mis = (prev_org - p[0]) & M16
                    if mis < delta:
                        d["resets" if mis >= 100 else "ignored_late"] += 1
                    elif delta >= cap:
                        d["overflows"] += 1
                    elif any(x[1] == p[0] for x in prev_occ):
                        d["dup_overwrite"] += 1
                prev_org = st[2][0] if st[2] else None
                prev_occ = st[4]
        return d


if __name__ == "__main__":
    import sys
    sys.exit(C10().main(sys.argv[1:]))
