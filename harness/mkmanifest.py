#!/usr/bin/env python3
"""Writes /verif/MANIFEST.json from the table below (kept in one place so it stays valid)."""
import json
import os

VERIF = os.path.dirname(os.path.dirname(os.path.abspath(__file__)))
ALL = ["C%02d" % i for i in range(1, 20)]

BASELINE = ("cd /repo && /venv/bin/python -m pytest -ra -q -p no:cacheprovider --timeout=900 "
            "--continue-on-collection-errors")

COMMON_NOTE = (
    "Trusted: Coq 8.16.1 kernel + VM (vm_compute; no native_compute); no axioms (every property theorem prints "
    "'Closed under the global context'; the check fails on any axiom outside the list in DESIGN.md section 4); the "
    "ast translator harness/translate.py for coq/Gen; OCaml extraction with ExtrOcamlBasic only + driver_tail.ml; "
    "the differential correspondence harness. The model is hand-written and tied to /repo by running model and "
    "implementation on the same generated inputs on every run. ")

CLAIMED = {
    "C12": dict(
        text="Coq theorems over Model/Router.v for all operation histories: route_rtp specification and its converse, "
             "route_rtcp recipient set, REMB parser totality, unregistered receiver/sender never routed again "
             "(induction over arbitrary later operation lists), latched SSRC sticks. Model tied to RtpRouter by "
             "differential execution of random histories plus an implementation-level property oracle.",
        design_ref="5 / C12",
        note="Handles stand for object identity; dict/set iteration order is canonicalised before comparison.",
        technique="Coq proof (induction over operation lists, invariants) + model/implementation correspondence",
    ),
}

CLAIMED["C01"] = dict(
    text="Coq theorems over Model/SctpSend.v + Model/SctpRecv.v: fragmentation is lossless with B/E flags and "
         "consecutive TSNs; for EVERY arrival list over the sent chunks (any loss/duplication/reordering, any TSN "
         "origin incl. wrap, plus arbitrary FORWARD-TSN) every delivered message is (stream, ppid, data) of a sent "
         "message; a TSN is accepted at most once and the reassembly assertion is unreachable (window < 2^31); "
         "ORDERED EXACTLY-ONCE DELIVERY end to end: for any message list, any initial TSN and any arrival list, "
         "the messages delivered on an ordered stream are exactly the first n ordered messages sent on it, in "
         "order, each once (sender numbering lemma + transport dedupe + stream automaton; 16-bit SSN window "
         "stated as hypothesis swin, discharged for streams of at most 2^15 messages); AT MOST ONCE in every mode: "
         "the deliveries on a stream - ordered or unordered - are the messages of a duplicate-free list of sent "
         "fragment lists (counting invariant of pop_messages: every chunk is retained or consumed by exactly one "
         "delivered run), also for all streams at once with arbitrary FORWARD-TSN chunks interleaved (theorem 8); "
         "COMPLETE DELIVERY: once every chunk of a stream's ordered messages has been accepted, all of them have been "
         "delivered - the pop loop stops only where the next message is incomplete and every queued chunk is still "
         "queued or part of a delivered message (theorem 9); "
         "str/bytes/empty values round-trip through four distinct PPIDs (9 theorems). PARTIAL: "
         "'eventually delivered after the network heals' over two endpoints composes theorem 9 with C02's closed loop "
         "(C02_closed_loop, one direction, in-order suffix); the general two-endpoint statement is observed by the "
         "scenario oracle.",
    design_ref="5 / C01",
    note="Network faults are abstracted as an arbitrary arrival list over sent chunks; SACK-path faults cannot "
         "influence what the receiver delivers. Tie: receiver-level differential run (extracted model vs real "
         "InboundStream/_receive_data_chunk; deliveries, SACK contents incl. a_rwnd with small initial windows, state "
         "after every event), sender-level differential run (Model/SctpSend.v vs the chunks RTCSctpTransport._send "
         "queues: TSNs, SSN counters at any origin, flags, payload slices around the 1200-byte boundary) and scripted two-endpoint fault scenarios on real RTCSctpTransport "
         "objects incl. mixed reliable + partially reliable channels.",
    technique="Coq proof (induction over arrival lists, invariants, refinement of the stream automaton) + "
              "model/implementation correspondence + scenario oracle",
)

CLAIMED["C13"] = dict(
    text="Coq theorems over Model/Chan.v (data-channel layer) for ALL input lists incl. every interleaving of "
         "deferred flush/reconfig tasks: DCEP OPEN round trip for every label/protocol/reliability setting; "
         "readyState rank never decreases; at most one open and one close event per channel, emitted exactly at "
         "the crossing steps; bufferedAmount of every live channel equals the queued user bytes not yet handed to "
         "the transport (never negative, zero when drained) under every congestion oracle; association end closes "
         "every channel and empties table and queue; auto-chosen ids are unused and of the role's parity, the ids two "
         "endpoints of opposite role would choose never coincide after any histories, live "
         "channels have pairwise distinct ids, closing never raises KeyError; a received OPEN yields exactly one "
         "datachannel event for an open channel with the opener's id and parameters, a repeated OPEN is ignored; "
         "close() on an open channel resets exactly its stream and the peer's response closes it and frees the id "
         "for immediate reuse; for every input list no message is queued for a closed channel (closing drops what the channel "
         "still had queued, so nothing of a previous owner of a stream id is sent after its reset); close() while the association is still being set up queues the stream reset, "
         "which is requested as soon as the association is established; negotiated channels register under their id, open exactly once when the association "
         "is (or becomes) established, and a second channel with the id is refused (19 theorems). PARTIAL: the two-endpoint close protocol is "
         "observed only; it is refuted by known findings K4 (RE-CONFIG never retransmitted), K9 (reset request "
         "processed before the DATA it follows), K10 (id reused before both directions are reset).",
    design_ref="5 / C13",
    note="Congestion state (is _outbound_queue empty after a _send), 'the handshake is in progress' at close() and UTF-8 validity are oracle inputs of the "
         "model; theorems hold for all their values. Tie: differential run against a real RTCSctpTransport with "
         "_send/_send_reconfig_param/ensure_future recorded; two real endpoints running create/send/close programs "
         "under fault schedules as oracle.",
    technique="Coq proof (composable step invariant over all input lists) + model/implementation correspondence",
)

CLAIMED["C16"] = dict(
    text="For every list of H.264 NAL units (each >= 2 bytes, type 1..23) and every VP8 buffer and picture id "
         "0..32767 the model of the packetiser terminates and raises nothing; payloads are <= the GENERATED "
         "PACKET_MAX (= 1300); depayloading them reproduces the bitstream exactly; FU-A fragments carry one S first, "
         "one E last and the original F/NRI/type bits; STAP-A packets hold 2..9 whole units; only the first VP8 "
         "payload is a partition start and every payload carries the picture id; descriptor serialise-then-parse is "
         "the identity for every in-range field combination; _split_bitstream inverts joining with 3-/4-byte start "
         "codes; both descriptor parsers return a value or ValueError on every byte string (11 theorems, all closed).",
    design_ref="5 / C16",
    note="Model/H264.v and Model/Vp8.v are hand transcriptions tied to the code by the differential run (incl. a "
         "malformed stream: every prefix, bit flips, length-field edits, random bytes) and by the generated "
         "constants. Float math.ceil, the depayload dispatch and Encoder.pack are not modelled; an end-to-end "
         "oracle on real av.Packet objects exercises them.",
    technique="Coq proof (induction, loop invariants with fuel, finite enumeration of bit fields by vm_compute) + "
              "extracted-model/implementation correspondence",
)

CLAIMED["C02"] = dict(
    text="Coq theorems over Model/SctpTx.v for ALL input histories (messages, arbitrary SACKs incl. stale / "
         "duplicated / nonsensical ones, T3 expiries, deferred transmit tasks): cwnd >= 1 MTU; 0 <= flight size <= "
         "bytes really in flight (hence 0 when nothing is outstanding); whenever anything is outstanding or queued "
         "the T3 timer is armed or a transmit task is scheduled, and queued data never waits behind an empty sent "
         "queue; the invariant is inductive from any state; NO REACHABLE STATE IS WEDGED: from every reachable "
         "state the fault-free continuation (peer acknowledges the last TSN sent, pending transmit task runs) "
         "reaches quiescence - sent and outbound queue empty, flight size 0 - within 2*(outstanding+queued) inputs, "
         "by a TSN-order invariant (queue TSNs are the consecutive run after max(last SACKed, advanced ack point)) "
         "and a decreasing measure; the acknowledgement of that continuation is the one the receiver model sends "
         "when the outstanding chunks arrive in order; every SCTP timer is armed with a delay in [1 s, 60 s] after "
         "ANY history of round-trip measurements, NaN / infinite / negative ones included (Model/Rto.v: _update_rto "
         "in primitive IEEE-754 floats, bit-exact); THE CLOSED LOOP: from any reachable sender state and a receiver in "
         "sync with it, when the outstanding chunks arrive in order the receiver MODEL's own SACKs drive the sender "
         "MODEL to quiescence within 2*(outstanding+queued) rounds and the receiver has cumulatively received every "
         "TSN that was outstanding or queued (8 theorems). PARTIAL: delayed SACKs, reordering inside the fault-free "
         "suffix, both directions at once, abandonment during the suffix and when timers actually fire are observed "
         "on the two-endpoint simulator (fault prefix + fault-free suffix), not proved.",
    design_ref="5 / C02",
    note="Sender model tied to a real RTCSctpTransport (ESTABLISHED; _send_chunk, timers, ensure_future recorded) by "
         "differential runs comparing outputs and the full sender state after every input; lost DATA needs no input "
         "(the chunk stays outstanding), loss/dup/reorder of SACKs = arbitrary SACK inputs. Model/Rto.v is compared "
         "bit for bit with the real _update_rto inside Coq (vm_compute over hexadecimal float literals) on 400 / 2500 "
         "measurement histories per run; Print Assumptions of theorem 7 lists the kernel's primitive float operations "
         "(not axioms).",
    technique="Coq proof (inductive invariant over all input histories, zipper model of in-place queue mutation) + "
              "model/implementation correspondence",
)

CLAIMED["C18"] = dict(
    text="For every arrival history of one RTP stream (any loss, duplication, reordering, sequence and timestamp "
         "wrap, arbitrary arrival clock) and every report instant, the model's statistics and each RTCP receiver "
         "report carry exactly the RFC 3550 figures: exact count, expected = extended-highest - first + 1, clamped "
         "cumulative loss, fraction lost of the interval since the previous report, extended highest sequence "
         "number incl. wrap cycles (mod 2^32), A.8 jitter recurrence with 32-bit modular transit differences, "
         "LSR/DLSR; every field fits its wire width so building the report never raises; figures are independent "
         "of sequence/timestamp origins (16 theorems, all closed; the unrepaired code is refuted in Coq).",
    design_ref="5 / C18",
    note="Model/Stats.v (repaired code; one remote SSRC per receiver) tied to aiortc by a differential run: every "
         "probe, every report's fields and bytes, final object fields; independent RFC 3550 oracle and a "
         "shifted-origin re-run on the implementation. time.time() is an input. Several SSRCs per report, "
         "RtcpReceiverInfo.parse and float rounding of real clock values are not modelled.",
    technique="Coq proof (invariant + induction over event histories, simulation relation for origin shifts) + "
              "extraction-based correspondence",
)
CLAIMED["C04"] = dict(
    text="DTLS identity policy (validate = true iff at least one fingerprint uses a supported hash and every "
         "supported one matches; order, unsupported entries and ASCII case irrelevant), the start() gate (CONNECTED, "
         "SRTP sessions, pump and any hand-over or send only if handshake, fingerprint policy and SRTP profile all "
         "passed, over all histories; a failed transport stays silent) and mirror-image SRTP key slicing for every "
         "profile of the GENERATED table and every keying material of the right length are proved on Model/Dtls.v "
         "(18 theorems). PARTIAL: packet integrity / tamper rejection live in OpenSSL and libsrtp and are only "
         "observed on ~2000 real DTLS pairs per quick run.",
    design_ref="5 / C04",
    note="Digests, handshake script, selected profile, exported material and recv/unprotect/send outcomes are "
         "universally quantified oracles, never axioms. Gen/Dtls.v (algorithm names, profile key/salt lengths, State "
         "numbers) is regenerated by a fail-closed AST table extractor. Correspondence: extracted model vs the real "
         "_validate_peer_identity (real certificate), get_key_and_salt and start/_recv_next/_send_*/stop driven by a "
         "scripted SSL connection; real end-to-end pairs with recorded oracles.",
    technique="Coq proof over an executable model with oracle parameters + regenerated tables + differential "
              "correspondence + real end-to-end DTLS pairs",
)
CLAIMED["C07"] = dict(
    text="Coq proofs over executable models of aiortc/rtp.py: for all well-formed values RTP packets (any extension "
         "id map, one-/two-byte form, CSRCs, padding) and RTCP compound packets (SR/RR/SDES/BYE/RTPFB/PSFB) parse "
         "back to themselves; a NACK denotes the same set of 16-bit numbers for every list (same list for ascending "
         "or wrap-crossing lists); loss saturates at the signed 24-bit range and survives pack/unpack; REMB never "
         "rounds up, has relative error below 2^-17 and preserves its SSRCs; RTX wrap/unwrap is invertible; all "
         "parsers return a value or ValueError on every byte string (15 theorems, all closed).",
    design_ref="5 / C07",
    note="Model/Rtp.v and Model/Rtcp.v are hand transcriptions tied to the code by a differential run of the "
         "extracted models against the real functions in both directions, incl. a malformed stream with every "
         "truncation of the test .bin packets. Python str values are modelled by their UTF-8 encoding, os.urandom "
         "padding is an input, UnicodeError counts as ValueError.",
    technique="Coq proof (induction, bit-field lemmas, byte facts by exhaustive vm_compute) + extraction-based "
              "correspondence + implementation round-trip oracle",
)

CLAIMED["C09"] = dict(
    text="On Model/Sdp.v (structured lines): every description of the shape RTCPeerConnection generates "
         "(wf_generated_b, evaluated each run on the real objects) is a fixed point of parse-then-serialise with all "
         "fields recovered; for EVERY accepted line list one round of parse/serialise is idempotent and yields "
         "exactly the stated normal form; ICE candidates and the signaling object<->message mapping round-trip "
         "(6 theorems). PARTIAL at character level: the lexer/printer (split, re, int, ipaddress) is validated by "
         "the differential run, not proved. Known finding K8: a host name in c= / a=rtcp: is accepted by the parser "
         "but makes str() raise.",
    design_ref="5 / C09",
    note="Differential correspondence covers real createOffer/createAnswer SDP and objects over a configuration "
         "walk, generated objects with boundary values, the browser SDPs embedded in tests/test_sdp.py and mutated "
         "texts; implementation oracles check idempotence, fixed point and field recovery directly. The IP version "
         "of an address is an oracle field; json is trusted.",
    technique="Coq proof (fold/segment lemmas, parser invariants, normal form) + differential correspondence + "
              "implementation oracles",
)

CLAIMED["C06"] = dict(
    text="Coq theorems: (1) for ANY message mix and ANY receiver event list of sent DATA chunks (any "
         "loss/dup/reorder) plus ARBITRARY FORWARD-TSN chunks, every delivery is (stream, ppid, data) of a sent "
         "message; (2) _maybe_abandon abandons whole messages: back to the B fragment, forward to the E fragment, "
         "including fragments not yet sent; (3) in every reachable sender state _transmit never hands an abandoned "
         "chunk to the network; (4) abandonment preserves the sender's no-deadlock invariant; (5) at the receiver a "
         "FORWARD-TSN leaves every stream it does not name alone except for pruning chunks at or below its own "
         "cumulative TSN (sequence counter unchanged, nothing delivered); (6) with ARBITRARY FORWARD-TSN chunks in "
         "between, the deliveries on all streams are messages of pairwise different chunk runs, each the fragment "
         "list of one sent message: no sent message is delivered twice (chunk accounting of the whole receiver); (7) on "
         "an ordered stream, for every list of admissible events - chunks at or beyond the delivery point and "
         "FORWARD-TSN chunks as the sender builds them - the deliveries are the messages of a strictly increasing "
         "list of message indices: in sending order, nothing twice, gaps where messages were abandoned (stale "
         "messages let through, queues blocked until pruned and the re-poll after pruning included). PARTIAL: theorem "
         "7 is stated at the stream level (its admissibility hypotheses are what TSN dedupe and the sender's "
         "FORWARD-TSN construction provide; that composition is not mechanised); end-to-end non-interference and recovery after healing are statements over two endpoints, observed on the "
         "two-endpoint simulator (mixed reliable / PR channels, faults, heal, probe message per channel), not "
         "proved; six genuine stall/loss defects found that way are repaired in /repo. (8) when the reassembly scan meets a TSN "
         "gap inside a run of unordered fragments it restarts at the chunk at which the gap showed: a complete unordered message "
         "there is delivered in the same pass (the history that used to lose such a message is replayed from corpus/C06.jsonl "
         "on every run; defect repaired in /repo).",
    design_ref="5 / C06",
    note="Uses Model/SctpTx.v (sender) and Model/SctpRecv.v (receiver), each tied to the real RTCSctpTransport by "
         "its differential run (sender histories dominated by retransmit-/lifetime-limited messages larger than "
         "cwnd; receiver event lists with FORWARD-TSN). Virtual clock; lifetimes are integers.",
    technique="Coq proof (structural lemmas on the zipper model, inductive invariant) + model/implementation "
              "correspondence + two-endpoint oracle",
)

CLAIMED["C10"] = dict(
    text="Coq theorems over Model/Jitter.v for all arrival histories of 16-bit sequence numbers, every capacity 2^k, "
         "every prefetch, audio and video: add() never raises; ring invariant (bounded, no stale or foreign packet); "
         "every released frame is the concatenation of a run of received packets with consecutive sequence numbers "
         "and the frame's timestamp; video PLI whenever a held packet is dropped unreleased; no arrival is used in "
         "two frames (unconditional multiset accounting); without MAX_MISORDER resets frames occupy disjoint "
         "increasing unwrapped positions; in-order complete streams that fit are released exactly except the last "
         "max(prefetch,1) frames; the literal completeness claim for REORDERED delivery is refuted in Coq and on the "
         "code (known finding C10-K1); outputs are invariant under any shift of sequence numbers mod 2^16 and "
         "timestamps mod 2^32 (10 theorems, all closed).",
    design_ref="5 / C10",
    note="Theorems are about the model; tie = differential run comparing every add() return value and the complete "
         "ring after every call; MAX_MISORDER and uint16_add are regenerated from the source each run.",
    technique="Coq proof (refinement of the ring to a window abstraction, induction over arrival lists, simulation "
              "for the shifts) + model/implementation correspondence + implementation oracle",
)
CLAIMED["C08"] = dict(
    text="Every well-formed SCTP chunk of all 15 types, with all field values and all length residues, parses back "
         "to itself and re-serialises byte-identically (also bundles, parameter lists, RE-CONFIG parameters); "
         "everything parse_packet accepts is well-formed and re-parses identically; a valid packet corrupted within "
         "a window of at most 32 bits (CRC bit order) lying entirely outside or entirely inside the checksum field "
         "is rejected (GF(2)-linearity + backward reconstruction of the LFSR); parse_packet, decode_params and the "
         "RE-CONFIG parsers return Ok or ValueError on every byte string within fuel length+1 (19 theorems). The "
         "unrestricted burst claim is false for any RFC 4960 implementation: witness proved in Coq and replayed on "
         "the code (known finding K6).",
    design_ref="5 / C08",
    note="Models tied to aiortc by a differential run (~6000 cases quick, 150000 thorough) incl. structure-aware "
         "malformed packets with recomputed checksums; google_crc32c and struct are trusted (CRC model cross-checked "
         "bit for bit).",
    technique="Coq proof (induction, GF(2) linearity, LFSR inversion) + extracted-model correspondence + "
              "implementation oracle",
)
CLAIMED["C03"] = dict(
    text="Proved in Coq for Model/Nego.v: for all codec/extension lists the negotiation helpers select only offered "
         "codecs (offerer's payload types, feedback subset, RTX only after its base with equal clock), offered "
         "header extensions with offerer ids, lawful directions; for every session of configuration calls and "
         "offer/answer exchanges (either side offering, all bundle policies) an exchange leaves both sides stable "
         "with the answer mirroring the offer's m-sections/mids/BUNDLE, a definite DTLS role per section and "
         "complementary current directions, and the next exchange always returns Ok when the real CODECS / "
         "HEADER_EXTENSIONS tables pass tables_ok (checked each run) and codec preferences are compatible "
         "(14 theorems). PARTIAL: 'actually connects / channels carry messages' and ICE/DTLS role complementarity "
         "are observed on real loop-back pairs only; known finding K7.",
    design_ref="5 / C03",
    note="Model tied to /repo by differential runs of the real helper functions, the real capability tables and "
         "sessions on pairs of real RTCPeerConnection objects (SDP parsed by aiortc, compared call by call).",
    technique="Coq proof (induction, invariants) over an executable model + extracted-OCaml correspondence + "
              "implementation oracle on real peer connections",
)

CLAIMED["C15"] = dict(
    text="Coq theorems over Model/RateCounter.v, Model/Aimd.v, Model/Rbe.v: the rate counter reports exactly the "
         "bytes inside its window for every add/rate sequence and clock (C15_window_exact), the integer skeleton of "
         "the remote bitrate estimator never raises for every packet/verdict sequence and any clock incl. "
         "non-monotone ones, estimates stay within the configured bounds, at most 255 SSRCs are reported and every "
         "REMB the estimator produces is encodable (9 theorems). PARTIAL: the floating-point over-use detector / "
         "Kalman filter is an oracle input (its verdicts are universally quantified); that the real float code "
         "never raises is observed by the implementation oracle only.",
    design_ref="5 / C15",
    note="Detector verdicts and float rates enter the model as inputs recorded from the real objects; the "
         "correspondence compares integer state and outputs call by call.",
    technique="Coq proof (induction over operation lists, invariants) + extracted-OCaml correspondence + "
              "implementation oracle",
)

CLAIMED["C05"] = dict(
    text="Totality theorems in Coq for every modelled wire parser: for ALL byte lists the SCTP packet/chunk/parameter/"
         "RE-CONFIG parsers, RTP/RTCP parsers incl. header extensions and REMB, H.264 / VP8 payload descriptor "
         "parsers and DCEP receive return a value or the ValueError code, never the crash or out-of-fuel code, and "
         "the receiver reassembly assertion is unreachable (9 theorems collecting the totality lemmas of C01, C07, "
         "C08, C12, C13, C16). PARTIAL: 'the transport is still up and handles valid traffic afterwards' and time/"
         "memory proportionality are observed, not proved: structure-aware malformed datagrams (valid checksum and "
         "tag, every chunk type, arbitrary fields) are injected into two live RTCSctpTransport endpoints in every "
         "phase and the association must afterwards drain and deliver probe messages; all real parsers are run on "
         "each generated datagram with a per-datagram time budget.",
    design_ref="5 / C05",
    note="The theorems are about the models; the tie is the correspondence of C07/C08/C16 sub-cases and of C01's "
         "receive-data-path cases (small receiver windows, SACK serialised) re-run here. The DTLS receive loop and "
         "rtcrtpreceiver per-packet work are exercised by the oracle only: a real video RTCRtpReceiver is fed the RTP "
         "datagrams (also from 3 / 33 / 70 / 300 synchronisation sources) and then runs one round of its own RTCP "
         "reporting loop, whose output must be parsable and cover every source; a real RTCRtpSender is fed the RTCP; the "
         "receiver's real decoder thread (decoder_worker with the real VP8 / H264 / PCMU / PCMA / Opus / G722 decoders) is fed "
         "frames of the real encoders with hostile payloads in between (empty, random, truncated, bit-flipped) and must "
         "survive and decode the valid frames that follow.",
    technique="Coq proof (totality of fuelled/structural parsers over all byte lists) + extracted-OCaml "
              "correspondence + live fault-injection oracle",
)

CLAIMED["C19"] = dict(
    text="close() terminates under every schedule, is idempotent and leaves no modelled task or thread running: "
         "proved on Model/Close.v for any number of transceivers and transports (decreasing measure, progress "
         "without a 'no task failed' hypothesis, nothing-running post-state, stays closed, transports wind down), "
         "with refutations of the pre-repair code (14 theorems).",
    design_ref="5 / C19",
    note="PARTIAL. The theorems cover the handshake logic only. The tie to the implementation is trace inclusion "
         "plus direct observation on real RTCPeerConnection pairs, which is testing: lifecycle events are recorded "
         "from outside (class wrappers, a task factory, wrappers around aioice connect/close) and replayed in the "
         "extracted model, and the model's final state must equal the real objects' state. The scheduler (every "
         "await may yield; FIFO assumption for the ICE monitor), threads and native libraries are outside the "
         "theorems.",
    technique="Coq 8.16.1 interleaving model with invariant, decreasing measure and progress; differential trace "
              "replay on the extracted model",
)

CLAIMED["C14"] = dict(
    text="Coq proof over Model/Jsep.v with source-regenerated guard tables (Gen/Jsep.v from the ast of "
         "rtcpeerconnection.py): refinement of the RFC 8829 state machine (outcome class and next state) for every "
         "state satisfying the invariant and every call, rejected calls change nothing and fire no event, closed is "
         "absorbing for every call list, slot invariant of all reachable states, outcome and event characterised "
         "(11 theorems); differential run against real RTCPeerConnection pairs (all call sequences up to length 4 "
         "over the core alphabet, up to 3 over the full one, plus random long ones) and an implementation-level oracle.",
    design_ref="5 / C14",
    note="Description content abstracted to type + per-section (kind, mid, ICE, DTLS role, rtcp-mux). Offer/answer "
         "construction, SDP parsing, transports and concurrent close() are not modelled. pranswer/rollback are "
         "outside the alphabet (modelled, not claimed). Private slots deviate from JSEP's pending->current move.",
    technique="Coq proof (refinement to an abstract spec, invariant over all call lists) + regenerated tables + "
              "extracted-model correspondence + oracle",
)

CLAIMED["C11"] = dict(
    text="Video RTP path sender -> network -> receiver, ten Coq theorems over Model/RtpSend.v and Model/RtpRecv.v "
         "(composed with the C07, C10 and C16 models): for every frame/NACK history from any sequence origin the "
         "retransmission history holds exactly the last 128 sends and _retransmit resends the right packet, as RTX "
         "or verbatim, with RTX unwrapping to the original; the NackGenerator's missing set is exactly the "
         "skipped-and-not-arrived numbers of the 128-window, so every NACK lists at most 128 strictly increasing "
         "numbers and one is sent whenever the set grows; for an arbitrary arrival list drawn from the sent packets "
         "and their RTX wrappings every frame handed to the decoder is a run of consecutive packets of ONE sent "
         "frame (never a splice); with fewer than 65536 packets it ends at that frame's end and is the whole frame "
         "unless it is the first release after start or after a PLI; the sender model's output meets the "
         "hypotheses.",
    design_ref="5 / C11",
    note="Frame order: under the C10 lateness hypothesis the frames reach the decoder in stream order, no position "
         "twice (C11_frame_order, C10_ordered lifted through the pipeline). Byte identity: when the sent payloads are the "
         "VP8 / H.264 packetisers' output, every whole frame at the decoder is the encoder's buffer byte for byte "
         "(C11_vp8_bytes, C11_h264_bytes: C11 composed with C16; 13 theorems in all). PARTIAL: timestamp mapping and "
         "recovery liveness are checked by the closed-loop oracle only. A "
         "retransmission arriving 100 or more positions late resets the jitter buffer and is a precondition on the "
         "input. REMB, statistics, wire codecs and scheduling are not modelled. Tie: differential run against a real "
         "NackGenerator, a real RTCRtpSender (_run_rtp fed scripted frames, NACKs via _handle_rtcp_packet), a real "
         "video RTCRtpReceiver and a closed loop of both through a scripted faulty network with real packetisers.",
    technique="Coq proof (induction and invariants over all histories) + extracted-OCaml correspondence + "
              "closed-loop implementation oracle",
)

CLAIMED["C17"] = dict(
    text="Coq theorems: the serial comparisons uint16/uint32 gt/gte/add - REGENERATED from utils.py on every run - "
         "are irreflexive, antisymmetric, total away from the antipode, consistent with modular addition and "
         "translation invariant for ALL values (by lia, not enumeration); shift invariance for every delta: the "
         "SCTP receiver (all DATA / FORWARD-TSN event lists: same deliveries at the same steps, SACKs differ only "
         "by the shift, gap blocks identical), the jitter buffer (sequence numbers mod 2^16 and timestamps mod "
         "2^32), receiver statistics / reports, and the SCTP sender (all message / SACK / T3 / transmit histories: "
         "same congestion state and decisions, outputs' TSNs shifted), and the receiver under a shift of every stream "
         "sequence number mod 2^16 (same deliveries and SACKs at every step), the sender's SSN counters end to end "
         "(two senders whose counters differ by any delta, any ordered messages, any loss / duplication / reordering: "
         "the receivers deliver the same messages and send the same SACKs), the NACK generator (same `missed` verdicts, "
         "missing set shifted) and the RTP sender's retransmission history (same media packets shifted, same "
         "retransmissions verbatim or as RTX with the shifted original sequence number, history slots rotated) and the "
         "data-channel layer under a shift of its own and of the peer's RE-CONFIG request numbering (all input lists: "
         "same events, only the request / response numbers shifted) - 12 theorems. PARTIAL: the separate shift "
         "theorems are not composed into one statement about a whole peer connection; the metamorphic re-run of the "
         "implementation (two-endpoint runs with origins across the wrap) covers that end to end.",
    design_ref="5 / C17",
    note="Gen/Utils.v is validated by value inside Coq (vm_compute) against the Python functions on boundary-biased "
         "pairs each run. Shift theorems are about Model/SctpRecv.v, SctpTx.v, SctpSend.v, RtpRecv.v (NackGenerator), "
         "RtpSend.v, Chan.v, Jitter.v, Stats.v, each tied to the code by its correspondence; this check re-runs the "
         "receiver, _send, NackGenerator, RTP sender and data-channel layer correspondences at wrap origins and "
         "metamorphic pairs on two real SCTP endpoints, the receive path, JitterBuffer, NackGenerator and "
         "StreamStatistics.",
    technique="Coq proof (lia on generated code, simulation relations for origin shifts) + regeneration + "
              "metamorphic implementation oracle",
)

NOT_YET = "check not built yet in this development snapshot (planned, see DESIGN.md section 10)"


def main():
    checks = []
    for pid in ALL:
        if pid not in CLAIMED:
            continue
        c = CLAIMED[pid]
        checks.append({
            "property_id": pid,
            "quick_cmd": f"./check {pid} --tier quick",
            "thorough_cmd": f"./check {pid} --tier thorough",
            "evidence_file": f"/verif/evidence/{pid}.json",
            "replay_cmd_template": f"./check {pid} --replay {{path}}",
            "engine": "coq-proof+correspondence",
            "level_claimed": {"category": "proof", "text": c["text"], "design_ref": c["design_ref"]},
            "level_note": COMMON_NOTE + c["note"],
            "technique": c["technique"],
        })
    man = {
        "version": 1,
        "setup_cmd": "./setup.sh",
        "hooks": {
            "guard": "AIORTC_VERIF",
            "enable": "no source hooks are needed: the harness drives aiortc's objects from outside "
                      "(AIORTC_VERIF=1 is exported by ./check but nothing in /repo reads it)",
            "baseline_off_cmd": BASELINE,
            "source_commits": [],
            "add_only": True,
        },
        "engines": [
            {"name": "coq-proof+correspondence", "path": "coq/ , harness/",
             "serves_properties": sorted(CLAIMED),
             "kind_free_text": "Coq 8.16.1 theorems over executable Gallina models; models regenerated (coq/Gen via "
                               "harness/translate.py) or hand-written and tied to /repo by differential execution of "
                               "the extracted OCaml model against the real aiortc objects; implementation-level "
                               "property oracles drive the search for a failing input when a tie or proof breaks"},
        ],
        "checks": checks,
        "not_applicable": [{"property_id": p, "reason": NOT_YET} for p in ALL if p not in CLAIMED],
        "notes": "See DESIGN.md. known_findings.json lists genuine defects recorded rather than repaired.",
    }
    with open(os.path.join(VERIF, "MANIFEST.json"), "w") as fp:
        json.dump(man, fp, indent=1)
        fp.write("\n")


if __name__ == "__main__":
    main()
