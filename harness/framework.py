"""Shared machinery of the aiortc Coq verification checks.

Flow of one check (see DESIGN.md 2.5):
  1. regenerate coq/Gen from /repo/src (translator, fail-closed)
  2. hygiene grep of the Coq development
  3. make the closure of Props/<ID>.v (full .vo), re-run coqc on the property
     file to collect `Print Assumptions`
  4. build the extracted model, run the correspondence cases on the real
     implementation and on the model, diff
  5. run the property oracle on the implementation outputs; if anything in 1-4
     broke, run the enlarged search
  6. verdict + evidence
"""
import fcntl
import glob
import hashlib
import json
import os
import random
import re
import signal
import subprocess
import sys
import time
import traceback

VERIF = os.path.dirname(os.path.dirname(os.path.abspath(__file__)))
COQ = os.path.join(VERIF, "coq")
WORK = os.path.join(VERIF, "work")
REPLAYS = os.path.join(VERIF, "replays")
EVIDENCE = os.path.join(VERIF, "evidence")
CORPUS = os.path.join(VERIF, "corpus")
REPO = os.environ.get("VERIF_REPO", "/repo")
NPROC = os.cpu_count() or 4

# Coq's primitive 64-bit floats (kernel primitives with reduction rules, used by Model/Rto.v only)
KERNEL_FLOAT_PRIMITIVES = {"float", "add", "sub", "mul", "div", "abs", "opp", "sqrt", "ltb", "leb", "eqb", "compare",
                           "classify", "of_uint63", "normfr_mantissa", "frshiftexp", "ldshiftexp", "next_up", "next_down"}

ALLOWED_AXIOMS = {
    # standard-library axioms tolerated if they ever appear (DESIGN.md section 4)
    "functional_extensionality_dep",
    "proof_irrelevance",
    "Eqdep.Eq_rect_eq.eq_rect_eq",
    "eq_rect_eq",
    "JMeq_eq",
    "classic",
}

TRUSTED_BASE = [
    "Coq 8.16.1 kernel (coqc), including the bytecode VM used by vm_compute; native_compute is not used",
    "translator harness/translate.py (Python ast -> Gallina) for coq/Gen/*.v, validated by value comparison each run",
    "extraction to OCaml with ExtrOcamlBasic only (Extract Inductive bool/option/unit/list/prod/sumbool/sumor, "
    "Extract Inlined Constant andb/orb/negb/fst/snd); Z/positive/N/nat stay extracted inductives; OCaml 4.13.1; "
    "hand-written coq/Extract/driver_tail.ml",
    "correspondence harness: generators, Python adapters driving the real aiortc objects, canonicalisation, diff",
    "the models in coq/Model are hand transcriptions tied to /repo only by that correspondence (modelled, not verified)",
]


# ------------------------------------------------------------------ s-expressions
def sx_dumps(o):
    if isinstance(o, bool):
        return "1" if o else "0"
    if isinstance(o, int):
        return str(o)
    if o is None:
        return "()"
    if isinstance(o, (bytes, bytearray)):
        return "(" + " ".join(str(b) for b in o) + ")"
    return "(" + " ".join(sx_dumps(x) for x in o) + ")"


def sx_loads(s):
    toks = re.findall(r"\(|\)|-?\d+", s)
    pos = 0

    def item():
        nonlocal pos
        t = toks[pos]
        pos += 1
        if t == "(":
            out = []
            while toks[pos] != ")":
                out.append(item())
            pos += 1
            return out
        return int(t)

    return item()


def canon(o):
    """tuples/bytes -> lists, bool -> int, None -> []"""
    if isinstance(o, bool):
        return 1 if o else 0
    if isinstance(o, (int, str, float)):
        return o
    if o is None:
        return []
    if isinstance(o, (bytes, bytearray)):
        return list(o)
    if isinstance(o, dict):
        return {k: (v if k in ("events", "sends", "errors", "channels") else canon(v)) for k, v in o.items()}
    return [canon(x) for x in o]


# ------------------------------------------------------------------ timeouts
class CaseTimeout(Exception):
    pass


def _alarm(signum, frame):
    raise CaseTimeout()


def with_timeout(seconds, fn, *args):
    """Run fn(*args); raise CaseTimeout when it exceeds `seconds` (pure-Python loops only)."""
    old = signal.signal(signal.SIGALRM, _alarm)
    signal.setitimer(signal.ITIMER_REAL, seconds)
    try:
        return fn(*args)
    finally:
        signal.setitimer(signal.ITIMER_REAL, 0)
        signal.signal(signal.SIGALRM, old)


def _rss():
    """resident set size of this process in bytes (0 if unknown)"""
    try:
        with open("/proc/self/statm") as fp:
            return int(fp.read().split()[1]) * os.sysconf("SC_PAGE_SIZE")
    except Exception:  # noqa
        return 0


def classify_exc(exc):
    """Outcome classes compared between model and implementation."""
    if isinstance(exc, CaseTimeout):
        return -3
    if isinstance(exc, ValueError) and not isinstance(exc, UnicodeError):
        return -1
    return -2


# ------------------------------------------------------------------ build steps
def sh(cmd, cwd=None, timeout=3600, env=None):
    p = subprocess.run(cmd, cwd=cwd, shell=isinstance(cmd, str), stdout=subprocess.PIPE,
                       stderr=subprocess.STDOUT, timeout=timeout, env=env)
    out = p.stdout.decode("utf8", "replace")
    out = "\n".join(l for l in out.splitlines() if "conda" not in l.lower() or "warning" not in l.lower())
    return p.returncode, out


class BuildLock:
    def __enter__(self):
        os.makedirs(WORK, exist_ok=True)
        self.fp = open(os.path.join(WORK, ".buildlock"), "w")
        fcntl.flock(self.fp, fcntl.LOCK_EX)
        return self

    def __exit__(self, *a):
        fcntl.flock(self.fp, fcntl.LOCK_UN)
        self.fp.close()


def regenerate():
    """Step 1. Returns (ok, info)."""
    sys.path.insert(0, os.path.join(VERIF, "harness"))
    import translate
    try:
        info = translate.run()
        return True, info
    except translate.TranslateError as exc:
        return False, {"error": str(exc)}
    except Exception as exc:  # fail closed on anything
        return False, {"error": "translator crashed: %r" % (exc,)}


HYGIENE_RE = re.compile(
    r"\b(Admitted|admit|Axiom|Axioms|Parameter|Parameters|Conjecture|Conjectures)\b|Unset\s+Guard|"
    r"bypass_check|type-in-type|impredicative-set|Unset\s+Universe\s+Checking|Unset\s+Positivity|Admit\s+Obligations")
SECTION_RE = re.compile(r"^\s*(Section|End)\s+(\w+)")
VARHYP_RE = re.compile(r"^\s*(Variable|Variables|Hypothesis|Hypotheses|Context)\b")


def strip_comments(text):
    out = []
    depth = 0
    i = 0
    while i < len(text):
        if text.startswith("(*", i):
            depth += 1
            i += 2
        elif text.startswith("*)", i) and depth > 0:
            depth -= 1
            i += 2
        else:
            if depth == 0:
                out.append(text[i])
            elif text[i] == "\n":
                out.append("\n")
            i += 1
    return "".join(out)


REQ_RE = re.compile(r"From\s+AV\s+Require\s+(?:Import|Export)?\s*([^.]*(?:\.[A-Za-z_][\w]*)*[^.]*)\.\s", re.S)


def closure(rel_files):
    """Transitive closure of `From AV Require Import A.B ...` starting from the given files (relative to coq/)."""
    seen = []
    todo = list(rel_files)
    while todo:
        f = todo.pop()
        if f in seen or not os.path.exists(os.path.join(COQ, f)):
            continue
        seen.append(f)
        with open(os.path.join(COQ, f), encoding="utf8") as fp:
            text = strip_comments(fp.read())
        for m in re.finditer(r"From\s+AV\s+Require\s+(?:Import\s+|Export\s+)?((?:[A-Za-z_]\w*(?:\.[A-Za-z_]\w*)*\s*)+)\.", text):
            for mod in m.group(1).split():
                todo.append(mod.replace(".", "/") + ".v")
    return sorted(seen)


def hygiene(rel_files=None):
    """Step 2. Returns list of problems (in the closure of rel_files, or everywhere)."""
    problems = []
    if rel_files is None:
        paths = sorted(glob.glob(os.path.join(COQ, "**", "*.v"), recursive=True))
    else:
        paths = [os.path.join(COQ, f) for f in closure(rel_files)]
    for path in paths:
        rel = os.path.relpath(path, COQ)
        with open(path, encoding="utf8") as fp:
            text = strip_comments(fp.read())
        depth = 0
        for n, line in enumerate(text.splitlines(), 1):
            m = SECTION_RE.match(line)
            if m:
                depth += 1 if m.group(1) == "Section" else -1
            if HYGIENE_RE.search(line):
                problems.append(f"{rel}:{n}: forbidden: {line.strip()[:80]}")
            if VARHYP_RE.match(line) and depth <= 0:
                problems.append(f"{rel}:{n}: Variable/Hypothesis outside a section")
    for f in ("_CoqProject.head",):
        with open(os.path.join(COQ, f)) as fp:
            t = fp.read()
        if "type-in-type" in t or "impredicative-set" in t:
            problems.append(f"{f}: forbidden flag")
    return problems


def write_coqproject():
    files = []
    for d in ("Lib", "Gen", "Model", "Proof", "Props"):
        files += sorted(glob.glob(os.path.join(COQ, d, "*.v")))
    with open(os.path.join(COQ, "_CoqProject.head")) as fp:
        head = fp.read()
    text = head + "".join(os.path.relpath(f, COQ) + "\n" for f in files)
    path = os.path.join(COQ, "_CoqProject")
    old = open(path).read() if os.path.exists(path) else None
    if old != text or not os.path.exists(os.path.join(COQ, "Makefile")):
        with open(path, "w") as fp:
            fp.write(text)
        sh("rm -f Makefile Makefile.conf .Makefile.d", cwd=COQ)
        rc, out = sh("coq_makefile -f _CoqProject -o Makefile", cwd=COQ)
        if rc != 0:
            raise RuntimeError("coq_makefile failed: " + out)


def coq_make(targets, timeout=3000):
    """Step 3a: full .vo build of the given targets (and their closure)."""
    write_coqproject()
    cmd = f"timeout {timeout} make -j{NPROC} " + " ".join(targets)
    rc, out = sh(cmd, cwd=COQ, timeout=timeout + 60)
    return rc == 0, out, cmd


def props_check(props_file):
    """Step 3b: recompile the property file alone, count theorems, parse Print Assumptions."""
    with open(os.path.join(COQ, props_file), encoding="utf8") as fp:
        text = strip_comments(fp.read())
    theorems = re.findall(r"^\s*Theorem\s+(\w+)", text, re.M)
    cmd = f"timeout 900 coqc -Q . AV -w -notation-overridden,-deprecated {props_file}"
    rc, out = sh(cmd, cwd=COQ, timeout=960)
    # Print Assumptions blocks
    blocks = re.split(r"(?m)^(?=Closed under the global context|Axioms:)", out)
    assumptions = []
    bad = []
    for b in blocks:
        if b.startswith("Closed under the global context"):
            assumptions.append("closed")
        elif b.startswith("Axioms:"):
            decls = re.findall(r"(?m)^([A-Za-z_][\w.']*)\s*:\s*(.*)$", b[len("Axioms:"):])
            names = [n for n, _ in decls]
            assumptions.append(names)
            for nme, typ in decls:
                short = nme.split(".")[-1]
                if short in KERNEL_FLOAT_PRIMITIVES and (typ.strip() == "Set" or "float" in typ):
                    continue      # primitive floats of the kernel (Print Assumptions lists them; they are not axioms)
                if nme not in ALLOWED_AXIOMS and short not in ALLOWED_AXIOMS:
                    bad.append(nme)
    printed = len(assumptions)
    ok = rc == 0 and not bad and printed >= len(theorems)
    return {
        "ok": ok, "rc": rc, "theorems": theorems, "assumptions": assumptions, "bad_axioms": bad,
        "cmd": cmd, "log": out[-4000:], "printed": printed,
    }


def build_model(name):
    """Step 4a: extract Model/<name>.main and link it with the generic driver."""
    bdir = os.path.join(COQ, "Extract", "build", name)
    os.makedirs(bdir, exist_ok=True)
    xv = os.path.join(bdir, f"X_{name}.v")
    src = (
        "From Coq Require Extraction ExtrOcamlBasic.\nFrom Coq Require Import ZArith.\n"
        f"From AV Require Import Lib.Sx Model.{name}.\n"
        f"Definition model_main := Model.{name}.main.\n"
        "Extraction Language OCaml.\n"
        f'Extraction "x_{name.lower()}.ml" model_main Z.add Z.mul Z.opp Z.div Z.sub.\n'
    )
    with open(xv, "w") as fp:
        fp.write(src)
    rc, out = sh(f"timeout 600 coqc -Q {COQ} AV -w -notation-overridden,-deprecated,-extraction X_{name}.v", cwd=bdir)
    if rc != 0:
        return None, "extraction failed:\n" + out
    ml = os.path.join(bdir, f"x_{name.lower()}.ml")
    main = os.path.join(bdir, "main.ml")
    with open(main, "w") as fp:
        fp.write(open(ml).read())
        fp.write("\n")
        fp.write(open(os.path.join(COQ, "Extract", "driver_tail.ml")).read())
    exe = os.path.join(bdir, f"{name.lower()}.exe")
    rc, out = sh(f"timeout 600 ocamlfind ocamlopt -O3 -unboxed-types 2>/dev/null -w -a main.ml -o {exe} || "
                 f"timeout 600 ocamlfind ocamlopt -w -a main.ml -o {exe}", cwd=bdir)
    if rc != 0 or not os.path.exists(exe):
        return None, "ocaml build failed:\n" + out
    return exe, ""


def run_model(exe, cases_sx, timeout=1800):
    """cases_sx: list of strings. Returns list of parsed outputs."""
    inp = ("\n".join(cases_sx) + "\n").encode()
    env = dict(os.environ)
    # stdin from a regular file: OCaml's input_line is ~10x slower on a pipe for long lines
    os.makedirs(WORK, exist_ok=True)
    tmp = os.path.join(WORK, f"cases_{os.getpid()}_{os.path.basename(exe)}.sx")
    with open(tmp, "wb") as fp:
        fp.write(inp)
    try:
        with open(tmp, "rb") as fin:
            p = subprocess.run(["bash", "-c", f"ulimit -s unlimited 2>/dev/null; exec {exe}"], stdin=fin,
                               stdout=subprocess.PIPE, stderr=subprocess.PIPE, timeout=timeout, env=env)
    finally:
        try:
            os.unlink(tmp)
        except OSError:
            pass
    lines = p.stdout.decode().splitlines()
    if p.returncode != 0 or len(lines) != len(cases_sx):
        raise RuntimeError(f"model driver failed rc={p.returncode} lines={len(lines)}/{len(cases_sx)}: "
                           + p.stderr.decode()[-500:])
    return [sx_loads(l) for l in lines]


# ------------------------------------------------------------------ known findings
def load_known():
    path = os.path.join(VERIF, "known_findings.json")
    if not os.path.exists(path):
        return []
    with open(path) as fp:
        return json.load(fp)["findings"]


# ------------------------------------------------------------------ the check driver
class Check:
    """Subclass per property. Override the hooks below."""

    prop = "C00"
    props_file = None        # "Props/C12.v"
    models = []              # ["Router"]
    level_note = ""
    quick_cases = 1500
    thorough_cases = 30000
    case_timeout = 2.0

    # ---- hooks
    def gen_case(self, rng, i):
        raise NotImplementedError

    def model_name(self, case):
        return self.models[0]

    def encode(self, case):
        """case -> nested ints for the model"""
        return case

    def impl_run(self, case):
        """Run the real implementation; return canonical nested ints (exceptions -> [code])."""
        raise NotImplementedError

    def model_canon(self, case, out):
        return out

    def oracle(self, case, impl_out):
        """Property oracle on the implementation's behaviour.
        Return None if fine, else (signature, description)."""
        return None

    def nontrivial(self, case, impl_out):
        return True

    def extra_search_cases(self, rng, n):
        return [self.gen_case(rng, i) for i in range(n)]

    def shrink_candidates(self, case):
        """Smaller variants of a case (default: drop list elements)."""
        if isinstance(case, list) and len(case) > 1:
            n = len(case)
            step = max(1, n // 2)
            while step >= 1:
                for i in range(0, n, step):
                    yield case[:i] + case[i + step:]
                if step == 1:
                    break
                step //= 2

    def gen_validation(self):
        """Optional: list of (description, ok) validating translated functions by value."""
        return []

    def extra_checks(self, ctx):
        """Optional additional steps (e.g. end-to-end runs). Return list of (signature, description, case)."""
        return []

    def describe_case(self, case):
        return case

    # ---- driver
    def fails(self, case):
        try:
            out = self.safe_impl(case)
            return self.oracle(case, out)
        except Exception:
            return None

    def safe_impl(self, case):
        rss0 = _rss()
        try:
            return with_timeout(self.case_timeout, self.impl_run, case)
        except CaseTimeout:
            pass
        # a case that overran its budget is run once more with a generous one before it counts as a hang: the
        # budget is wall-clock time and the machine may be busy with other checks.  Not so when the overrun cannot be
        # blamed on load: the process grew by more than 1 GiB meanwhile (a loop that allocates without bound would
        # exhaust the machine during a long second attempt), or the machine is not busy at all.
        try:
            busy = os.getloadavg()[0] > 0.5 * (os.cpu_count() or 1)
        except OSError:
            busy = True
        if _rss() - rss0 > (1 << 30) or not busy:
            return [-3]
        try:
            return with_timeout(max(10 * self.case_timeout, 60.0), self.impl_run, case)
        except CaseTimeout:
            return [-3]

    def shrink(self, case, sig):
        cur = case
        improved = True
        rounds = 0
        if sig == "hang":
            # every candidate would have to run into the time limit again: the case is reported as found
            return cur
        while improved and rounds < 200:
            improved = False
            rounds += 1
            for cand in self.shrink_candidates(cur):
                r = self.fails(cand)
                if r is not None and r[0] == sig:
                    cur = cand
                    improved = True
                    break
        return cur

    def main(self, argv):
        import argparse
        ap = argparse.ArgumentParser()
        ap.add_argument("--tier", default=os.environ.get("VERIF_TIER", "quick"))
        ap.add_argument("--replay", default=None)
        ap.add_argument("--seed", type=int, default=int(os.environ.get("VERIF_SEED", "1")))
        ap.add_argument("--cases", type=int, default=None)
        args = ap.parse_args(argv)
        if args.replay:
            return self.replay(args.replay)
        return self.run(args.tier, args.seed, args.cases)

    def replay(self, path):
        with open(path) as fp:
            rep = json.load(fp)
        case = rep.get("case")
        if case is None:
            print("replay file has no concrete input:", rep.get("broken"))
            return 1
        out = self.safe_impl(case)
        r = self.oracle(case, out)
        print("case:", json.dumps(self.describe_case(case))[:2000])
        print("implementation output:", json.dumps(out)[:2000])
        if r is None:
            print("oracle: property holds on this input")
            return 0
        print(f"oracle: FAILS [{r[0]}] {r[1]}")
        print(f"VIOLATION property={self.prop} replay={path}")
        return 1

    def run(self, tier, seed, ncases=None):
        t0 = time.time()
        os.makedirs(WORK, exist_ok=True)
        os.makedirs(REPLAYS, exist_ok=True)
        os.makedirs(EVIDENCE, exist_ok=True)
        rng = random.Random(seed * 1000003 + int(hashlib.sha256(self.prop.encode()).hexdigest()[:6], 16))
        broken = []          # names of broken theorems / ties
        log = []
        n = ncases or (self.quick_cases if tier == "quick" else self.thorough_cases)

        with BuildLock():
            ok, gen_info = regenerate()
            if not ok:
                broken.append("translator: " + gen_info["error"])
            hyg = hygiene([self.props_file] + [f"Model/{m}.v" for m in self.models])
            for h in hyg:
                broken.append("hygiene: " + h)
            pc = {"theorems": [], "assumptions": [], "cmd": "", "ok": False, "printed": 0, "bad_axioms": []}
            make_cmd = ""
            if ok:
                # thorough: no `make clean` of the shared tree (other checks may be building in it);
                # make's dependency tracking rebuilds what changed and coqchk below re-checks the
                # compiled closure independently
                target = self.props_file.replace(".v", ".vo")
                mok, mout, make_cmd = coq_make([target] + [f"Model/{m}.vo" for m in self.models])
                if not mok:
                    errs = re.findall(r'File "\./([^"]+)", line (\d+)', mout)
                    broken.append("coq build failed: " + (", ".join(f"{a}:{b}" for a, b in errs) or mout[-300:]))
                    log.append(mout[-3000:])
                    # which models still build?
                    coq_make([f"Model/{m}.vo" for m in self.models])
                else:
                    pc = props_check(self.props_file)
                    if not pc["ok"]:
                        broken.append("property file does not check: " + pc["log"][-300:])
                    if pc["bad_axioms"]:
                        broken.append("unexpected axioms: " + ",".join(pc["bad_axioms"]))
            coqchk_out = None
            if tier == "thorough" and ok and pc["ok"]:
                lib = "AV." + self.props_file.replace("/", ".").replace(".v", "")
                rc, out = sh(f"timeout 3000 coqchk -silent -o -Q . AV {lib}", cwd=COQ, timeout=3100)
                coqchk_out = out[-1500:]
                if rc != 0:
                    broken.append("coqchk failed: " + out[-300:])
            exes = {}
            for m in self.models:
                exe, err = build_model(m)
                if exe is None:
                    broken.append(f"model {m} does not build/extract: {err[-300:]}")
                else:
                    exes[m] = exe

        # translator validation by value
        for desc, vok in self.gen_validation() if ok else []:
            if not vok:
                broken.append("translator validation: " + desc)

        # ---- correspondence + oracle
        cases = []
        corpus_n = 0
        cpath = os.path.join(CORPUS, self.prop + ".jsonl")
        if os.path.exists(cpath):
            with open(cpath) as fp:
                for line in fp:
                    if line.strip():
                        cases.append(json.loads(line))
                        corpus_n += 1
        for i in range(n):
            cases.append(self.gen_case(rng, i))

        known = [k for k in load_known() if k["property"] == self.prop and k["status"] == "open"]
        known_seen = {}
        violations = []      # (sig, desc, case)
        disagreements = []
        impl_outs = []
        t_impl = time.time()
        for c in cases:
            impl_outs.append(canon(self.safe_impl(c)))
        t_impl = time.time() - t_impl
        nontriv = set()
        for c, o in zip(cases, impl_outs):
            try:
                nt = self.nontrivial(c, o)
            except Exception:  # noqa -- e.g. the outcome is the hang marker [-3]
                nt = False
            if nt:
                nontriv.add(hashlib.sha256(json.dumps([c, o], sort_keys=True).encode()).hexdigest())
        t_model = time.time()
        by_model = {}
        for idx, c in enumerate(cases):
            by_model.setdefault(self.model_name(c), []).append(idx)
        compared = 0
        for m, idxs in by_model.items():
            if m not in exes:
                continue
            try:
                outs = run_model(exes[m], [sx_dumps(self.encode(cases[i])) for i in idxs])
            except Exception as exc:
                broken.append(f"model {m} run failed: {exc}")
                continue
            for i, mo in zip(idxs, outs):
                compared += 1
                mo = canon(self.model_canon(cases[i], mo))
                if mo != impl_outs[i]:
                    disagreements.append((i, mo))
        t_model = time.time() - t_model
        if disagreements:
            i, mo = disagreements[0]
            broken.append(f"correspondence {self.models}: model and implementation differ on {len(disagreements)} "
                          f"of {compared} cases")

        def run_oracle(case_list, outs):
            for c, o in zip(case_list, outs):
                r = self.oracle(c, o)
                if r is None:
                    continue
                sig, desc = r
                kf = [k for k in known if k["signature"] == sig]
                if kf:
                    known_seen.setdefault(sig, (kf[0], c))
                else:
                    violations.append((sig, desc, c))

        run_oracle(cases, impl_outs)
        for sig, desc, c in self.extra_checks({"tier": tier, "rng": rng, "known": known}):
            kf = [k for k in known if k["signature"] == sig]
            if kf:
                known_seen.setdefault(sig, (kf[0], c))
            else:
                violations.append((sig, desc, c))
        searched = 0
        if broken and not violations:
            # enlarged search, seeded by the disagreeing cases
            extra = [cases[i] for i, _ in disagreements[:200]]
            extra += self.extra_search_cases(rng, max(n * 4, 4000))
            searched = len(extra)
            outs = [canon(self.safe_impl(c)) for c in extra]
            run_oracle(extra, outs)

        # ---- verdict
        rc = 0
        lines = []
        for sig, (k, c) in known_seen.items():
            lines.append(f"KNOWN-FINDING: property={self.prop} {k['id']} {k['summary']}")
        replay_path = None
        if violations:
            sig, desc, c = violations[0]
            small = self.shrink(c, sig)
            replay_path = os.path.join(REPLAYS, f"{self.prop}_{sig}_{seed}.json".replace("/", "_").replace(" ", "_"))
            with open(replay_path, "w") as fp:
                json.dump({"property": self.prop, "signature": sig, "description": desc, "case": small,
                           "original_case": c if small != c else None, "broken": broken}, fp)
            lines.append(f"  failing input [{sig}]: {desc}")
            lines.append(f"VIOLATION property={self.prop} replay={replay_path}")
            rc = 1
        elif broken:
            replay_path = os.path.join(REPLAYS, f"{self.prop}_broken_{seed}.json")
            rep = {"property": self.prop, "case": None, "broken": broken, "log": log,
                   "disagreement": None}
            if disagreements:
                i, mo = disagreements[0]
                rep["disagreement"] = {"case": cases[i], "implementation": impl_outs[i], "model": mo}
            with open(replay_path, "w") as fp:
                json.dump(rep, fp)
            for b in broken[:10]:
                lines.append("  broken: " + b[:400])
            lines.append(f"VIOLATION property={self.prop} replay={replay_path} no-failing-input-found")
            rc = 1

        # ---- evidence
        dist = self.distribution(cases, impl_outs) if hasattr(self, "distribution") else {}
        ev = {
            "property_id": self.prop,
            "tier": tier,
            "seed": seed,
            "level": "proof",
            "coverage": {
                "obligations": max(len(pc["theorems"]), 1) if self.props_file else 1,
                "discharged": len(pc["theorems"]) if pc["ok"] else 0,
                "checker_cmd": f"cd {COQ} && {make_cmd} && {pc['cmd']}" + (" && coqchk -o" if coqchk_out else ""),
                "trusted_base": TRUSTED_BASE + [self.level_note] +
                                ["Print Assumptions: " + json.dumps(dict(zip(pc["theorems"], pc["assumptions"])))],
                "theorems": pc["theorems"],
                "gen_files": gen_info,
                "programs": compared,
                "disagreements_checked": len(disagreements),
                "evaluations": len(cases) + searched,
                "distinct_nontrivial": len(nontriv),
                "rule": getattr(self, "rule", ""),
                "samples": [self.describe_case(c) for c in cases[corpus_n:corpus_n + 2]] +
                           [{"theorem": t} for t in pc["theorems"][:3]],
                "corpus_cases": corpus_n,
                "input_distribution": dist,
                "known_findings_seen": sorted(known_seen.keys()),
                "broken": broken,
                "coqchk": coqchk_out,
                "timing_s": {"impl": round(t_impl, 2), "model": round(t_model, 2)},
            },
            "assumptions": [self.level_note],
            "wall_s": round(time.time() - t0, 2),
            "violations": len(violations) + (1 if broken and not violations else 0),
        }
        if ev["coverage"]["discharged"] == 0:
            # keep the file schema-valid even when the proof is broken: fall back to counts
            ev["coverage"]["discharged"] = 0
            del ev["coverage"]["obligations"]
            del ev["coverage"]["discharged"]
            ev["coverage"]["distinct_nontrivial"] = max(2, ev["coverage"]["distinct_nontrivial"])
        with open(os.path.join(EVIDENCE, self.prop + ".json"), "w") as fp:
            json.dump(ev, fp, indent=1)
        for l in lines:
            print(l)
        print(f"{self.prop}: tier={tier} seed={seed} theorems={len(pc['theorems'])} discharged="
              f"{len(pc['theorems']) if pc['ok'] else 0} cases={len(cases)} compared={compared} "
              f"disagreements={len(disagreements)} nontrivial={len(nontriv)} violations={len(violations)} "
              f"known={len(known_seen)} wall={ev['wall_s']}s -> {'FAIL' if rc else 'ok'}")
        return rc
