#!/bin/bash
# seedtest.sh <PROP> <n> [<check id, default PROP>]: confirm a seeded change and run the check against it.
# Uses the scratch worktree /tmp/${SEEDPFX:-seed}_<PROP> (never /repo); results in /verif/seeded/<PROP>_${SEEDTAG}<n>/.
set -u
P="$1"; N="$2"; CHK="${3:-$1}"
PFX="${SEEDPFX:-seed}"; TAG="${SEEDTAG:-}"
VD="${VERIF_DIR:-/verif}"   # the copy of /verif whose check is run (several lanes can run side by side)
WT=/tmp/${PFX}_$P; OUT=/tmp/${PFX}_${P}_out; DST=/verif/seeded/${P}_${TAG}$N
git -C $WT checkout -q -- . ; git -C $WT checkout -q --detach main
mkdir -p $DST
cp $OUT/patch$N.diff $DST/patch.diff; cp $OUT/demo$N.py $DST/demo.py; cp $OUT/meta$N.json $DST/meta_agent.json
cd $WT
clean=$(PYTHONPATH=$WT/src /venv/bin/python $DST/demo.py 2>&1 | tail -1; echo "rc=${PIPESTATUS[0]}")
if ! git apply --check $DST/patch.diff 2>/dev/null; then echo "PATCH DOES NOT APPLY to current main"; fi
git apply $DST/patch.diff
mut=$(PYTHONPATH=$WT/src /venv/bin/python $DST/demo.py 2>&1 | tail -1; echo "rc=${PIPESTATUS[0]}")
tests=$(PYTHONPATH=$WT/src /venv/bin/python -m pytest -q -p no:cacheprovider --timeout=900 -x 2>&1 | tail -1)
cd $VD
chk=$(VERIF_REPO=$WT ./check $CHK 2>&1 | grep -v "^KNOWN" | grep "VIOLATION\|^$CHK:" | tail -3)
git -C $WT checkout -q -- .
git -C $VD checkout -q -- evidence/$CHK.json 2>/dev/null
echo "clean demo: $clean"; echo "mutant demo: $mut"; echo "suite with patch: $tests"; echo "check: $chk"
python3 - "$DST" "$P" "$CHK" "$clean" "$mut" "$tests" "$chk" <<'PY'
import json, sys
dst, p, chk, clean, mut, tests, res = sys.argv[1:8]
agent = json.load(open(dst + "/meta_agent.json"))
meta = {"property": p, "summary": agent.get("summary"), "needs": agent.get("needs"),
        "confirmed": {"demo_on_unchanged_tree": clean, "demo_with_patch": mut, "full_test_suite_with_patch": tests},
        "check_run": f"VERIF_REPO=<scratch worktree with patch> ./check {chk}", "check_result": res,
        "detected": "VIOLATION" in res}
json.dump(meta, open(dst + "/meta.json", "w"), indent=1)
PY
