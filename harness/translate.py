#!/usr/bin/env python3
"""Fail-closed Python-ast -> Gallina translator (regeneration tie).

Reads /repo/src/aiortc/*.py with `ast` (never imports them) and writes
coq/Gen/*.v.  Only a small whitelisted subset of Python is accepted; anything
else raises TranslateError and the caller treats the tie as broken.

Accepted
  * module-level integer constants whose value is an expression over integer
    literals, previously defined constants and + - * ** << >> | & // % unary -
  * `def f(a: int, ...) -> int | bool` whose body is: optional docstring,
    assignments to fresh local names, `if`/`elif`/`else` whose branches end in
    `return`, and `return expr`; expressions over + - * // % & | ^ << >>,
    comparisons (also chained), and/or/not, conditional expressions,
    min/max/abs, int literals, module constants and calls to already
    translated functions.  `%` and `//` require a positive literal/constant
    divisor (Python and Coq agree there).  Truthiness of an int `x` is
    `x != 0`.
"""
import ast
import hashlib
import os
import sys

REPO_SRC = os.path.join(os.environ.get("VERIF_REPO", "/repo"), "src", "aiortc")
HERE = os.path.dirname(os.path.abspath(__file__))
GEN_DIR = os.path.join(os.path.dirname(HERE), "coq", "Gen")


class TranslateError(Exception):
    pass


def zlit(n):
    return f"({n})" if n < 0 else f"{n}"


class Module:
    def __init__(self, relpath):
        self.relpath = relpath
        path = os.path.join(REPO_SRC, relpath)
        with open(path, "r", encoding="utf8") as fp:
            self.src = fp.read()
        self.tree = ast.parse(self.src, filename=path)
        self.assigns = {}
        self.funcs = {}
        self.classes = {}
        for node in self.tree.body:
            if isinstance(node, ast.Assign) and len(node.targets) == 1 and isinstance(node.targets[0], ast.Name):
                self.assigns[node.targets[0].id] = node.value
            elif isinstance(node, ast.AnnAssign) and isinstance(node.target, ast.Name) and node.value is not None:
                self.assigns[node.target.id] = node.value
            elif isinstance(node, ast.FunctionDef):
                self.funcs[node.name] = node
            elif isinstance(node, ast.ClassDef):
                self.classes[node.name] = node

    # ---------------------------------------------------------- constants
    def const_value(self, name, env):
        if name in env:
            return env[name]
        if name not in self.assigns:
            raise TranslateError(f"{self.relpath}: constant {name} not found")
        v = self.eval_const(self.assigns[name], env)
        env[name] = v
        return v

    def eval_const(self, e, env):
        if isinstance(e, ast.Constant) and isinstance(e.value, int) and not isinstance(e.value, bool):
            return e.value
        if isinstance(e, ast.Name):
            return self.const_value(e.id, env)
        if isinstance(e, ast.UnaryOp) and isinstance(e.op, ast.USub):
            return -self.eval_const(e.operand, env)
        if isinstance(e, ast.BinOp):
            a = self.eval_const(e.left, env)
            b = self.eval_const(e.right, env)
            op = e.op
            if isinstance(op, ast.Add):
                return a + b
            if isinstance(op, ast.Sub):
                return a - b
            if isinstance(op, ast.Mult):
                return a * b
            if isinstance(op, ast.Pow) and 0 <= b <= 128:
                return a ** b
            if isinstance(op, ast.LShift) and 0 <= b <= 128:
                return a << b
            if isinstance(op, ast.RShift) and 0 <= b <= 128:
                return a >> b
            if isinstance(op, ast.BitOr):
                return a | b
            if isinstance(op, ast.BitAnd):
                return a & b
            if isinstance(op, ast.FloorDiv) and b > 0:
                return a // b
            if isinstance(op, ast.Mod) and b > 0:
                return a % b
        raise TranslateError(f"{self.relpath}: unsupported constant expression {ast.dump(e)}")


class FuncTranslator:
    """Translate one function.  Types: 'Z' or 'bool'."""

    def __init__(self, mod, consts, known_funcs, rename=None):
        self.mod = mod
        self.consts = consts  # name -> int value (module constants)
        self.known = known_funcs  # name -> (coq_name, [argtypes], rettype)
        self.rename = rename or {}

    def err(self, node, msg):
        raise TranslateError(f"{self.mod.relpath}:{getattr(node, 'lineno', '?')}: {msg}")

    def ann_type(self, ann, node):
        if isinstance(ann, ast.Name) and ann.id == "int":
            return "Z"
        if isinstance(ann, ast.Name) and ann.id == "bool":
            return "bool"
        self.err(node, "unsupported annotation")

    def translate(self, fn, coq_name):
        if fn.decorator_list or fn.args.vararg or fn.args.kwarg or fn.args.kwonlyargs or fn.args.defaults:
            self.err(fn, "unsupported signature")
        args = []
        env = {}
        for a in fn.args.args:
            t = self.ann_type(a.annotation, fn)
            args.append((a.arg, t))
            env[a.arg] = t
        ret = self.ann_type(fn.returns, fn)
        body = list(fn.body)
        if body and isinstance(body[0], ast.Expr) and isinstance(body[0].value, ast.Constant) and isinstance(body[0].value.value, str):
            body = body[1:]
        term = self.block(body, env, ret)
        sig = " ".join(f"({n} : {t})" for n, t in args)
        return f"Definition {coq_name} {sig} : {ret} :=\n  {term}.\n", [t for _, t in args], ret

    def block(self, stmts, env, ret):
        if not stmts:
            raise TranslateError(f"{self.mod.relpath}: control reaches end of function without return")
        s = stmts[0]
        rest = stmts[1:]
        if isinstance(s, ast.Return):
            if s.value is None:
                self.err(s, "bare return")
            t, ty = self.expr(s.value, env)
            return self.coerce(t, ty, ret, s)
        if isinstance(s, ast.Assign):
            if len(s.targets) != 1 or not isinstance(s.targets[0], ast.Name):
                self.err(s, "unsupported assignment")
            name = s.targets[0].id
            if name in env or name in self.consts:
                self.err(s, f"re-assignment of {name}")
            t, ty = self.expr(s.value, env)
            env2 = dict(env)
            env2[name] = ty
            return f"let {name} := {t} in\n  {self.block(rest, env2, ret)}"
        if isinstance(s, ast.If):
            c, cty = self.expr(s.test, env)
            c = self.truth(c, cty)
            then = self.block(list(s.body) + ([] if self.ends_in_return(s.body) else rest), env, ret)
            if s.orelse:
                els = self.block(list(s.orelse) + ([] if self.ends_in_return(s.orelse) else rest), env, ret)
            else:
                els = self.block(rest, env, ret)
            return f"(if {c} then {then} else {els})"
        self.err(s, f"unsupported statement {type(s).__name__}")

    def ends_in_return(self, stmts):
        if not stmts:
            return False
        last = stmts[-1]
        if isinstance(last, ast.Return):
            return True
        if isinstance(last, ast.If) and last.orelse:
            return self.ends_in_return(last.body) and self.ends_in_return(last.orelse)
        return False

    def truth(self, t, ty):
        if ty == "bool":
            return t
        return f"(negb (Z.eqb {t} 0))"

    def coerce(self, t, ty, want, node):
        if ty == want:
            return t
        self.err(node, f"type mismatch: have {ty}, want {want}")

    def positive_divisor(self, e):
        if isinstance(e, ast.Constant) and isinstance(e.value, int) and e.value > 0:
            return True
        if isinstance(e, ast.Name) and e.id in self.consts and self.consts[e.id] > 0:
            return True
        return False

    def expr(self, e, env):
        if isinstance(e, ast.Constant):
            if isinstance(e.value, bool):
                return ("true" if e.value else "false"), "bool"
            if isinstance(e.value, int):
                return zlit(e.value), "Z"
            self.err(e, "unsupported literal")
        if isinstance(e, ast.Name):
            if e.id in env:
                return e.id, env[e.id]
            if e.id in self.consts:
                return self.rename.get(e.id, e.id), "Z"
            self.err(e, f"unknown name {e.id}")
        if isinstance(e, ast.UnaryOp):
            t, ty = self.expr(e.operand, env)
            if isinstance(e.op, ast.USub) and ty == "Z":
                return f"(- {t})", "Z"
            if isinstance(e.op, ast.Not):
                return f"(negb {self.truth(t, ty)})", "bool"
            if isinstance(e.op, ast.Invert) and ty == "Z":
                return f"(Z.lnot {t})", "Z"
            self.err(e, "unsupported unary op")
        if isinstance(e, ast.BinOp):
            a, ta = self.expr(e.left, env)
            b, tb = self.expr(e.right, env)
            if ta != "Z" or tb != "Z":
                self.err(e, "arithmetic on non-int")
            op = e.op
            simple = {ast.Add: "+", ast.Sub: "-", ast.Mult: "*"}
            for k, v in simple.items():
                if isinstance(op, k):
                    return f"({a} {v} {b})", "Z"
            if isinstance(op, (ast.FloorDiv, ast.Mod)):
                if not self.positive_divisor(e.right):
                    self.err(e, "divisor must be a positive literal or constant")
                f = "Z.div" if isinstance(op, ast.FloorDiv) else "Z.modulo"
                return f"({f} {a} {b})", "Z"
            fn = {ast.BitAnd: "Z.land", ast.BitOr: "Z.lor", ast.BitXor: "Z.lxor",
                  ast.LShift: "Z.shiftl", ast.RShift: "Z.shiftr"}
            for k, v in fn.items():
                if isinstance(op, k):
                    if isinstance(op, (ast.LShift, ast.RShift)):
                        if not (isinstance(e.right, ast.Constant) and isinstance(e.right.value, int) and e.right.value >= 0):
                            self.err(e, "shift amount must be a non-negative literal")
                    return f"({v} {a} {b})", "Z"
            self.err(e, "unsupported binary op")
        if isinstance(e, ast.BoolOp):
            parts = []
            for v in e.values:
                t, ty = self.expr(v, env)
                if ty != "bool":
                    # Python's and/or return operands; only accept bool operands
                    self.err(e, "and/or on non-bool operand")
                parts.append(t)
            f = "andb" if isinstance(e.op, ast.And) else "orb"
            out = parts[-1]
            for p in reversed(parts[:-1]):
                out = f"({f} {p} {out})"
            return out, "bool"
        if isinstance(e, ast.Compare):
            left, tl = self.expr(e.left, env)
            terms = []
            for op, right in zip(e.ops, e.comparators):
                r, tr = self.expr(right, env)
                if tl != "Z" or tr != "Z":
                    self.err(e, "comparison of non-int")
                if isinstance(op, ast.Lt):
                    terms.append(f"(Z.ltb {left} {r})")
                elif isinstance(op, ast.LtE):
                    terms.append(f"(Z.leb {left} {r})")
                elif isinstance(op, ast.Gt):
                    terms.append(f"(Z.ltb {r} {left})")
                elif isinstance(op, ast.GtE):
                    terms.append(f"(Z.leb {r} {left})")
                elif isinstance(op, ast.Eq):
                    terms.append(f"(Z.eqb {left} {r})")
                elif isinstance(op, ast.NotEq):
                    terms.append(f"(negb (Z.eqb {left} {r}))")
                else:
                    self.err(e, "unsupported comparison")
                left, tl = r, tr
            out = terms[-1]
            for p in reversed(terms[:-1]):
                out = f"(andb {p} {out})"
            return out, "bool"
        if isinstance(e, ast.IfExp):
            c, tc = self.expr(e.test, env)
            a, ta = self.expr(e.body, env)
            b, tb = self.expr(e.orelse, env)
            if ta != tb:
                self.err(e, "conditional branches differ in type")
            return f"(if {self.truth(c, tc)} then {a} else {b})", ta
        if isinstance(e, ast.Call) and isinstance(e.func, ast.Name) and not e.keywords:
            name = e.func.id
            args = [self.expr(a, env) for a in e.args]
            if name in ("min", "max") and len(args) == 2 and all(t == "Z" for _, t in args):
                return f"(Z.{name} {args[0][0]} {args[1][0]})", "Z"
            if name == "abs" and len(args) == 1 and args[0][1] == "Z":
                return f"(Z.abs {args[0][0]})", "Z"
            if name in self.known:
                cname, atys, rty = self.known[name]
                if [t for _, t in args] != atys:
                    self.err(e, f"argument types of {name}")
                return "(" + " ".join([cname] + [a for a, _ in args]) + ")", rty
            self.err(e, f"call to unknown function {name}")
        self.err(e, f"unsupported expression {type(e).__name__}")


HEADER = """(* GENERATED by harness/translate.py from {src} -- do not edit.
   Regenerated on every check run; the theorems are re-checked against it. *)
From Coq Require Import ZArith Bool List.
Import ListNotations.
Local Open Scope Z_scope.

"""


def gen_module(outname, relpath, consts, funcs, prefix=""):
    """Return text of Gen/<outname>.v"""
    mod = Module(relpath)
    env = {}
    out = [HEADER.format(src="src/aiortc/" + relpath)]
    rename = {}
    for c in consts:
        v = mod.const_value(c, env)
        rename[c] = prefix + c
        out.append(f"Definition {prefix}{c} : Z := {zlit(v)}.\n")
    out.append("\n")
    # constants referenced by functions but not exported are still available
    known = {}
    for f in funcs:
        if f not in mod.funcs:
            raise TranslateError(f"{relpath}: function {f} not found")
        fn = mod.funcs[f]
        # make every module-level int constant available to function bodies
        allc = dict(env)
        for n in ast.walk(fn):
            if isinstance(n, ast.Name) and n.id in mod.assigns and n.id not in allc:
                try:
                    allc[n.id] = mod.const_value(n.id, dict(env))
                    if n.id not in rename:
                        rename[n.id] = prefix + n.id
                        out.append(f"Definition {prefix}{n.id} : Z := {zlit(allc[n.id])}.\n")
                except TranslateError:
                    pass
        ft = FuncTranslator(mod, allc, known, rename)
        text, atys, rty = ft.translate(fn, prefix + f)
        known[f] = (prefix + f, atys, rty)
        out.append(text + "\n")
    return "".join(out), {"consts": dict(env), "funcs": list(funcs)}


SPECS = [
    # outname, source file, constants, functions
    ("Utils", "utils.py", [], ["uint16_add", "uint16_gt", "uint16_gte", "uint32_add", "uint32_gt", "uint32_gte"]),
    ("SctpConst", "rtcsctptransport.py",
     ["COOKIE_LENGTH", "MAX_STREAMS", "USERDATA_MAX_LENGTH", "SCTP_COMMON_HEADER_LENGTH", "SCTP_CHUNK_HEADER_LENGTH",
      "SCTP_PACKET_MINIMUM_LENGTH", "SCTP_DATA_LAST_FRAG", "SCTP_DATA_FIRST_FRAG", "SCTP_DATA_UNORDERED",
      "SCTP_MAX_ASSOCIATION_RETRANS", "SCTP_MAX_BURST", "SCTP_MAX_INIT_RETRANS", "SCTP_TSN_MODULO",
      "RECONFIG_MAX_STREAMS", "SCTP_STATE_COOKIE", "SCTP_STR_RESET_OUT_REQUEST", "SCTP_STR_RESET_RESPONSE",
      "SCTP_STR_RESET_ADD_OUT_STREAMS", "SCTP_SUPPORTED_CHUNK_EXT", "SCTP_PRSCTP_SUPPORTED",
      "DATA_CHANNEL_ACK", "DATA_CHANNEL_OPEN", "DATA_CHANNEL_RELIABLE", "DATA_CHANNEL_PARTIAL_RELIABLE_REXMIT",
      "DATA_CHANNEL_PARTIAL_RELIABLE_TIMED", "DATA_CHANNEL_RELIABLE_UNORDERED",
      "DATA_CHANNEL_PARTIAL_RELIABLE_REXMIT_UNORDERED", "DATA_CHANNEL_PARTIAL_RELIABLE_TIMED_UNORDERED",
      "WEBRTC_DCEP", "WEBRTC_STRING", "WEBRTC_BINARY", "WEBRTC_STRING_EMPTY", "WEBRTC_BINARY_EMPTY"],
     ["padl", "tsn_minus_one", "tsn_plus_one"]),
    ("RtpConst", "rtp.py",
     ["RTP_HISTORY_SIZE", "RTP_HEADER_LENGTH", "RTCP_HEADER_LENGTH", "PACKETS_LOST_MIN", "PACKETS_LOST_MAX",
      "RTCP_SR", "RTCP_RR", "RTCP_SDES", "RTCP_BYE", "RTCP_RTPFB", "RTCP_PSFB", "RTCP_RTPFB_NACK",
      "RTCP_PSFB_PLI", "RTCP_PSFB_SLI", "RTCP_PSFB_RPSI", "RTCP_PSFB_FIR", "RTCP_PSFB_APP"],
     ["clamp_packets_lost", "padl"]),
    ("JbConst", "jitterbuffer.py", ["MAX_MISORDER"], []),
    ("H264Const", "codecs/h264.py",
     ["PACKET_MAX", "NAL_TYPE_FU_A", "NAL_TYPE_STAP_A", "NAL_HEADER_SIZE", "FU_A_HEADER_SIZE", "LENGTH_FIELD_SIZE",
      "STAP_A_HEADER_SIZE"], []),
    ("VpxConst", "codecs/vpx.py", ["PACKET_MAX"], []),
]

# name prefixes to avoid clashes between Gen modules that define the same name
PREFIX = {"RtpConst": "rtp_", "VpxConst": "vpx_", "H264Const": "h264_"}


def write_if_changed(path, text):
    old = None
    if os.path.exists(path):
        with open(path, "r", encoding="utf8") as fp:
            old = fp.read()
    if old != text:
        with open(path, "w", encoding="utf8") as fp:
            fp.write(text)
        return True
    return False


def extra_generators():
    """Additional table extractors (each fail-closed) registered by other modules."""
    out = []
    try:
        from harness import translate_tables  # type: ignore
    except Exception:
        try:
            import translate_tables  # type: ignore
        except ImportError:
            return out
    return translate_tables.generate()


def run():
    """Regenerate coq/Gen. Returns dict {file: {sha256, changed}} ; raises TranslateError."""
    os.makedirs(GEN_DIR, exist_ok=True)
    result = {}
    texts = []
    for outname, rel, consts, funcs in SPECS:
        text, meta = gen_module(outname, rel, consts, funcs, PREFIX.get(outname, ""))
        texts.append((outname, text))
    for outname, text in extra_generators():
        texts.append((outname, text))
    for outname, text in texts:
        path = os.path.join(GEN_DIR, outname + ".v")
        changed = write_if_changed(path, text)
        result["Gen/" + outname + ".v"] = {
            "sha256": hashlib.sha256(text.encode()).hexdigest()[:16],
            "changed": changed,
        }
    return result


if __name__ == "__main__":
    try:
        r = run()
    except TranslateError as exc:
        print("TRANSLATE-ERROR:", exc)
        sys.exit(2)
    for k, v in r.items():
        print(k, v)
