"""Scripted two-endpoint scenarios on the real RTCSctpTransport (see sim/sctp.py).

A case is {"k": 1, "tsn": [client_tsn, server_tsn], "ops": [...], "heal": bool}; ops are int lists:
  [0, ep, kind, label_id]      create a channel (kind indexes CHANNEL_KINDS)
  [1, ep, chan, typ, size]     send on channel #chan of endpoint ep (typ 0 bytes / 1 str); payload is unique
  [2, dst, idx]                deliver datagram idx of the queue travelling to dst
  [3, dst, idx]                drop it
  [4, dst, idx]                deliver a duplicate (datagram stays queued)
  [5, ep]                      fire the earliest timer of endpoint ep (virtual time jumps there)
  [6, ep, chan]                close channel
  [7, ms]                      advance the virtual clock by ms milliseconds
  [8, ep, chan, threshold]     set bufferedAmountLowThreshold
  [13, dst, k]                 deliver a long-delayed duplicate of the k-th datagram ever sent towards dst
  [15, kind, id]               create a negotiated channel with stream id `id` on BOTH endpoints (no DCEP)
  [16, ep, chan, thr, n, size] flow control as in examples/datachannel-filexfer: bufferedAmountLowThreshold = thr and a
                               'bufferedamountlow' handler that sends two more messages per event (n messages in all)
  [12]                         fault-free interlude with timers (everything outstanding is delivered and acknowledged)
  a channel index < 0 counts from the newest channel of that endpoint (-1 = newest)
  [9]                          fault-free interlude: deliver everything in flight FIFO (no timers)
The run ends with an optional healing phase (fault-free delivery, timers when idle).
Returns a JSON-able observation dict used by the oracles of C01, C02, C06, C13, C17.
"""
from . import sctp as M

# (ordered, maxRetransmits, maxPacketLifeTime)
CHANNEL_KINDS = [
    (True, None, None),     # 0 reliable ordered
    (False, None, None),    # 1 reliable unordered
    (True, 0, None),        # 2 PR rexmit 0 ordered
    (False, 0, None),       # 3 PR rexmit 0 unordered
    (True, 2, None),        # 4 PR rexmit 2 ordered
    (True, None, 500),      # 5 PR timed ordered
    (False, None, 500),     # 6 PR timed unordered
]

RANK = {"connecting": 0, "open": 1, "closing": 2, "closed": 3}

LABELS = ["chat", "", "héllo✓", "数据通道", "a" * 40, "\U0001F600x"]


def complete_unordered_waiting(transport):
    """stream ids whose reassembly queue holds a COMPLETE unordered message (B .. E with consecutive TSNs) that has not
    been handed to the application: InboundStream.pop_messages skipped it because it followed an incomplete run of
    fragments, and nothing looked at the queue again after those fragments were pruned (a defect of pop_messages repaired
    in /repo; the oracles of C05 / C06 name it should it come back)"""
    out = []
    for sid, st in transport._inbound_streams.items():
        chunks = list(st.reassembly)
        for i, c in enumerate(chunks):
            if (c.flags & 2) and (c.flags & 4):          # first fragment, unordered
                t = c.tsn
                for d in chunks[i:]:
                    if d.tsn != t:
                        break
                    if d.flags & 1:
                        out.append(sid)
                        break
                    t = (t + 1) & 0xFFFFFFFF
                if sid in out:
                    break
    return out


def _payload(counter, typ, size):
    """unique, self-describing payload"""
    head = ("%06d:" % counter)
    if typ == 1:
        if size == 0:
            return ""
        body = (head + "é" * size)[: max(size, 7)] if size < 64 else head + "s" * (size - len(head))
        return body
    if size == 0:
        return b""
    body = head.encode() + bytes((counter + i) % 251 for i in range(max(0, size - len(head))))
    return body


async def _run(case):
    tsn = case["tsn"]
    sim = M.Sim([1111, tsn[0], 2222, tsn[1]])
    obs = {"steps": 0}
    snapshots = []
    dropped_types = []
    stopped = []
    closed_ops = []
    probes = []
    healed_mid = []
    flags = {"reset_overtook_data": False, "reset_hit_reused_id": False, "reconfig_discarded": False,
             "reset_overtook_own_data": False}
    freed = {0: set(), 1: set()}
    ranks = {0: {}, 1: {}}
    try:
        await sim.start()
        pre_ops = case.get("pre", [])
        chan_meta = {0: [], 1: []}

        def note_reset(dst, data):
            """RFC 6525: a stream reset request must wait until all DATA up to its last_tsn has arrived;
            aiortc processes it at once (K9); ids are reused before both directions are reset (K10)."""
            try:
                from aiortc import rtcsctptransport as S
                for ch in S.parse_packet(data)[3]:
                    if isinstance(ch, S.ReconfigChunk):
                        if sim.eps[dst]._association_state != S.RTCSctpTransport.State.ESTABLISHED:
                            # the receiver is not established yet (e.g. its COOKIE ACK was lost) and discards the
                            # RE-CONFIG; as it is never retransmitted (K4) this is a lost RE-CONFIG
                            flags["reconfig_discarded"] = True
                        for ptype, pdata in ch.params:
                            if ptype == 13:
                                prm = S.StreamResetOutgoingParam.parse(pdata)
                                last = sim.eps[dst]._last_received_tsn
                                if last is not None and S.uint32_gt(prm.last_tsn, last):
                                    flags["reset_overtook_data"] = True
                                    # ... and DATA of the very streams being reset is among what has been overtaken
                                    snd_ep = sim.eps[1 - dst]
                                    have = set(sim.eps[dst]._sack_misordered)
                                    for c in list(snd_ep._sent_queue) + list(snd_ep._outbound_queue):
                                        if c.stream_id in prm.streams and S.uint32_gt(c.tsn, last) and c.tsn not in have \
                                                and not S.uint32_gt(c.tsn, prm.last_tsn):
                                            flags["reset_overtook_own_data"] = True
                                for sid in prm.streams:
                                    cur = sim.eps[dst]._data_channels.get(sid)
                                    if sid in freed[dst] and cur is not None and cur.readyState != "closing":
                                        flags["reset_hit_reused_id"] = True
            except Exception:
                pass

        sim.pre_deliver = note_reset

        def chan_index(ep, i):
            return i if i >= 0 else len(sim.channels[ep]) + i

        async def do(op):
            t = op[0]
            if t in (1, 6, 8, 16) and op[2] < 0:
                op = op[:2] + [chan_index(op[1], op[2])] + op[3:]
                if op[2] < 0:
                    return
            if t == 0:
                kind = CHANNEL_KINDS[op[2] % len(CHANNEL_KINDS)]
                label = LABELS[op[3] % len(LABELS)] if len(op) > 3 else "c"
                proto = LABELS[(op[3] // 7) % len(LABELS)] if len(op) > 3 else ""
                idx = sim.create_channel(op[1], label=label, protocol=proto, ordered=kind[0],
                                         maxRetransmits=kind[1], maxPacketLifeTime=kind[2])
                if idx is not None:
                    chan_meta[op[1]].append({"kind": op[2] % len(CHANNEL_KINDS), "label": label, "protocol": proto,
                                             "local": True})
                await sim.drain()
            elif t == 1:
                if op[2] < len(sim.channels[op[1]]):
                    obs["steps"] += 1
                    counter = len(sim.sends) + 1
                    v = _payload(counter + 1000 * op[1], op[3], op[4])
                    sim.send(op[1], op[2], v)
                    await sim.drain()
            elif t == 14:
                # a burst: several send() calls (usually on different channels) before the event loop runs once, so that
                # one _data_channel_flush handles all of them
                for idx, typ, size in op[2]:
                    if idx < len(sim.channels[op[1]]):
                        obs["steps"] += 1
                        counter = len(sim.sends) + 1
                        sim.send(op[1], idx, _payload(counter + 1000 * op[1], typ, size))
                await sim.drain()
            elif t == 2:
                await sim.deliver(op[1], op[2])
            elif t == 3:
                q = sim.queues[op[1]]
                if q:
                    data = q[op[2] % len(q)]
                    try:
                        from aiortc.rtcsctptransport import parse_packet
                        for ch in parse_packet(data)[3]:
                            dropped_types.append(type(ch).__name__)
                    except Exception:
                        dropped_types.append("unparsable")
                sim.drop(op[1], op[2])
            elif t == 4:
                await sim.deliver(op[1], op[2], keep=True)
            elif t == 5:
                await sim.fire_timer(op[1])
            elif t == 6:
                if op[2] < len(sim.channels[op[1]]):
                    closed_ops.append([op[1], op[2]])
                    sim.close_channel(op[1], op[2])
                    await sim.drain()
            elif t == 7:
                sim.now += op[1] / 1000.0
            elif t == 8:
                if op[2] < len(sim.channels[op[1]]):
                    try:
                        sim.channels[op[1]][op[2]].bufferedAmountLowThreshold = op[3]
                    except ValueError:
                        pass
            elif t == 15:
                kind = CHANNEL_KINDS[op[1] % len(CHANNEL_KINDS)]
                # an application re-uses an id only after the 'close' events of its previous owner on both ends
                busy = any(op[2] in sim.eps[e]._data_channels for e in (0, 1))
                for ep_ in (() if busy else (0, 1)):
                    idx = sim.create_channel(ep_, label="n%d" % op[2], ordered=kind[0], maxRetransmits=kind[1],
                                             maxPacketLifeTime=kind[2], negotiated=True, id=op[2])
                    if idx is not None:
                        chan_meta[ep_].append({"kind": op[1] % len(CHANNEL_KINDS), "label": "n%d" % op[2], "protocol": "",
                                               "local": True, "negotiated": True})
                await sim.drain()
            elif t == 16:
                if op[2] < len(sim.channels[op[1]]):
                    ch = sim.channels[op[1]][op[2]]
                    try:
                        ch.bufferedAmountLowThreshold = op[3]
                    except ValueError:
                        pass
                    budget = [op[4]]

                    def refill(ep=op[1], ci=op[2], ch=ch, size=op[5], budget=budget):
                        for _ in range(2):
                            if budget[0] <= 0 or ch.readyState != "open":
                                break
                            budget[0] -= 1
                            counter = len(sim.sends) + 1
                            if not sim.send(ep, ci, _payload(counter + 1000 * ep, 0, size)):
                                break
                    ch.on("bufferedamountlow", refill)
            elif t == 13:
                # a long-delayed duplicate: deliver a copy of the k-th datagram ever sent towards op[1]
                log = sim.sent_log[1 - op[1]]
                if log:
                    await sim.inject(op[1], log[op[2] % len(log)])
            elif t == 11:
                # probe: one small unique message on every open channel, both directions
                for ep_ in (0, 1):
                    for i_, ch_ in enumerate(sim.channels[ep_]):
                        if ch_.readyState == "open":
                            counter = len(sim.sends) + 1
                            v = ("probe-%06d" % (counter + 1000 * ep_)).encode()
                            if sim.send(ep_, i_, v):
                                probes.append([ep_, i_, ["b", v.hex()]])
                await sim.drain()
            elif t == 12:
                healed_mid.append(await sim.heal())
            elif t == 10:
                await sim.guard(op[1], sim.eps[op[1]].stop())
                await sim.drain()
                stopped.append(op[1])
            elif t == 9:
                for _ in range(50):
                    if not sim.in_flight():
                        break
                    for dst in (0, 1):
                        while sim.queues[dst]:
                            await sim.deliver(dst, 0)
            # invariants sampled after every step (C13: bufferedAmount, forward-only states)
            for ep in (0, 1):
                tr = sim.eps[ep]
                for i, ch in enumerate(sim.channels[ep]):
                    rk = RANK[ch.readyState]
                    hist = ranks[ep].setdefault(i, [])
                    if not hist or hist[-1] != rk:
                        hist.append(rk)
                    queued = sum(len(d) for c, p, d in tr._data_channel_queue if c is ch and p != 50)
                    if ch.readyState != "closed" and ch.bufferedAmount != queued:
                        snapshots.append(("bufferedAmount", ep, i, ch.bufferedAmount, queued))
                    if ch.bufferedAmount < 0:
                        snapshots.append(("negative", ep, i, ch.bufferedAmount, queued))

        # remember which stream ids an endpoint released (K10 detection)
        for ep_ in (0, 1):
            orig_closed = sim.eps[ep_]._data_channel_closed

            def closed_hook(stream_id, ep_=ep_, orig_closed=orig_closed):
                freed[ep_].add(stream_id)
                return orig_closed(stream_id)
            sim.eps[ep_]._data_channel_closed = closed_hook
        if case.get("handshake", True):
            await M.handshake(sim)
        for op in case["ops"]:
            await do(op)
        healed = None
        assoc_before_heal = [t._association_state.name for t in sim.eps]
        t1_failures_before_heal = [t._t1_failures for t in sim.eps]
        if case.get("heal", True):
            healed = await sim.heal()
        # observations
        chans = {0: [], 1: []}
        for ep in (0, 1):
            for i, ch in enumerate(sim.channels[ep]):
                chans[ep].append({
                    "id": ch.id, "label": ch.label, "protocol": ch.protocol, "ordered": ch.ordered,
                    "maxRetransmits": ch.maxRetransmits, "maxPacketLifeTime": ch.maxPacketLifeTime,
                    "state": ch.readyState, "buffered": ch.bufferedAmount, "negotiated": bool(ch.negotiated),
                    "registered": ch.id is not None and sim.eps[ep]._data_channels.get(ch.id) is ch,
                })

        def enc(m):
            if m is None:
                return None
            if isinstance(m, str):
                return ["s", m]
            if isinstance(m, (bytes, bytearray)):
                return ["b", bytes(m).hex()]
            return ["o", repr(m)]

        obs.update({
            "established": M.established(sim),
            "healed_rounds": healed,
            "quiescent": sim.quiescent(),
            "errors": sim.errors,
            "channels": chans,
            "events": [[ep, kind, key, enc(m) if kind == "message" else (list(m) if m else None)]
                       for ep, kind, key, m in sim.events],
            "sends": [[ep, idx, enc(v)] for ep, idx, v in sim.sends],
            "flight": [sim.eps[0]._flight_size, sim.eps[1]._flight_size],
            "sent_queue": [len(sim.eps[0]._sent_queue), len(sim.eps[1]._sent_queue)],
            "outbound_queue": [len(sim.eps[0]._outbound_queue), len(sim.eps[1]._outbound_queue)],
            "dc_queue": [len(sim.eps[0]._data_channel_queue), len(sim.eps[1]._data_channel_queue)],
            "assoc": [sim.eps[0]._association_state.name, sim.eps[1]._association_state.name],
            "assoc_before_heal": assoc_before_heal,
            "t1_failures_before_heal": t1_failures_before_heal,
            "state": [sim.eps[0].state, sim.eps[1].state],
            "snapshots": snapshots[:5],
            "datagrams": [len(sim.sent_log[0]), len(sim.sent_log[1])],
            "retransmissions": [sum(1 for c in sim.eps[e]._sent_queue if c._sent_count > 1) for e in (0, 1)],
            "last_rx": [sim.eps[0]._last_received_tsn, sim.eps[1]._last_received_tsn],
            "dropped_types": dropped_types,
            "stopped": stopped,
            "closed_ops": closed_ops,
            "probes": probes,
            "healed_mid": healed_mid,
            "reset_overtook_data": flags["reset_overtook_data"],
            "reset_overtook_own_data": flags["reset_overtook_own_data"],
            "reset_hit_reused_id": flags["reset_hit_reused_id"],
            "reconfig_discarded": flags["reconfig_discarded"],
            "ranks": [[ranks[ep].get(i, []) for i in range(len(sim.channels[ep]))] for ep in (0, 1)],
            "reconfig_pending": [bool(sim.eps[e]._reconfig_request) or bool(sim.eps[e]._reconfig_queue) for e in (0, 1)],
            # receive-side state per stream id (expected stream sequence number, chunks waiting for reassembly) and
            # the ids a data channel is registered under
            "inbound": [[[sid, st.sequence_number, len(st.reassembly)] for sid, st in sim.eps[e]._inbound_streams.items()]
                        for e in (0, 1)],
            "registered": [sorted(sim.eps[e]._data_channels.keys()) for e in (0, 1)],
            "complete_unordered_waiting": [complete_unordered_waiting(sim.eps[e]) for e in (0, 1)],
        })
    finally:
        await sim.stop()
    obs["final_states"] = [[ch.readyState for ch in sim.channels[ep]] for ep in (0, 1)]
    obs["errors"] = sim.errors
    return obs


def run_scenario(case):
    return M.run(_run(case))


# ------------------------------------------------------------------ generators
def gen_scenario(rng, reliable_only=False, pr=False, origins=None, nops=None, big=False):
    origins = origins or [7, 0xFFFFFFF0, 0x7FFFFFF0, 0xFFFFFF00, 0, 0xFFFFFFFF]
    tsn = [rng.choice(origins), rng.choice(origins)]
    ops = []
    early = rng.random() < 0.25      # faults already during association set-up (duplicated INIT / COOKIE-ECHO ...)
    if early:
        for _ in range(rng.randrange(4, 12)):
            # deliveries and duplications, and now and then the loss of a handshake datagram (INIT, INIT-ACK,
            # COOKIE-ECHO or COOKIE-ACK): the T1 timer must recover from it
            ops.append(rng.choice([[2, 0, 0], [2, 1, 0], [4, 0, 0], [4, 1, 0], [2, 1, 1], [4, 1, 1], [2, 0, 0], [2, 1, 0],
                                   [3, 0, 0], [3, 1, 0]]))
    nchan = rng.randrange(1, 4)
    kinds = [0, 1] if reliable_only else ([0, 1, 2, 3, 4, 5, 6] if pr else [0, 1, 0, 1, 2, 4])
    chans = {0: 0, 1: 0}
    for _ in range(nchan):
        ep = rng.randrange(2)
        ops.append([0, ep, rng.choice(kinds), rng.randrange(40)])
        chans[ep] += 1
    ops.append([9])
    n = nops or rng.randrange(8, 70)
    sizes = [0, 1, 10, 100, 1199, 1200, 1201, 2400, 3000, 5000] + ([20000, 40000] if big else [9000])
    for _ in range(n):
        k = rng.random()
        if k < 0.30:
            ep = rng.randrange(2)
            tot = chans[0] + chans[1]
            ops.append([1, ep, rng.randrange(max(1, tot)), rng.randrange(2), rng.choice(sizes)])
        elif k < 0.45:
            ops.append([3, rng.randrange(2), rng.randrange(8)])
        elif k < 0.52:
            ops.append([4, rng.randrange(2), rng.randrange(8)])
        elif k < 0.85:
            ops.append([2, rng.randrange(2), rng.choice([0, 0, 0, 1, 2, 5])])
        elif k < 0.95:
            ops.append([5, rng.randrange(2)])
        elif k < 0.965:
            ops.append([13, rng.randrange(2), rng.choice([0, 0, 1, 2, 3, rng.randrange(40)])])
        elif k < 0.985 and chans[0] + chans[1] > 1:
            tot = chans[0] + chans[1]
            ops.append([14, rng.randrange(2), [[rng.randrange(tot), rng.randrange(2), rng.choice([1, 10, 100, 1200, 2400])]
                                               for _ in range(rng.randrange(2, 6))]])
        elif k < 0.992:
            ops.append([7, rng.choice([100, 600, 3000])])
        else:
            ops.append([9])
    case = {"k": 1, "tsn": tsn, "ops": ops, "heal": True}
    if early:
        case["handshake"] = False
    return case


def gen_recycle(rng, origins=None, stale=False):
    """a stream id used by several channels one after the other (closed by either side, re-created as a DCEP-opened or
    a negotiated channel), traffic with loss / duplication / reordering on every incarnation; now and then the
    sender refills from a 'bufferedamountlow' handler"""
    origins = origins or [7, 0xFFFFFFF0, 0x7FFFFFF0, 0, 0xFFFFFFFF]
    tsn = [rng.choice(origins), rng.choice(origins)]
    negotiated = rng.random() < 0.5
    kind = rng.choice([0, 0, 0, 1])
    creator = rng.randrange(2)
    sid = rng.choice([0, 1, 2, 3, 7, 20])
    ops = []
    rounds = rng.randrange(2, 4)
    sizes = [1, 10, 100, 1200, 2400, 5000]
    if stale:
        # a second channel that stays open and carries bulk data: messages sent on the short-lived channel right
        # before its close() wait behind it in the data-channel queue while the stream reset goes out at once
        bulk_ep = rng.randrange(2)
        ops += [[0, bulk_ep, 0, 7], [9]]
    for r in range(rounds):
        ops.append([15, kind, sid] if negotiated else [0, creator, kind, rng.randrange(40)])
        ops.append([9])
        if rng.random() < 0.35:
            # a burst larger than the congestion window, refilled from the event handler
            ep = rng.randrange(2)
            ops.append([16, ep, -1, rng.choice([1, 1000, 4000]), rng.randrange(1, 8), rng.choice([100, 1200, 3000])])
            for _ in range(rng.randrange(2, 6)):
                ops.append([1, ep, -1, 0, rng.choice([1200, 3000, 6000])])
        for _ in range(rng.randrange(2, 14)):
            k = rng.random()
            if k < 0.45:
                ops.append([1, rng.randrange(2), -1, rng.randrange(2), rng.choice(sizes)])
            elif k < 0.57:
                ops.append([3, rng.randrange(2), rng.randrange(4)])
            elif k < 0.65:
                ops.append([4, rng.randrange(2), rng.randrange(4)])
            elif k < 0.92:
                ops.append([2, rng.randrange(2), rng.choice([0, 0, 1, 1, 2, 3])])
            else:
                ops.append([5, rng.randrange(2)])
        if r < rounds - 1 and stale:
            ops.append([12])
            ops.append([1, bulk_ep, 0, 0, rng.choice([30000, 60000])])
            for _ in range(rng.randrange(1, 4)):
                ops.append([1, bulk_ep, -1, rng.randrange(2), rng.choice([1, 10, 100])])
            ops.append([6, rng.choice([bulk_ep, bulk_ep, 1 - bulk_ep]), -1])
            for _ in range(rng.randrange(8, 16)):
                ops += [[2, 1, 0], [2, 0, 0]]
        elif r < rounds - 1:
            ops.append([12])
            ops.append([6, rng.randrange(2), -1])
            ops.append([12])
    return {"k": 1, "tsn": tsn, "ops": ops, "heal": True, "recycle": True}


# ------------------------------------------------------------------ shared oracle helpers
def pair_channels(obs):
    """Map (ep, stream id) -> (index on ep, index on 1-ep).  Stream ids are recycled: the n-th channel that used an
    id on one side is paired with the n-th on the other side (only when both sides saw equally many)."""
    out = []
    by_id = {0: {}, 1: {}}
    for ep in (0, 1):
        for i, ch in enumerate(obs["channels"][ep]):
            if ch["id"] is not None:
                by_id[ep].setdefault(ch["id"], []).append(i)
    for ep in (0, 1):
        for sid, mine in by_id[ep].items():
            theirs = by_id[1 - ep].get(sid, [])
            if len(mine) != len(theirs):
                continue
            for i, j in zip(mine, theirs):
                out.append((ep, i, j, obs["channels"][ep][i]))
    return out


def delivered_on(obs, ep, idx):
    return [m for e, kind, key, m in obs["events"] if e == ep and kind == "message" and key == idx]


def sent_on(obs, ep, idx):
    return [v for e, i, v in obs["sends"] if e == ep and i == idx]


def is_subsequence(a, b):
    it = iter(b)
    return all(any(x == y for y in it) for x in a)
