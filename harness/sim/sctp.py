"""Deterministic two-endpoint SCTP simulator over the REAL RTCSctpTransport.

Two real transports are joined by a scripted network: every datagram an endpoint
sends lands in a per-direction list; a *schedule* (list of small int tuples)
decides which datagram is delivered, dropped or duplicated next, which timer
fires, and which application operations happen.  Time is virtual
(`rtcsctptransport.time` and each transport's `_loop.call_later` are replaced),
`random32` values are taken from the case, so a run is a pure function of the
case.  Used as implementation-level oracle for C01, C02, C06, C13, C17 and as
the recorder for the endpoint correspondence.
"""
import asyncio
import types

from aiortc import rtcsctptransport as S
from aiortc.rtcdatachannel import RTCDataChannel, RTCDataChannelParameters


class _Ice:
    def __init__(self, role):
        self.role = role


class _Dtls:
    def __init__(self, sim, side):
        self.sim = sim
        self.side = side
        self.state = "connected"
        self.transport = _Ice("controlling" if side == 0 else "controlled")

    async def _send_data(self, data):
        self.sim.on_send(self.side, bytes(data))

    def _register_data_receiver(self, r):
        pass

    def _unregister_data_receiver(self, r):
        pass


class _Handle:
    def __init__(self, sim, when, ep, cb, args, kind):
        self.sim, self.when, self.ep, self.cb, self.args, self.kind = sim, when, ep, cb, args, kind
        self.cancelled = False
        self.seq = sim.timer_seq
        sim.timer_seq += 1

    def cancel(self):
        self.cancelled = True


class _Loop:
    def __init__(self, sim, ep):
        self.sim, self.ep = sim, ep

    def call_later(self, delay, cb, *args):
        name = getattr(cb, "__name__", "")
        kind = {"_t1_expired": 1, "_t2_expired": 2, "_t3_expired": 3}.get(name, 0)
        h = _Handle(self.sim, self.sim.now + delay, self.ep, cb, args, kind)
        self.sim.timers.append(h)
        return h


class Sim:
    """endpoint 0 = client (controlling), endpoint 1 = server."""

    def __init__(self, randoms, trace=False):
        self.now = 1000.0
        self.timers = []
        self.timer_seq = 0
        self.queues = {0: [], 1: []}     # datagrams travelling TO endpoint i
        self.randoms = list(randoms)
        self.sent_log = {0: [], 1: []}   # every datagram endpoint i sent
        self.events = []                 # (ep, kind, channel_key, payload)
        self.channels = {0: [], 1: []}   # RTCDataChannel objects known on each side (creation order)
        self.sends = []                  # (ep, channel index, value) accepted by send()
        self.errors = []                 # exceptions escaping handlers
        self.trace = trace
        self.io_log = {0: [], 1: []}     # per endpoint: inputs/outputs for the model correspondence
        self.eps = []
        self.pre_deliver = None          # optional observer called with (dst, datagram) before delivery

    # ---- plumbing
    def _patch(self):
        self._old_time = S.time
        self._old_random32 = S.random32
        fake_time = types.SimpleNamespace(time=lambda: self.now)
        S.time = fake_time
        it = iter(self.randoms)

        def r32():
            try:
                return next(it) & 0xFFFFFFFF
            except StopIteration:
                return 12345

        S.random32 = r32

    def _unpatch(self):
        S.time = self._old_time
        S.random32 = self._old_random32

    def on_send(self, side, data):
        self.sent_log[side].append(data)
        self.queues[1 - side].append(data)
        self.io_log[side].append(("out", data))

    async def drain(self):
        cur = asyncio.current_task()
        for _ in range(10000):
            pending = [t for t in asyncio.all_tasks() if t is not cur and not t.done()]
            if not pending:
                return
            await asyncio.sleep(0)
        raise RuntimeError("drain did not converge")

    def _watch_channel(self, ep, ch, idx):
        key = idx

        @ch.on("message")
        def on_message(m, ep=ep, key=key):
            self.events.append((ep, "message", key, m))

        @ch.on("open")
        def on_open(ep=ep, key=key):
            self.events.append((ep, "open", key, None))

        @ch.on("close")
        def on_close(ep=ep, key=key):
            self.events.append((ep, "close", key, None))

        @ch.on("bufferedamountlow")
        def on_low(ep=ep, key=key):
            self.events.append((ep, "bufferedamountlow", key, None))

    async def start(self, start_server=True, start_client=True):
        self._patch()
        for side in (0, 1):
            t = S.RTCSctpTransport(_Dtls(self, side), port=5000)
            t._loop = _Loop(self, side)
            self.eps.append(t)

            @t.on("datachannel")
            def on_dc(ch, side=side):
                idx = len(self.channels[side])
                self.channels[side].append(ch)
                self._watch_channel(side, ch, idx)
                self.events.append((side, "datachannel", idx, (ch.id, ch.label, ch.protocol, ch.ordered,
                                                               ch.maxRetransmits, ch.maxPacketLifeTime)))
        caps = S.RTCSctpCapabilities(maxMessageSize=65536)
        if start_server:
            await self.guard(1, self.eps[1].start(caps, 5000))
        if start_client:
            await self.guard(0, self.eps[0].start(caps, 5000))
        await self.drain()

    async def guard(self, ep, coro):
        try:
            return await coro
        except Exception as exc:  # noqa
            self.errors.append((ep, type(exc).__name__, str(exc)[:200]))
            return None

    async def stop(self):
        try:
            for t in self.eps:
                try:
                    await t.stop()
                except Exception as exc:  # noqa
                    self.errors.append((-1, type(exc).__name__, str(exc)[:200]))
            await self.drain()
        finally:
            self._unpatch()

    # ---- actions
    def live_timers(self, ep=None):
        return sorted((h for h in self.timers if not h.cancelled and (ep is None or h.ep == ep)),
                      key=lambda h: (h.when, h.seq))

    async def fire_timer(self, ep=None):
        live = self.live_timers(ep)
        self.timers = [h for h in self.timers if not h.cancelled]
        if not live:
            return False
        h = live[0]
        self.timers.remove(h)
        if h.when > self.now:
            self.now = h.when
        h.cancelled = True
        self.io_log[h.ep].append(("timer", h.kind))
        try:
            h.cb(*h.args)
        except Exception as exc:  # noqa
            self.errors.append((h.ep, type(exc).__name__, str(exc)[:200]))
        await self.drain()
        return True

    async def deliver(self, dst, idx, keep=False):
        q = self.queues[dst]
        if not q:
            return False
        idx %= len(q)
        data = q[idx] if keep else q.pop(idx)
        if self.pre_deliver is not None:
            self.pre_deliver(dst, data)
        self.io_log[dst].append(("in", data))
        await self.guard(dst, self.eps[dst]._handle_data(data))
        await self.drain()
        return True

    def drop(self, dst, idx):
        q = self.queues[dst]
        if not q:
            return False
        q.pop(idx % len(q))
        return True

    async def inject(self, dst, data):
        """hand an arbitrary datagram to endpoint dst (C05)"""
        self.io_log[dst].append(("in", data))
        await self.guard(dst, self.eps[dst]._handle_data(data))
        await self.drain()

    def create_channel(self, ep, label="chat", protocol="", ordered=True, maxRetransmits=None,
                       maxPacketLifeTime=None, negotiated=False, id=None):
        params = RTCDataChannelParameters(label=label, protocol=protocol, ordered=ordered,
                                          maxRetransmits=maxRetransmits, maxPacketLifeTime=maxPacketLifeTime,
                                          negotiated=negotiated, id=id)
        try:
            ch = RTCDataChannel(self.eps[ep], params)
        except Exception as exc:  # noqa
            self.errors.append((ep, "create:" + type(exc).__name__, str(exc)[:200]))
            return None
        idx = len(self.channels[ep])
        self.channels[ep].append(ch)
        self._watch_channel(ep, ch, idx)
        return idx

    def send(self, ep, idx, value):
        from aiortc.exceptions import InvalidStateError
        ch = self.channels[ep][idx]
        try:
            ch.send(value)
        except InvalidStateError:
            return False
        except Exception as exc:  # noqa
            self.errors.append((ep, "send:" + type(exc).__name__, str(exc)[:200]))
            return False
        self.sends.append((ep, idx, value))
        return True

    def close_channel(self, ep, idx):
        try:
            self.channels[ep][idx].close()
        except Exception as exc:  # noqa
            self.errors.append((ep, "close:" + type(exc).__name__, str(exc)[:200]))

    def in_flight(self):
        return len(self.queues[0]) + len(self.queues[1])

    def quiescent(self):
        for t in self.eps:
            if t._sent_queue or t._outbound_queue or t._data_channel_queue:
                return False
            if t._forward_tsn_chunk is not None or t._reconfig_queue or t._reconfig_request:
                return False
        return self.in_flight() == 0

    async def heal(self, max_rounds=400):
        """Fault-free suffix: deliver everything FIFO; when nothing is in flight fire the earliest timer.
        Returns number of rounds used, or None if not quiescent after max_rounds."""
        for rnd in range(max_rounds):
            moved = False
            while self.in_flight():
                for dst in (0, 1):
                    while self.queues[dst]:
                        await self.deliver(dst, 0)
                        moved = True
            if self.quiescent():
                return rnd
            if not moved:
                fired = await self.fire_timer()
                if not fired:
                    return None
        return None


def established(sim):
    return all(t._association_state == S.RTCSctpTransport.State.ESTABLISHED for t in sim.eps)


async def handshake(sim):
    """Fault-free association set-up."""
    for _ in range(20):
        if established(sim):
            return True
        moved = False
        for dst in (0, 1):
            while sim.queues[dst]:
                await sim.deliver(dst, 0)
                moved = True
        if not moved:
            break
    return established(sim)


def run(coro):
    loop = asyncio.new_event_loop()
    try:
        asyncio.set_event_loop(loop)
        return loop.run_until_complete(coro)
    finally:
        try:
            loop.run_until_complete(loop.shutdown_asyncgens())
        finally:
            asyncio.set_event_loop(None)
            loop.close()
