"""Table extractors (fail-closed) for harness/translate.py.

Each extractor reads the Python `ast` of one source file under translate.REPO_SRC,
insists on one fixed statement shape and returns Coq definitions.  Any deviation
from the expected shape raises translate.TranslateError, which makes the check
treat the regeneration tie as broken.

Layout: one function per table; `generate()` is a plain concatenation of
(outname, coq_text) pairs.  To add a table: write `def <name>_tables() ->
list[(outname, text)]` and append its call to `generate()`.
"""
import ast
import os
import sys

try:                                    # the framework imports `translate` as a top-level module
    import translate as _tr
except ImportError:                     # pragma: no cover - used when imported as harness.translate_tables
    from harness import translate as _tr
_tr = sys.modules.get("translate", _tr)

TranslateError = _tr.TranslateError


# --------------------------------------------------------------------------- helpers
def _parse(relpath):
    path = os.path.join(_tr.REPO_SRC, relpath)
    try:
        with open(path, "r", encoding="utf8") as fp:
            src = fp.read()
        return ast.parse(src, filename=path)
    except (OSError, SyntaxError) as exc:
        raise TranslateError(f"{relpath}: cannot parse: {exc}")


def _fail(relpath, node, msg):
    raise TranslateError(f"{relpath}:{getattr(node, 'lineno', '?')}: {msg}")


def _find_class(tree, relpath, name):
    found = [n for n in tree.body if isinstance(n, ast.ClassDef) and n.name == name]
    if len(found) != 1:
        raise TranslateError(f"{relpath}: expected exactly one class {name}")
    return found[0]


def _find_method(cls, relpath, name):
    found = [n for n in cls.body if isinstance(n, (ast.FunctionDef, ast.AsyncFunctionDef)) and n.name == name]
    if len(found) != 1:
        raise TranslateError(f"{relpath}: expected exactly one method {cls.name}.{name}")
    return found[0]


def _body_without_docstring(fn):
    body = list(fn.body)
    if body and isinstance(body[0], ast.Expr) and isinstance(body[0].value, ast.Constant) \
            and isinstance(body[0].value.value, str):
        body = body[1:]
    return body


def _is_self_attr(e, attr):
    return isinstance(e, ast.Attribute) and e.attr == attr and isinstance(e.value, ast.Name) and e.value.id == "self"


def _is_name_attr(e, name, attr):
    return isinstance(e, ast.Attribute) and e.attr == attr and isinstance(e.value, ast.Name) and e.value.id == name


def _str_list(rel, e):
    if not isinstance(e, ast.List) or not e.elts:
        _fail(rel, e, "expected a non-empty list literal of strings")
    out = []
    for x in e.elts:
        if not (isinstance(x, ast.Constant) and isinstance(x.value, str)):
            _fail(rel, x, "expected a string literal")
        out.append(x.value)
    return out


def _eq_str(rel, test, name, attr):
    """`<name>.<attr> == "<literal>"` -> literal"""
    if not (isinstance(test, ast.Compare) and len(test.ops) == 1 and isinstance(test.ops[0], ast.Eq)
            and _is_name_attr(test.left, name, attr) and len(test.comparators) == 1
            and isinstance(test.comparators[0], ast.Constant) and isinstance(test.comparators[0].value, str)):
        _fail(rel, test, f"expected `{name}.{attr} == <string literal>`")
    return test.comparators[0].value


def _membership(rel, test, op, left_pred, what):
    """`<left> in|not in [<strings>]` -> list of strings"""
    if not (isinstance(test, ast.Compare) and len(test.ops) == 1 and isinstance(test.ops[0], op)
            and left_pred(test.left) and len(test.comparators) == 1):
        _fail(rel, test, f"expected `{what}`")
    return _str_list(rel, test.comparators[0])


def _raises(rel, stmts, excname):
    if not (len(stmts) == 1 and isinstance(stmts[0], ast.Raise) and stmts[0].cause is None
            and isinstance(stmts[0].exc, ast.Call) and isinstance(stmts[0].exc.func, ast.Name)
            and stmts[0].exc.func.id == excname):
        _fail(rel, stmts[0] if stmts else None, f"expected the body to be exactly `raise {excname}(...)`")


def _coq_list(items):
    return "[" + "; ".join(items) + "]"


# --------------------------------------------------------------------------- JSEP tables
PC = "rtcpeerconnection.py"

# fixed vocabularies (WebRTC enumerations).  A string outside them is a shape change.
SIG_STATES = {
    "stable": "Stable", "have-local-offer": "HaveLocalOffer", "have-remote-offer": "HaveRemoteOffer",
    "have-local-pranswer": "HaveLocalPranswer", "have-remote-pranswer": "HaveRemotePranswer", "closed": "Closed",
}
DESC_TYPES = {"offer": "TOffer", "pranswer": "TPranswer", "answer": "TAnswer", "rollback": "TRollback"}
DTLS_ROLES = {"auto": "RAuto", "client": "RClient", "server": "RServer"}
MEDIA_KINDS = {"audio": "KAudio", "video": "KVideo", "application": "KApplication"}


def _vocab(rel, node, table, words, what):
    out = []
    for w in words:
        if w not in table:
            _fail(rel, node, f"unknown {what} {w!r}")
        out.append(table[w])
    if len(set(out)) != len(out):
        _fail(rel, node, f"duplicate {what} in list")
    return out


def _state_guard(rel, stmts):
    """body == [ if self.signalingState not in [..]: raise InvalidStateError(..) ] -> states"""
    if not (len(stmts) == 1 and isinstance(stmts[0], ast.If) and not stmts[0].orelse):
        _fail(rel, stmts[0] if stmts else None, "expected a single `if self.signalingState not in [...]` guard")
    g = stmts[0]
    states = _membership(rel, g.test, ast.NotIn, lambda e: _is_self_attr(e, "signalingState"),
                         "self.signalingState not in [...]")
    _raises(rel, g.body, "InvalidStateError")
    return _vocab(rel, g, SIG_STATES, states, "signalling state")


def _offer_answer_chain(rel, node, leaf):
    """if description.type == "offer": <leaf> elif description.type == "answer": <leaf>  (no else)"""
    if not isinstance(node, ast.If):
        _fail(rel, node, "expected `if description.type == \"offer\"`")
    if _eq_str(rel, node.test, "description", "type") != "offer":
        _fail(rel, node, "first branch must test description.type == \"offer\"")
    if not (len(node.orelse) == 1 and isinstance(node.orelse[0], ast.If)):
        _fail(rel, node, "expected `elif description.type == \"answer\"`")
    second = node.orelse[0]
    if _eq_str(rel, second.test, "description", "type") != "answer":
        _fail(rel, second, "second branch must test description.type == \"answer\"")
    if second.orelse:
        _fail(rel, second, "unexpected else/elif after the answer branch")
    return leaf(rel, node.body), leaf(rel, second.body)


def jsep_validate_state_guards(cls):
    """(is_local, description type) -> allowed signalling states, from the first statement of
    RTCPeerConnection.__validate_description."""
    fn = _find_method(cls, PC, "__validate_description")
    if [a.arg for a in fn.args.args] != ["self", "description", "is_local"]:
        _fail(PC, fn, "unexpected signature of __validate_description")
    body = _body_without_docstring(fn)
    if not body or not isinstance(body[0], ast.If):
        _fail(PC, fn, "__validate_description must start with `if is_local:`")
    top = body[0]
    if not (isinstance(top.test, ast.Name) and top.test.id == "is_local"):
        _fail(PC, top, "expected `if is_local:`")
    if len(top.body) != 1 or len(top.orelse) != 1:
        _fail(PC, top, "expected one offer/answer chain in each branch of `if is_local`")
    lo, la = _offer_answer_chain(PC, top.body[0], _state_guard)
    ro, ra = _offer_answer_chain(PC, top.orelse[0], _state_guard)
    # no other statement of the function may mention signalingState or raise InvalidStateError
    for st in body[1:]:
        for n in ast.walk(st):
            if (isinstance(n, ast.Attribute) and n.attr in ("signalingState", "_RTCPeerConnection__signalingState")) or \
                    (isinstance(n, ast.Name) and n.id == "InvalidStateError"):
                _fail(PC, n, "unexpected second state check in __validate_description")
    return [
        ("validate_local_offer_states", "list sigstate", _coq_list(lo)),
        ("validate_local_answer_states", "list sigstate", _coq_list(la)),
        ("validate_remote_offer_states", "list sigstate", _coq_list(ro)),
        ("validate_remote_answer_states", "list sigstate", _coq_list(ra)),
    ]


def jsep_validate_content_lists(cls):
    """The literal lists used by the per-media checks and by the media-section match of
    RTCPeerConnection.__validate_description (statements 2 and 3 of the function).
    The order of the per-media checks is part of the expected shape."""
    fn = _find_method(cls, PC, "__validate_description")
    body = _body_without_docstring(fn)
    if len(body) != 3 or not isinstance(body[1], ast.For) or not isinstance(body[2], ast.If):
        _fail(PC, fn, "__validate_description must be: state check; `for media in description.media`; match check")
    loop = body[1]
    if not (isinstance(loop.target, ast.Name) and loop.target.id == "media"
            and _is_name_attr(loop.iter, "description", "media") and not loop.orelse):
        _fail(PC, loop, "expected `for media in description.media:`")
    # Two shapes are accepted for the DTLS part, and reported to the model as booleans, so that the
    # unrepaired tree still translates (the theorems then fail, not the translation):
    #   unrepaired: 3 checks, role check `description.type in [..] and media.dtls.role not in [..]`
    #   repaired:   role check guarded by `media.dtls is None or ...` and/or the extra check
    #               `not is_local and media.dtls is None` between the role check and the mux check
    if len(loop.body) not in (3, 4) or not all(isinstance(s, ast.If) and not s.orelse for s in loop.body):
        _fail(PC, loop, "expected three or four `if ...: raise ValueError` checks per media section "
                        "(ICE credentials, DTLS role, [remote DTLS parameters,] RTCP mux)")
    ice, dtls, mux = loop.body[0], loop.body[1], loop.body[-1]
    rdtls = loop.body[2] if len(loop.body) == 4 else None
    for s in loop.body:
        _raises(PC, s.body, "ValueError")

    # 1. `not media.ice.usernameFragment or not media.ice.password`
    def _not_ice(e, attr):
        return (isinstance(e, ast.UnaryOp) and isinstance(e.op, ast.Not) and isinstance(e.operand, ast.Attribute)
                and e.operand.attr == attr and _is_name_attr(e.operand.value, "media", "ice"))
    if not (isinstance(ice.test, ast.BoolOp) and isinstance(ice.test.op, ast.Or) and len(ice.test.values) == 2
            and _not_ice(ice.test.values[0], "usernameFragment") and _not_ice(ice.test.values[1], "password")):
        _fail(PC, ice, "unexpected ICE credential check")

    def _dtls_is_none(e):
        return (isinstance(e, ast.Compare) and len(e.ops) == 1 and isinstance(e.ops[0], ast.Is)
                and _is_name_attr(e.left, "media", "dtls") and isinstance(e.comparators[0], ast.Constant)
                and e.comparators[0].value is None)

    def _role(e):
        return isinstance(e, ast.Attribute) and e.attr == "role" and _is_name_attr(e.value, "media", "dtls")

    # 2. `description.type in [..] and (media.dtls is None or media.dtls.role not in [..])`
    #    (unrepaired: `description.type in [..] and media.dtls.role not in [..]`)
    t = dtls.test
    if not (isinstance(t, ast.BoolOp) and isinstance(t.op, ast.And) and len(t.values) == 2):
        _fail(PC, dtls, "unexpected DTLS role check")
    dtls_types = _membership(PC, t.values[0], ast.In, lambda e: _is_name_attr(e, "description", "type"),
                             "description.type in [...]")
    inner = t.values[1]
    if isinstance(inner, ast.BoolOp):
        if not (isinstance(inner.op, ast.Or) and len(inner.values) == 2 and _dtls_is_none(inner.values[0])):
            _fail(PC, dtls, "expected `(media.dtls is None or media.dtls.role not in [...])`")
        none_guarded = True
        role_test = inner.values[1]
    else:
        none_guarded = False
        role_test = inner
    roles = _membership(PC, role_test, ast.NotIn, _role, "media.dtls.role not in [...]")

    # 2b. `not is_local and media.dtls is None`
    if rdtls is not None:
        t = rdtls.test
        if not (isinstance(t, ast.BoolOp) and isinstance(t.op, ast.And) and len(t.values) == 2
                and isinstance(t.values[0], ast.UnaryOp) and isinstance(t.values[0].op, ast.Not)
                and isinstance(t.values[0].operand, ast.Name) and t.values[0].operand.id == "is_local"
                and _dtls_is_none(t.values[1])):
            _fail(PC, rdtls, "expected `not is_local and media.dtls is None`")

    # 3. `media.kind in [..] and not media.rtcp_mux`
    t = mux.test
    if not (isinstance(t, ast.BoolOp) and isinstance(t.op, ast.And) and len(t.values) == 2
            and isinstance(t.values[1], ast.UnaryOp) and isinstance(t.values[1].op, ast.Not)
            and _is_name_attr(t.values[1].operand, "media", "rtcp_mux")):
        _fail(PC, mux, "unexpected RTCP mux check")
    kinds = _membership(PC, t.values[0], ast.In, lambda e: _is_name_attr(e, "media", "kind"), "media.kind in [...]")

    # 4. `if description.type in [..]:` media-section match
    match = body[2]
    if match.orelse:
        _fail(PC, match, "unexpected else branch of the media-section match")
    match_types = _membership(PC, match.test, ast.In, lambda e: _is_name_attr(e, "description", "type"),
                              "description.type in [...]")
    return [
        ("validate_dtls_role_types", "list dtype", _coq_list(_vocab(PC, dtls, DESC_TYPES, dtls_types, "description type"))),
        ("validate_definite_roles", "list role", _coq_list(_vocab(PC, dtls, DTLS_ROLES, roles, "DTLS role"))),
        ("validate_role_check_handles_missing_dtls", "bool", "true" if none_guarded else "false"),
        ("validate_remote_requires_dtls", "bool", "true" if rdtls is not None else "false"),
        ("validate_mux_kinds", "list kind", _coq_list(_vocab(PC, mux, MEDIA_KINDS, kinds, "media kind"))),
        ("validate_match_types", "list dtype", _coq_list(_vocab(PC, match, DESC_TYPES, match_types, "description type"))),
    ]


def jsep_create_answer_guard(cls):
    """createAnswer: `self.__assertNotClosed()` then `if self.signalingState not in [...]: raise InvalidStateError`."""
    fn = _find_method(cls, PC, "createAnswer")
    body = _body_without_docstring(fn)
    if len(body) < 2:
        _fail(PC, fn, "createAnswer too short")
    first = body[0]
    if not (isinstance(first, ast.Expr) and isinstance(first.value, ast.Call) and not first.value.args
            and _is_self_attr(first.value.func, "__assertNotClosed")):
        _fail(PC, first, "createAnswer must start with self.__assertNotClosed()")
    states = _state_guard(PC, [body[1]])
    for st in body[2:]:
        for n in ast.walk(st):
            if isinstance(n, ast.Name) and n.id == "InvalidStateError":
                _fail(PC, n, "unexpected second state check in createAnswer")
    return [("create_answer_states", "list sigstate", _coq_list(states))]


def _set_state_call(rel, stmts):
    """[ self.__setSignalingState("<state>") ] -> state constructor"""
    if not (len(stmts) == 1 and isinstance(stmts[0], ast.Expr) and isinstance(stmts[0].value, ast.Call)):
        _fail(rel, stmts[0] if stmts else None, "expected a single self.__setSignalingState(...) call")
    call = stmts[0].value
    if not (_is_self_attr(call.func, "__setSignalingState") and len(call.args) == 1 and not call.keywords
            and isinstance(call.args[0], ast.Constant) and isinstance(call.args[0].value, str)):
        _fail(rel, call, "expected self.__setSignalingState(<string literal>)")
    return _vocab(rel, call, SIG_STATES, [call.args[0].value], "signalling state")[0]


def _all_set_state_sites(fn):
    return [n for n in ast.walk(fn) if isinstance(n, ast.Call) and _is_self_attr(n.func, "__setSignalingState")]


def jsep_state_updates(cls):
    """The signalling-state assignments: setLocalDescription / setRemoteDescription update chains,
    close(), and the initial value in __init__."""
    out = []
    for meth, pfx in (("setLocalDescription", "set_local"), ("setRemoteDescription", "set_remote")):
        fn = _find_method(cls, PC, meth)
        chains = [s for s in fn.body if isinstance(s, ast.If) and any(
            isinstance(n, ast.Call) and _is_self_attr(n.func, "__setSignalingState") for n in ast.walk(s))]
        if len(chains) != 1 or len(_all_set_state_sites(fn)) != 2:
            _fail(PC, fn, f"{meth}: expected exactly one top-level offer/answer state update")
        o, a = _offer_answer_chain(PC, chains[0], _set_state_call)
        out.append((f"{pfx}_state_updates", "list (dtype * sigstate)", f"[(TOffer, {o}); (TAnswer, {a})]"))
    fn = _find_method(cls, PC, "close")
    sites = _all_set_state_sites(fn)
    tops = [s for s in fn.body if isinstance(s, ast.Expr) and isinstance(s.value, ast.Call)
            and _is_self_attr(s.value.func, "__setSignalingState")]
    if len(sites) != 1 or len(tops) != 1:
        _fail(PC, fn, "close: expected exactly one unconditional self.__setSignalingState(...)")
    out.append(("close_state", "sigstate", _set_state_call(PC, tops)))
    fn = _find_method(cls, PC, "__init__")
    inits = [s for s in fn.body if isinstance(s, ast.Assign) and len(s.targets) == 1
             and _is_self_attr(s.targets[0], "__signalingState")]
    if not (len(inits) == 1 and isinstance(inits[0].value, ast.Constant) and isinstance(inits[0].value.value, str)):
        _fail(PC, fn, "__init__: expected self.__signalingState = <string literal>")
    out.append(("initial_state", "sigstate", _vocab(PC, inits[0], SIG_STATES, [inits[0].value.value], "state")[0]))
    # no other method may change the signalling state
    for m in cls.body:
        if isinstance(m, (ast.FunctionDef, ast.AsyncFunctionDef)) and m.name not in (
                "setLocalDescription", "setRemoteDescription", "close", "__init__", "__setSignalingState"):
            for n in ast.walk(m):
                if (isinstance(n, ast.Call) and _is_self_attr(n.func, "__setSignalingState")) or \
                        (isinstance(n, (ast.Assign, ast.AugAssign)) and any(
                            _is_self_attr(t, "__signalingState") for t in
                            (n.targets if isinstance(n, ast.Assign) else [n.target]))):
                    _fail(PC, n, f"unexpected signalling-state change in {m.name}")
    return out


JSEP_HEADER = """(* GENERATED by harness/translate_tables.py from src/aiortc/rtcpeerconnection.py -- do not edit.
   Regenerated on every check run; the theorems are re-checked against it.
   The four enumerations are the fixed WebRTC vocabularies; every list below is read off the
   Python source (RTCPeerConnection.__validate_description, createAnswer, setLocalDescription,
   setRemoteDescription, close, __init__). *)
From Coq Require Import List.
Import ListNotations.

Inductive sigstate := Stable | HaveLocalOffer | HaveRemoteOffer | HaveLocalPranswer | HaveRemotePranswer | Closed.
Inductive dtype := TOffer | TPranswer | TAnswer | TRollback.
Inductive role := RAuto | RClient | RServer.
Inductive kind := KAudio | KVideo | KApplication.

"""


def jsep_tables():
    tree = _parse(PC)
    cls = _find_class(tree, PC, "RTCPeerConnection")
    defs = []
    defs += jsep_validate_state_guards(cls)
    defs += jsep_create_answer_guard(cls)
    defs += jsep_validate_content_lists(cls)
    defs += jsep_state_updates(cls)
    text = JSEP_HEADER + "".join(f"Definition {n} : {ty} := {v}.\n" for n, ty, v in defs)
    return [("Jsep", text)]


# --------------------------------------------------------------------------- Gen/Dtls.v (C04)

def _dtls_zlist(values):
    return "[" + "; ".join(_tr.zlit(v) for v in values) + "]"

def _dtls_digest_algorithms(mod):
    """Keys of the dict literal X509_DIGEST_ALGORITHMS, in source order."""
    node = mod.assigns.get("X509_DIGEST_ALGORITHMS")
    if not isinstance(node, ast.Dict) or not node.keys:
        raise TranslateError("rtcdtlstransport.py: X509_DIGEST_ALGORITHMS is not a non-empty dict literal")
    names = []
    for k in node.keys:
        if not (isinstance(k, ast.Constant) and isinstance(k.value, str) and k.value):
            raise TranslateError("rtcdtlstransport.py: X509_DIGEST_ALGORITHMS has a key that is not a string literal")
        if not k.value.isascii():
            raise TranslateError("rtcdtlstransport.py: X509_DIGEST_ALGORITHMS key is not ASCII: %r" % k.value)
        if k.value in names:
            raise TranslateError("rtcdtlstransport.py: duplicate X509_DIGEST_ALGORITHMS key %r" % k.value)
        names.append(k.value)
    return names


def _dtls_srtp_profiles(mod):
    """(name, openssl_profile, key_length, salt_length) of every profile offered, in the order of the
    list literal that the module-level `for srtp_profile in [...]` loop iterates over."""
    defs = {}
    for name, value in mod.assigns.items():
        if (isinstance(value, ast.Call) and isinstance(value.func, ast.Name)
                and value.func.id == "SRTPProtectionProfile"):
            if value.args:
                raise TranslateError(f"rtcdtlstransport.py: {name}: positional SRTPProtectionProfile arguments")
            kw = {k.arg: k.value for k in value.keywords}
            if sorted(kw) != ["key_length", "libsrtp_profile", "openssl_profile", "salt_length"]:
                raise TranslateError(f"rtcdtlstransport.py: {name}: unexpected SRTPProtectionProfile fields")
            osl = kw["openssl_profile"]
            if not (isinstance(osl, ast.Constant) and isinstance(osl.value, bytes) and osl.value):
                raise TranslateError(f"rtcdtlstransport.py: {name}: openssl_profile is not a bytes literal")
            lens = []
            for fld in ("key_length", "salt_length"):
                v = kw[fld]
                if not (isinstance(v, ast.Constant) and isinstance(v.value, int) and not isinstance(v.value, bool)
                        and v.value > 0):
                    raise TranslateError(f"rtcdtlstransport.py: {name}: {fld} is not a positive int literal")
                lens.append(v.value)
            defs[name] = (osl.value, lens[0], lens[1])
    loops = [n for n in mod.tree.body if isinstance(n, ast.For) and isinstance(n.target, ast.Name)
             and n.target.id == "srtp_profile"]
    if len(loops) != 1 or not isinstance(loops[0].iter, ast.List):
        raise TranslateError("rtcdtlstransport.py: expected exactly one `for srtp_profile in [...]` loop")
    order = []
    for e in loops[0].iter.elts:
        if not (isinstance(e, ast.Name) and e.id in defs):
            raise TranslateError("rtcdtlstransport.py: SRTP profile list has an element that is not a known profile")
        order.append(e.id)
    if not order or len(set(order)) != len(order):
        raise TranslateError("rtcdtlstransport.py: SRTP profile list is empty or has duplicates")
    # get_key_and_salt must still be the slicing the model transcribes (shape check only)
    cls = mod.classes.get("SRTPProtectionProfile")
    meth = [n for n in (cls.body if cls else []) if isinstance(n, ast.FunctionDef) and n.name == "get_key_and_salt"]
    if len(meth) != 1 or [a.arg for a in meth[0].args.args] != ["self", "src", "idx"]:
        raise TranslateError("rtcdtlstransport.py: SRTPProtectionProfile.get_key_and_salt(self, src, idx) not found")
    return [(n,) + defs[n] for n in order]


def _dtls_state_enum(mod):
    cls = mod.classes.get("State")
    if cls is None:
        raise TranslateError("rtcdtlstransport.py: class State not found")
    out = []
    for n in cls.body:
        if (isinstance(n, ast.Assign) and len(n.targets) == 1 and isinstance(n.targets[0], ast.Name)
                and isinstance(n.value, ast.Constant) and isinstance(n.value.value, int)):
            out.append((n.targets[0].id, n.value.value))
    if [k for k, _ in out] != ["NEW", "CONNECTING", "CONNECTED", "CLOSED", "FAILED"]:
        raise TranslateError("rtcdtlstransport.py: State members changed: %r" % (out,))
    if len({v for _, v in out}) != len(out):
        raise TranslateError("rtcdtlstransport.py: State values are not distinct")
    return out


def _case_specials():
    """Non-ASCII code points whose str.upper() / str.lower() is entirely ASCII (language semantics of the
    interpreter that runs aiortc): the only inputs on which Python's Unicode case mapping and an ASCII-only
    mapping can disagree about equality with an ASCII string."""
    up, lo = [], []
    for c in range(128, 0x110000):
        ch = chr(c)
        u, l = ch.upper(), ch.lower()
        if u.isascii():
            up.append((c, [ord(x) for x in u]))
        if l.isascii():
            lo.append((c, [ord(x) for x in l]))
    # sanity: upper()/lower() are context-free on the listed characters and on ASCII
    for c, exp in up:
        if [ord(x) for x in ("a" + chr(c) + "a").upper()] != [65] + exp + [65]:
            raise TranslateError("str.upper() is context dependent for U+%04X" % c)
    for c, exp in lo:
        if [ord(x) for x in ("A" + chr(c) + "A").lower()] != [97] + exp + [97]:
            raise TranslateError("str.lower() is context dependent for U+%04X" % c)
    for c in range(128):
        ch = chr(c)
        eu = chr(c - 32) if "a" <= ch <= "z" else ch
        el = chr(c + 32) if "A" <= ch <= "Z" else ch
        if ch.upper() != eu or ch.lower() != el:
            raise TranslateError("unexpected ASCII case mapping for %d" % c)
    return up, lo


def gen_dtls():
    mod = _tr.Module("rtcdtlstransport.py")
    algs = _dtls_digest_algorithms(mod)
    profiles = _dtls_srtp_profiles(mod)
    states = _dtls_state_enum(mod)
    up, lo = _case_specials()
    out = [_tr.HEADER.format(src="src/aiortc/rtcdtlstransport.py (table extractor harness/translate_tables.py gen_dtls)")]
    out.append("(* keys of X509_DIGEST_ALGORITHMS, as lists of character codes: "
               + ", ".join(algs) + " *)\n")
    out.append("Definition dtls_X509_DIGEST_ALGORITHMS : list (list Z) :=\n  ["
               + ";\n   ".join(_dtls_zlist([ord(c) for c in a]) for a in algs) + "].\n\n")
    out.append("(* SRTP protection profiles offered, in preference order: (openssl_profile, key_length, salt_length)\n   "
               + ", ".join(f"{n} = {o.decode('ascii', 'replace')}/{k}/{s}" for n, o, k, s in profiles) + " *)\n")
    out.append("Definition dtls_SRTP_PROFILES : list (list Z * Z * Z) :=\n  ["
               + ";\n   ".join(f"({_dtls_zlist(list(o))}, {k}, {s})" for _, o, k, s in profiles) + "].\n\n")
    for n, o, k, s in profiles:
        out.append(f"Definition dtls_{n} : list Z * Z * Z := ({_dtls_zlist(list(o))}, {k}, {s}).\n")
    out.append("\n(* enum State *)\n")
    for k, v in states:
        out.append(f"Definition dtls_STATE_{k} : Z := {_tr.zlit(v)}.\n")
    out.append("\n(* non-ASCII characters whose str.upper() / str.lower() consists of ASCII characters only *)\n")
    out.append("Definition dtls_UPPER_SPECIAL : list (Z * list Z) :=\n  ["
               + "; ".join(f"({c}, {_dtls_zlist(e)})" for c, e in up) + "].\n")
    out.append("Definition dtls_LOWER_SPECIAL : list (Z * list Z) :=\n  ["
               + "; ".join(f"({c}, {_dtls_zlist(e)})" for c, e in lo) + "].\n")
    return "".join(out)



def dtls_tables():
    return [("Dtls", gen_dtls())]


# --------------------------------------------------------------------------- entry point
def generate():
    """-> list of (outname, coq_text); raises translate.TranslateError (fail closed)."""
    out = []
    out += jsep_tables()
    out += dtls_tables()
    return out


if __name__ == "__main__":
    for name, text in generate():
        print(f"(* ---- Gen/{name}.v ---- *)")
        print(text)
