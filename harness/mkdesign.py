#!/usr/bin/env python3
"""Regenerates section 11 ("As built") of /verif/DESIGN.md from MANIFEST.json, coq/Props/*.v,
known_findings.json and seeded/*/meta.json plus the prose below.  Run after mkmanifest.py."""
import glob
import json
import os
import re

VERIF = os.path.dirname(os.path.dirname(os.path.abspath(__file__)))
MARK = "## 11. As built"
COMMON_PREFIX = ""

ARCH = r"""
### 11.1 Architecture as built

Everything the plan of section 2 describes exists; deviations are listed here.

* `./check <ID> [--tier quick|thorough] [--seed N] [--cases N] [--replay FILE]` runs one property
  (`harness/props/<id>.py`, a subclass of `harness/framework.py:Check`).  Flow of every run:
  1. regenerate `coq/Gen/*.v` from `/repo`'s working tree with the fail-closed `ast` translator
     (`harness/translate.py`: `utils.py`, the SCTP/RTP/jitter-buffer/H.264/VP8 constants and small
     pure functions; `harness/translate_tables.py`: the JSEP guard tables and update chains of
     `rtcpeerconnection.py`, the DTLS profile/hash tables) - an unexpected shape is a broken tie,
     not a silent skip;
  2. hygiene scan of the import closure of `coq/Props/<ID>.v` (no `Admitted`, `admit`, `Axiom`,
     `Parameter`, `Conjecture`, guard/universe switches, `Variable`/`Hypothesis` outside a section);
  3. full `.vo` build of that closure with `make` (never `-vos`), under a file lock;
  4. `coqc` of the Props file again to read every `Print Assumptions` (any axiom fails the check);
  5. build the extracted OCaml executables of the models the property uses;
  6. correspondence: corpus cases first (`corpus/<ID>.jsonl`, minimised past failures), then freshly
     generated cases from one PRNG seed; model (extracted OCaml) and implementation (real aiortc
     objects) run on the same inputs, outputs canonicalised and compared;
  7. implementation-level oracle for the property text itself (the statement checked directly on
     the real code's outputs, independent of the model);
  8. if a proof, the translator or the correspondence broke: enlarged search for a concrete failing
     input (more cases, shrinking); verdict, replay file, `evidence/<ID>.json`.
  `VERIF_REPO=<dir>` points a run at a scratch worktree (used only to test seeded changes).
* The thorough tier multiplies the case counts (per-property `thorough_cases`), adds exhaustive
  sweeps where a domain is finite (e.g. every <=32-bit burst position of sample packets for C08,
  all JSEP call sequences to a larger depth for C14) and runs `coqchk -o` on the property's
  compiled closure.  It does not `make clean` (the tree is shared); `setup.sh` does a fresh build.
* Models are hand-written Gallina (`coq/Model/*.v`, definitions only, each ending in
  `Definition main : sx -> sx` over the s-expression type of `Lib/Sx.v`) and are tied by the
  correspondence check; the generated files tie constants, serial arithmetic and decision tables
  by regeneration.  Proofs live in `coq/Proof/*.v`; `coq/Props/<ID>.v` holds only the property
  theorems, each closed by `exact <lemma>` (or a two-line composition), `Print Assumptions`
  beneath it, and `Example`s showing the hypotheses are satisfiable.
* SCTP properties (C01 C02 C05 C06 C13 C17) additionally use a deterministic two-endpoint
  simulator built on real `RTCSctpTransport` objects (`harness/sim/sctp.py`: virtual clock,
  scripted delivery / loss / duplication / reordering / long-delayed duplicates / timer firing,
  `harness/sim/scenario.py`: scenario programs and shrinking).  It is the oracle for the
  liveness-flavoured sentences (drains, delivered after healing, close protocol) that the
  theorems cover only partially.
* No hooks were needed in `/repo` (`MANIFEST.hooks.source_hooks` is empty); the environment
  variable `AIORTC_VERIF` is reserved and set by `./check` but nothing in aiortc reads it.
"""

TRUST = r"""
### 11.2 Trusted base as built

* Coq 8.16.1 kernel and its VM (`vm_compute` is used in `Example`s, in the finite sweeps lifted by
  `forallb_forall`-style lemmas, and in `_refuted` witnesses).  `native_compute` is not used.
* Axioms: none.  Every property theorem of every `coq/Props/C*.v` prints
  "Closed under the global context", with one exception: `C02_rto_bounded` is about
  `Model/Rto.v`, which uses Coq's primitive 64-bit floats (`PrimFloat.float`, `add`, `sub`, `mul`,
  `div`, `abs`, `ltb`).  `Print Assumptions` lists these kernel primitives under "Axioms:"; they
  are not axioms (they have reduction rules in the kernel) and nothing from `FloatAxioms` is used -
  the theorem is proved by case analysis on the primitive comparisons.  The trusted base therefore
  includes the kernel's float implementation (OCaml/C binary64 arithmetic, round to nearest even)
  and its evaluation by `vm_compute`, which is also what runs the bit-for-bit comparison with
  `_update_rto`.  The check fails if a `Print Assumptions` lists anything else.
  No `Program`, Equations, classical, functional-extensionality or real-number library is imported.
  C15's floating-point delay filter is not modelled (it calls libm's `pow`; C15 quantifies over the
  detector's verdicts).
* Standard library only (`ZArith List Bool Lia ZifyBool Arith Sorted FinFun` and friends).
* The translators `harness/translate.py` and `harness/translate_tables.py` (Python `ast` ->
  Gallina text; fail closed on any unexpected shape).  The generated arithmetic is additionally
  validated against the live Python functions on boundary-biased inputs in the C17 check.
* Extraction: `From Coq Require Extraction ExtrOcamlBasic.` only - i.e. its `Extract Inductive`
  for bool/option/unit/list/prod/sumbool/sumor and `Extract Inlined Constant` for
  andb/orb/negb/fst/snd; `Z`, `positive`, `N`, `nat` stay extracted inductives (no OCaml `int`);
  OCaml 4.13.1 `ocamlfind ocamlopt`; the 40-line `coq/Extract/driver_tail.ml` (reads one
  s-expression per line, prints one per line).
* The correspondence harness and oracles (`harness/props/*.py`, `harness/sim/*.py`): adapters that
  drive the real aiortc classes, canonicalisation (dict/set order, exception classes mapped to the
  codes of `Lib/Sx.v`), case generators.  Their input distributions are written to the evidence.
* Modelled rather than verified: everything under `coq/Model/`.  Not modelled at all: asyncio
  scheduling, real time, threads, OpenSSL/pyOpenSSL, libsrtp, aioice, PyAV, google-crc32c's C code
  (the CRC model is validated against it), character-level SDP tokenising (validated), UTF-8
  encode/decode (a trusted bijection; validity is an oracle input).
"""

FALSE_ALARMS = r"""
### 11.6 False alarms found while building, and what was corrected

A violation reported on the unchanged tree was first replayed against the real code.  The ones
below did not reproduce as defects of aiortc; the machinery was corrected and nothing was
recorded as a finding.

* C01 oracle counted two deliveries of the empty message (distinct sends with equal content) as a
  duplicate: compare multisets with send counts.
* C02 oracle declared "deadlock" while a transmit was still scheduled for the next step: track the
  pending-transmit flag across steps.
* C13 oracle: the set of locally closed channels was taken from the program text instead of the
  closes actually executed; stream-id reuse by a later channel needs incarnation numbers.
* C05 injector was unfair: it forged DATA with TSNs colliding with genuine traffic, FORWARD-TSN
  beyond the cumulative point and SACKs relative to the wrong base - i.e. it behaved like a lying
  peer rather than a source of malformed datagrams.  TSN choices are now disjoint from live
  traffic, FORWARD-TSN stays at or below the cumulative point, SACK bases are relative to
  `_last_sacked_tsn`.  The same rule was later extended to the "declared length lies" chunk stream, whose random
  first four bytes had produced a FORWARD-TSN 2^30 ahead (a lying peer, not a malformed datagram), and to SACKs
  whose cumulative TSN covers chunks the peer has not received (indistinguishable from a genuine SACK: any SCTP
  sender drops that data for good); such a value is replaced by what the peer really has received.  A last
  instance (thorough tier only): a 3-byte FORWARD-TSN value with a declared chunk length of 8 is completed by the
  padding octet into a cumulative TSN 2^30 ahead; the fairness rule now also covers 1-3 byte values.
* C13 two-endpoint oracle: eight "close incomplete / datachannel parameters differ" verdicts of the thorough tier
  were consequences of the recorded finding K4 (a RE-CONFIG was dropped and is never retransmitted; one side
  keeps the stream registered while the other reuses the id).  They are now attributed to K4 when the run dropped
  a RE-CONFIG - or when the peer discarded it because it was not established yet (its COOKIE ACK had been lost),
  which is the same missing retransmission.  The ninth verdict of that run was a genuine defect (close() during
  the handshake), repaired by a fix commit, see 11.4.
* Hygiene scan matched `Abort` in another builder's scratch file and files outside the property's
  import closure: restricted to the closure; `Abort` (harmless) removed from the pattern.
* `setup.sh` built every file under `coq/`, including work in progress of other properties: it
  now builds exactly the closure of the claimed properties.
* The first seed-confirmation script ran pytest without `PYTHONPATH=<worktree>/src`, so the
  installed copy was tested instead of the changed one: fixed before any result was recorded.
* C14: aiortc closes the connection by itself when the remote DTLS transport shuts down; left on,
  one case in 100k was timing dependent.  The harness disables that self-close for its runs.
* C19: one full-suite run failed `test_dtls_role_offer_active` under heavy load; 24/24 reruns
  passed on both trees - machine load, not a defect.
* Load: with every quick check running at once next to 19 other jobs, one C12 case overran its 2 s
  wall-clock budget and the hang marker crashed the `nontrivial` statistics (exit 1 on the unchanged
  tree).  A case that overruns its budget is now re-run once with a budget ten times larger (at
  least 60 s) before it counts as a hang, and a failing `nontrivial` is not fatal.  All 19 quick
  checks were then run concurrently for three seeds: 57/57 exit 0.
* C19 probe: the first version of the renegotiate-then-close probe read `readyState` of the received
  tracks, which stays `live` until somebody calls `recv()`: it reported the unchanged tree.  The probe
  now drains `recv()` until `MediaStreamError`, which is how a consumer observes the end of a track.
* C02/C06/C17 sender tie: when the generator began to number ordered messages from stream sequence
  numbers near 65535 the real sender still counted from 0 (the adapter did not preset
  `_outbound_stream_seq`): 107 spurious disagreements, adapter corrected.
* C04 model and oracle had taken a defect for the specification: `recv_next` of `Model/Dtls.v` returned
  `RxCrash` for an empty datagram (the `IndexError` of `data[0]`), and the oracle of the scripted-handshake
  cases expected `start()` to raise when the script contained one.  That is faithful to the code as it
  was, but the behaviour is a genuine C05 defect (an empty UDP datagram from anybody closed the DTLS
  transport; demonstrated on two real peer connections over loop-back UDP, repaired by fix commit
  220ae12).  When the repair went in, C04's check raised an alarm on the repaired tree (147
  disagreements, `start-raised`): a false alarm of the machinery.  Model (`None => RxOk RxNone`), two proofs
  and the oracle were corrected; `C05_dtls_demux_total` now states that demultiplexing never ends
  with an exception other than `ConnectionError`, and C05's parser family hands every generated byte
  string (length 0 included) to the real `_recv_next`.  Lesson recorded in 11.8: a model that mirrors a
  crash must be paired with an oracle that rejects the crash, not one that expects it.
* C05 injector, thorough tier, two more unfair inputs.  (a) A datagram carried two SACK chunks: the first
  (cumulative TSN = what the peer really had) opened the window, the sender put the chunks waiting in
  `_outbound_queue` on the wire while still handling the datagram, and the second SACK - "beyond everything
  sent" when the datagram was built, hence left as generated - acknowledged one of them: a lying peer again
  (the data is dropped for good, the association wedges).  The fairness rule now judges "sent" by everything
  that can be on the wire when the chunk is processed: `_outbound_queue` and the messages waiting in
  `_data_channel_queue` included.  (b) The per-call CPU budget of the parser family is measured with
  `process_time()`, i.e. for the whole process; one 8-byte input was charged 0.56 s while a garbage collection
  of the 40000-case run (or a decoder thread of an earlier case) was running.  A call that overruns is now
  measured a second time after `gc.collect()` and the smaller figure counts - a parser that is slow on an
  input is slow again.
* C05 injector, one more unfair input (final stress pass, seed 2): a COOKIE ACK with the right verification tag
  injected into a client in COOKIE_ECHOED whose COOKIE ECHO had been lost.  The client - rightly - took it for the
  server's answer, became established and sent DATA to a server that had only seen the INIT; a duplicated INIT then
  reset the server's cumulative TSN and the acknowledged chunk was forgotten: wedged.  Without the forged chunk
  the client never sends DATA before the server is established, so the INIT guard (`state != CLOSED`) holds.
  Forging the peer's handshake step is a lying peer, not a nonsensical datagram: INIT ACK / COOKIE ACK aimed at
  a client that is waiting for exactly that chunk are now sent as an unknown chunk type.
* Harness robustness (round 7 of the seeded changes): a change that makes `NackGenerator.add` loop and allocate
  without bound drove C05's check to 7 GB in two minutes, and the "overran under load: retry with ten times the
  budget" rule would have let the second attempt eat the machine.  The retry now happens only when the machine
  really is busy (load average above half the cores) and the process did not grow by more than 1 GiB during the
  first attempt; C05's per-case budget went from 120 s to 40 s, a hang is a verdict of its own (`hang`) in C05's
  oracle, and hangs are not shrunk (every candidate would have to time out again).  The check then reports that
  change in 14 minutes instead of not terminating within half an hour.
* Pairing of channels in the two-endpoint oracles (C01/C02/C06) matched every channel with every peer
  channel of the same stream id; the new "one id, several channels in a row" scenarios made that
  ambiguous (300/300 `corrupt-message` on the unchanged tree before any result was recorded).  Channels
  are now paired incarnation by incarnation, and C13's id-parity rule skips negotiated channels, whose
  id the application chooses.
"""

LIMITS = r"""
### 11.8 Limits as built

* Every theorem is about a model; the tie is differential testing whose strength is the generator's.
  The evidence files print the input distribution of every run.
* The models mirror the code, crashes included (`RxCrash`, `EvRaise`, `OutAssert`, `StartCrash` outputs).
  A crash output that a received datagram can reach is either proved unreachable (Props/C05.v), rejected
  by the oracle of the check that drives that path, or listed as a finding; the one place where an
  oracle had accepted such an output (an empty datagram in C04's handshake scripts) is described in 11.6.
* PARTIAL parts (also in MANIFEST notes): C01 "delivered after healing" (oracle); C02 the closed loop of
  two endpoints within bounded time (oracle; sender drainage against an ideal peer and the receiver's
  answer are theorems); C03 "actually connects" (real loop-back pairs); C04 packet protection by
  libsrtp/OpenSSL (observed); C05 "still up afterwards" and time/memory proportionality (live
  injection oracle); C06 end-to-end non-interference and recovery over two endpoints (oracle); C09
  character-level parsing (validated); C11 timestamp mapping and recovery liveness (closed-loop oracle);
  C13 cross-endpoint statements (oracle; refuted by K4/K9/K10); C15 the float delay filter (its verdict
  is a universally quantified input; `pow` of libm has no PrimFloat counterpart, so a bit-exact model is
  out of reach here); C17 the composition of the per-component shift theorems into one statement about
  a whole connection (metamorphic oracle); C19 scheduler fairness step (argued).
* 16-bit SSN window (C01 theorem 5) and 2^31 TSN window (C01 theorem 3) are hypotheses inherent to
  SCTP's serial arithmetic; the code path that keeps arrivals inside 65535 TSNs of the cumulative
  point (`far_ahead`) is modelled and proved not to assert.
* `coqchk -o` is run in the thorough tier only (a minute or more per property).
"""


def theorems():
    out = {}
    for f in sorted(glob.glob(os.path.join(VERIF, "coq", "Props", "C*.v"))):
        pid = os.path.basename(f)[:-2]
        out[pid] = re.findall(r"^Theorem\s+([A-Za-z0-9_']+)", open(f).read(), re.M)
    return out


def main():
    man = json.load(open(os.path.join(VERIF, "MANIFEST.json")))
    kf = json.load(open(os.path.join(VERIF, "known_findings.json")))
    th = theorems()
    parts = [MARK + ": theorems, trusted base, repairs, findings, seeded changes\n",
             "(Generated by `harness/mkdesign.py` from MANIFEST.json, `coq/Props`, `known_findings.json` and "
             "`seeded/*/meta.json`; the prose blocks are in that script.)\n", ARCH, TRUST]
    parts.append("\n### 11.3 Per property: what is proved, what is partial, how it is tied\n")
    total = 0
    for c in sorted(man["checks"], key=lambda c: c["property_id"]):
        pid = c["property_id"]
        names = th.get(pid, [])
        total += len(names)
        lc = c.get("level_claimed", {})
        parts.append(f"\n**{pid}** - level `{lc.get('category', '')}`, technique: {c.get('technique', '')}; "
                     f"{len(names)} theorems: " + ", ".join(f"`{n}`" for n in names) + ".\n")
        parts.append("\n" + lc.get("text", "") + "\n")
        note = c.get("level_note", "")
        cut = "same generated inputs on every run. "
        if cut in note:
            note = note.split(cut, 1)[1]
        if note.strip():
            parts.append("\nNote: " + note.strip() + "\n")
    parts.append(f"\nTotal: {total} property theorems, all closed under the global context.\n")
    parts.append("\n### 11.4 Repairs made to aiortc (`fix:` commits in /repo, oldest first)\n\n"
                 "Each was first reproduced against the unchanged code (failing input / schedule / history), is a "
                 "minimal unguarded commit, and the 495 existing tests pass unedited with it.  The property named is "
                 "the one whose check found or needed it; `known_findings.json` lists them as `fixed:` entries, "
                 "which suppress nothing.\n\n")
    for f in kf.get("fixed", []):
        m = re.match(r"fixed: property=(\S+) (\S+) (.*)", f)
        parts.append(f"* `{m.group(2)}` ({m.group(1)}) {m.group(3)}\n")
    parts.append("\n### 11.5 Open findings (genuine defects recorded, not repaired)\n\n"
                 "Each is reproduced by a replay against the real code; the repair is not small or not possible "
                 "inside aiortc.  The check prints `KNOWN-FINDING:` only when its oracle computes exactly the listed "
                 "signature; any other violation of the same property is still reported.\n\n")
    for k in kf["findings"]:
        if k.get("status") == "open":
            parts.append(f"* **{k['id']}** ({k['property']}, signature `{k['signature']}`): {k['summary']}.  "
                         f"History: {k['history']}.\n")
    parts.append(FALSE_ALARMS)
    parts.append("\n### 11.7 Seeded changes: which check catches which\n\n"
                 "Fresh sub-agents, given only the property text and a scratch worktree, wrote two property-breaking "
                 "changes per property that keep the 495 tests green and need something specific to manifest.  Each "
                 "was confirmed here (demo passes on the unchanged tree and fails with the patch, full suite passes "
                 "with the patch) and the property's quick check was run against the patched scratch worktree "
                 "(`VERIF_REPO=...`).  Patches, demos and run records are in `seeded/<ID>_<n>/`.\n\n"
                 "| Seeded change | What it does (agent's summary) | Result of the check |\n|---|---|---|\n")
    for d in sorted(glob.glob(os.path.join(VERIF, "seeded", "*", "meta.json"))):
        m = json.load(open(d))
        name = os.path.basename(os.path.dirname(d))
        res = m.get("check_result", "")
        sig = re.findall(r"replay=\S*/(\S+?)\.json", res)
        verdict = ("caught: " + ", ".join(sorted(set(sig)))) if m.get("detected") else "MISSED"
        if m.get("note"):
            verdict += " - " + m["note"]
        summ = (m.get("summary") or "").replace("|", "/").replace("\n", " ")
        parts.append(f"| {name} | {summ[:300]} | {verdict} |\n")
    parts.append(LIMITS)
    body = "".join(parts)
    path = os.path.join(VERIF, "DESIGN.md")
    s = open(path).read()
    i = s.find("\n" + MARK)
    if i >= 0:
        s = s[:i]
    s = s.rstrip() + "\n\n---------------------------------------------------------------------------\n\n" + body
    open(path, "w").write(s)
    print("DESIGN.md section 11 written:", len(body), "chars;", total, "theorems")


if __name__ == "__main__":
    main()
