(* Shared by Model/Rtp.v and Model/Rtcp.v (property C07): the result type of
   model functions that can raise, range guards of struct.pack, small list
   helpers.  Definitions only. *)
From Coq Require Import ZArith List Bool.
From AV Require Import Lib.Sx Lib.Bytes.
Import ListNotations.
Local Open Scope Z_scope.

(* Ok v | ValueError | any other exception | model ran out of fuel *)
Inductive result (T : Type) : Type :=
| Ok (v : T)
| ValueErr
| Crash
| OutOfFuel.
Arguments Ok {T} v.
Arguments ValueErr {T}.
Arguments Crash {T}.
Arguments OutOfFuel {T}.

Definition bind {T U} (r : result T) (f : T -> result U) : result U :=
  match r with
  | Ok v => f v
  | ValueErr => ValueErr
  | Crash => Crash
  | OutOfFuel => OutOfFuel
  end.

Notation "'do' x <- r ; k" := (bind r (fun x => k))
  (at level 200, x pattern, r at level 100, k at level 200, right associativity).

(* outcome classes used by the totality theorems *)
Definition benign {T} (r : result T) : Prop :=
  match r with Ok _ | ValueErr => True | Crash | OutOfFuel => False end.

(* struct.pack range guards ("B", "H", "L", "Q", "l") *)
Definition inrange (lo hi x : Z) : bool := (lo <=? x) && (x <? hi).
Definition u8ok (x : Z) : bool := inrange 0 256 x.
Definition u16ok (x : Z) : bool := inrange 0 65536 x.
Definition u24ok (x : Z) : bool := inrange 0 16777216 x.
Definition u32ok (x : Z) : bool := inrange 0 4294967296 x.
Definition u64ok (x : Z) : bool := inrange 0 18446744073709551616 x.
Definition i32ok (x : Z) : bool := inrange (-2147483648) 2147483648 x.

(* b"".join(pack("!L", x) for x in l) *)
Fixpoint be32s (l : list Z) : result bytes :=
  match l with
  | [] => Ok []
  | x :: l' => if u32ok x then do r <- be32s l'; Ok (be32 x ++ r) else Crash
  end.

(* n consecutive unpack_from("!L", data, pos) *)
Fixpoint u32s (data : bytes) (pos : nat) (n : nat) : option (list Z) :=
  match n with
  | O => Some []
  | S n' => match u32 data pos with
            | None => None
            | Some x => match u32s data (4 + pos) n' with
                        | None => None
                        | Some l => Some (x :: l)
                        end
            end
  end.

Definition zlen {T} (l : list T) : Z := Z.of_nat (length l).
Definition is_nil {T} (l : list T) : bool := match l with [] => true | _ => false end.
Definition b2z (b : bool) : Z := if b then 1 else 0.
Definition all_lt (bound : Z) (l : bytes) : bool := forallb (fun b => b <? bound) l.

(* data[-1] *)
Definition last_byte (l : bytes) : option Z :=
  match l with [] => None | _ => nth_error l (length l - 1) end.

(* s-expression form of a result: (0 v) | (-1) | (-2) | (-3) *)
Definition sx_res {T} (f : T -> sx) (r : result T) : sx :=
  match r with
  | Ok v => L [A 0; f v]
  | ValueErr => L [A ERR_VALUE]
  | Crash => L [A ERR_CRASH]
  | OutOfFuel => L [A ERR_FUEL]
  end.
Definition of_optz (o : option Z) : sx := of_opt A o.
Definition sx_optz (s : sx) : option Z := sx_opt sx_z s.
