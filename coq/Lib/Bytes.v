(* Byte strings as list Z; struct.pack / unpack_from / slicing as in Python. *)
From Coq Require Import ZArith List Bool Lia.
Import ListNotations.
Local Open Scope Z_scope.

Definition bytes := list Z.
Definition byte_ok (b : Z) : Prop := 0 <= b < 256.
Definition bytes_ok (l : bytes) : Prop := Forall byte_ok l.
Definition byte_okb (b : Z) : bool := (0 <=? b) && (b <? 256).
Definition bytes_okb (l : bytes) : bool := forallb byte_okb l.

Definition len (l : bytes) : Z := Z.of_nat (length l).

(* data[i]  (IndexError = None) *)
Definition u8 (l : bytes) (i : nat) : option Z := nth_error l i.
(* unpack_from("!H"/"!L"/"!Q", data, i)  (struct.error = None) *)
Definition u16 (l : bytes) (i : nat) : option Z :=
  match u8 l i, u8 l (S i) with
  | Some a, Some b => Some (a * 256 + b)
  | _, _ => None
  end.
Definition u24 (l : bytes) (i : nat) : option Z :=
  match u8 l i, u16 l (S i) with
  | Some a, Some b => Some (a * 65536 + b)
  | _, _ => None
  end.
Definition u32 (l : bytes) (i : nat) : option Z :=
  match u16 l i, u16 l (S (S i)) with
  | Some a, Some b => Some (a * 65536 + b)
  | _, _ => None
  end.
Definition u64 (l : bytes) (i : nat) : option Z :=
  match u32 l i, u32 l (4 + i) with
  | Some a, Some b => Some (a * 4294967296 + b)
  | _, _ => None
  end.
(* little-endian 32 bit *)
Definition u32le (l : bytes) (i : nat) : option Z :=
  match u8 l i, u8 l (1 + i), u8 l (2 + i), u8 l (3 + i) with
  | Some a, Some b, Some c, Some d => Some (a + b * 256 + c * 65536 + d * 16777216)
  | _, _, _, _ => None
  end.

(* pack("!B"/"!H"/"!L"/"!Q", n) for n in range (range is the caller's duty;
   struct.error on out-of-range values is modelled by the callers' guards) *)
Definition be8 (n : Z) : bytes := [n mod 256].
Definition be16 (n : Z) : bytes := [(n / 256) mod 256; n mod 256].
Definition be24 (n : Z) : bytes := [(n / 65536) mod 256; (n / 256) mod 256; n mod 256].
Definition be32 (n : Z) : bytes :=
  [(n / 16777216) mod 256; (n / 65536) mod 256; (n / 256) mod 256; n mod 256].
Definition be64 (n : Z) : bytes := be32 (n / 4294967296) ++ be32 (n mod 4294967296).
Definition le32 (n : Z) : bytes :=
  [n mod 256; (n / 256) mod 256; (n / 65536) mod 256; (n / 16777216) mod 256].

(* data[a:b] and data[a:] with Python's clamping, for 0 <= a *)
Definition slice (l : bytes) (a b : nat) : bytes := firstn (b - a) (skipn a l).
Definition from (l : bytes) (a : nat) : bytes := skipn a l.

Definition zeros (n : nat) : bytes := repeat 0 n.

Fixpoint bytes_eqb (a b : bytes) : bool :=
  match a, b with
  | [], [] => true
  | x :: a', y :: b' => Z.eqb x y && bytes_eqb a' b'
  | _, _ => false
  end.
