(* Lemmas about Lib/CodecX.v: Python slices with non-negative indices, finite
   enumeration of byte values (for bit-mask facts), result/bind inversion. *)
From Coq Require Import ZArith List Bool Lia.
From AV Require Import Lib.Bytes Lib.BytesP Lib.CodecX.
Import ListNotations.
Local Open Scope Z_scope.

(* ---- result ---------------------------------------------------------------- *)
Definition total {T : Type} (r : result T) : Prop := (exists v, r = Ok v) \/ r = ValueErr.

Lemma bind_ok {T U : Type} (r : result T) (f : T -> result U) v :
  bind r f = Ok v -> exists a, r = Ok a /\ f a = Ok v.
Proof. destruct r; cbn [bind]; intros H; try discriminate. eauto. Qed.

Lemma total_bind {T U : Type} (r : result T) (f : T -> result U) :
  total r -> (forall a, r = Ok a -> total (f a)) -> total (bind r f).
Proof.
  intros [[v ->] | ->] H; cbn [bind]; [apply H; reflexivity | right; reflexivity].
Qed.
Lemma total_ok {T : Type} (v : T) : total (Ok v).
Proof. left. eauto. Qed.
Lemma total_valueerr {T : Type} : total (@ValueErr T).
Proof. right. reflexivity. Qed.

(* ---- len ------------------------------------------------------------------- *)
Lemma len_firstn l n : (n <= length l)%nat -> len (firstn n l) = Z.of_nat n.
Proof. intros H. unfold len. rewrite firstn_length. lia. Qed.
Lemma len_skipn l n : len (skipn n l) = len l - Z.of_nat (Nat.min n (length l)).
Proof. unfold len. rewrite skipn_length. lia. Qed.
Lemma len_length l : len l = Z.of_nat (length l).
Proof. reflexivity. Qed.

(* ---- Python slices with non-negative indices --------------------------------- *)
Lemma norm_idx_nonneg n i : 0 <= i -> norm_idx n i = Z.min i n.
Proof. intros H. unfold norm_idx. destruct (i <? 0) eqn:E; [lia | reflexivity]. Qed.

Lemma skipn_skipn {T : Type} (x y : nat) (l : list T) : skipn x (skipn y l) = skipn (x + y) l.
Proof.
  revert l. induction y as [|y IH]; intros l.
  - now rewrite Nat.add_0_r.
  - destruct l as [|a l]; [now rewrite !skipn_nil|].
    rewrite Nat.add_succ_r. cbn [skipn]. apply IH.
Qed.

Lemma firstn_ge_all {T : Type} (l : list T) n : (length l <= n)%nat -> firstn n l = l.
Proof. intros H. apply firstn_all2. exact H. Qed.

Lemma pyslice_nonneg l a b :
  0 <= a -> 0 <= b ->
  pyslice l a b = firstn (Z.to_nat b - Z.to_nat a) (skipn (Z.to_nat a) l).
Proof.
  intros Ha Hb. unfold pyslice, slice. rewrite !norm_idx_nonneg by assumption.
  assert (Hl : len l = Z.of_nat (length l)) by reflexivity.
  destruct (Z_le_gt_dec (len l) a) as [Hge | Hlt].
  - (* a beyond the end: both sides empty *)
    rewrite (skipn_all2 l (n := Z.to_nat (Z.min a (len l)))) by lia.
    rewrite (skipn_all2 l (n := Z.to_nat a)) by lia.
    now rewrite !firstn_nil.
  - replace (Z.to_nat (Z.min a (len l))) with (Z.to_nat a) by lia.
    destruct (Z_le_gt_dec b (len l)) as [Hb2 | Hb2].
    + replace (Z.to_nat (Z.min b (len l))) with (Z.to_nat b) by lia. reflexivity.
    + rewrite !firstn_ge_all; [reflexivity | |]; rewrite skipn_length; lia.
Qed.

Lemma pyfrom_nonneg l a : 0 <= a -> pyfrom l a = skipn (Z.to_nat a) l.
Proof.
  intros Ha. unfold pyfrom. rewrite norm_idx_nonneg by assumption.
  destruct (Z_le_gt_dec (len l) a) as [Hge | Hlt].
  - assert (Hl : len l = Z.of_nat (length l)) by reflexivity.
    rewrite (skipn_all2 l (n := Z.to_nat (Z.min a (len l)))) by lia.
    rewrite (skipn_all2 l (n := Z.to_nat a)) by lia. reflexivity.
  - f_equal. lia.
Qed.

Lemma pyidx_nonneg l i : 0 <= i -> pyidx l i = u8 l (Z.to_nat i).
Proof. intros H. unfold pyidx. destruct (i <? 0) eqn:E; [lia | reflexivity]. Qed.

(* data[a : a+n] inside pre ++ mid ++ post *)
Lemma pyslice_app_mid pre mid post :
  pyslice (pre ++ mid ++ post) (len pre) (len pre + len mid) = mid.
Proof.
  rewrite pyslice_nonneg by (unfold len; lia).
  unfold len. rewrite <- Nat2Z.inj_add, !Nat2Z.id.
  replace (length pre + length mid - length pre)%nat with (length mid) by lia.
  rewrite skipn_app, skipn_all, Nat.sub_diag. cbn [skipn app].
  rewrite firstn_app, firstn_all, Nat.sub_diag. cbn [firstn]. now rewrite app_nil_r.
Qed.

(* ---- finite enumeration ---------------------------------------------------- *)
Fixpoint upto (n : nat) : list Z :=
  match n with
  | O => []
  | S k => Z.of_nat k :: upto k
  end.

Lemma upto_in n x : 0 <= x < Z.of_nat n -> In x (upto n).
Proof.
  induction n as [|n IH]; intros H; [lia|].
  cbn [upto]. destruct (Z.eq_dec x (Z.of_nat n)) as [->|Hne]; [now left | right; apply IH; lia].
Qed.

Lemma range_ind (n : nat) (P : Z -> Prop) (Pb : Z -> bool) :
  (forall x, Pb x = true -> P x) -> forallb Pb (upto n) = true ->
  forall x, 0 <= x < Z.of_nat n -> P x.
Proof.
  intros HP Hall x Hx. apply HP. rewrite forallb_forall in Hall. apply Hall, upto_in, Hx.
Qed.

Lemma byte_ind (P : Z -> Prop) (Pb : Z -> bool) :
  (forall x, Pb x = true -> P x) -> forallb Pb (upto 256) = true ->
  forall x, 0 <= x < 256 -> P x.
Proof. intros HP Hall x Hx. apply (range_ind 256 P Pb HP Hall). lia. Qed.

Lemma byte2_ind (P : Z -> Z -> Prop) (Pb : Z -> Z -> bool) :
  (forall x y, Pb x y = true -> P x y) ->
  forallb (fun x => forallb (Pb x) (upto 256)) (upto 256) = true ->
  forall x y, 0 <= x < 256 -> 0 <= y < 256 -> P x y.
Proof.
  intros HP Hall x y Hx Hy. apply HP. rewrite forallb_forall in Hall.
  specialize (Hall x (upto_in 256 x ltac:(lia))). rewrite forallb_forall in Hall.
  apply Hall, upto_in. lia.
Qed.

(* enumeration of 0 <= x < n for a Z bound (no nat literal needed) *)
Fixpoint upto_aux (fuel : nat) (x : Z) : list Z :=
  match fuel with
  | O => []
  | S f => x :: upto_aux f (x + 1)
  end.
Definition uptoZ (n : Z) : list Z := upto_aux (Z.to_nat n) 0.

Lemma upto_aux_in fuel a x : a <= x < a + Z.of_nat fuel -> In x (upto_aux fuel a).
Proof.
  revert a. induction fuel as [|f IH]; intros a H; [lia|].
  cbn [upto_aux]. destruct (Z.eq_dec x a) as [->|Hne]; [now left | right; apply IH; lia].
Qed.

Lemma uptoZ_in n x : 0 <= x < n -> In x (uptoZ n).
Proof. intros H. unfold uptoZ. apply upto_aux_in. lia. Qed.

Lemma rangeZ_ind (n : Z) (P : Z -> Prop) (Pb : Z -> bool) :
  (forall x, Pb x = true -> P x) -> forallb Pb (uptoZ n) = true ->
  forall x, 0 <= x < n -> P x.
Proof.
  intros HP Hall x Hx. apply HP. rewrite forallb_forall in Hall. apply Hall, uptoZ_in, Hx.
Qed.

Lemma rangeZ2_ind (n m : Z) (P : Z -> Z -> Prop) (Pb : Z -> Z -> bool) :
  (forall x y, Pb x y = true -> P x y) ->
  forallb (fun x => forallb (Pb x) (uptoZ m)) (uptoZ n) = true ->
  forall x y, 0 <= x < n -> 0 <= y < m -> P x y.
Proof.
  intros HP Hall x y Hx Hy. apply HP. rewrite forallb_forall in Hall.
  specialize (Hall x (uptoZ_in n x Hx)). rewrite forallb_forall in Hall.
  apply Hall, uptoZ_in, Hy.
Qed.

Lemma rangeZ3_ind (n m k : Z) (P : Z -> Z -> Z -> Prop) (Pb : Z -> Z -> Z -> bool) :
  (forall x y z, Pb x y z = true -> P x y z) ->
  forallb (fun x => forallb (fun y => forallb (Pb x y) (uptoZ k)) (uptoZ m)) (uptoZ n) = true ->
  forall x y z, 0 <= x < n -> 0 <= y < m -> 0 <= z < k -> P x y z.
Proof.
  intros HP Hall x y z Hx Hy Hz. apply HP. rewrite forallb_forall in Hall.
  specialize (Hall x (uptoZ_in n x Hx)). rewrite forallb_forall in Hall.
  specialize (Hall y (uptoZ_in m y Hy)). rewrite forallb_forall in Hall.
  apply Hall, uptoZ_in, Hz.
Qed.

(* turns a hypothesis  b1 && b2 && ... = true  over Z.eqb / Z.leb / Z.ltb into the conjunction of facts *)
Ltac solve_bool_to_prop :=
  let H := fresh in
  intros; match goal with H : _ = true |- _ =>
    repeat (rewrite ?andb_true_iff, ?Z.eqb_eq, ?Z.leb_le, ?Z.ltb_lt in H); intuition
  end.
