(* S-expressions: the wire format between the Python harness and the extracted
   models.  Part of the correspondence glue (trusted, not proved). *)
From Coq Require Import ZArith List Bool.
Import ListNotations.
Local Open Scope Z_scope.

Inductive sx : Type :=
| A (z : Z)
| L (l : list sx).

Definition sx_z (s : sx) : Z := match s with A z => z | L _ => 0 end.
Definition sx_l (s : sx) : list sx := match s with A _ => [] | L l => l end.
Definition sx_zs (s : sx) : list Z := map sx_z (sx_l s).
Definition sx_b (s : sx) : bool := negb (Z.eqb (sx_z s) 0).
Definition of_zs (l : list Z) : sx := L (map A l).
Definition of_b (b : bool) : sx := A (if b then 1 else 0).
Definition of_opt {T} (f : T -> sx) (o : option T) : sx :=
  match o with None => L [] | Some x => L [f x] end.
Definition sx_opt {T} (f : sx -> T) (s : sx) : option T :=
  match s with L [x] => Some (f x) | _ => None end.
Definition sx_nth (s : sx) (n : nat) : sx := nth n (sx_l s) (L []).

(* error tag used by all models: the outcome class compared with the
   implementation's exception class *)
Definition ERR_VALUE : Z := -1.   (* ValueError *)
Definition ERR_CRASH : Z := -2.   (* any other exception *)
Definition ERR_FUEL  : Z := -3.   (* model ran out of fuel (= hang) *)
