(* Lemmas about Lib/Bytes.v: struct.pack / unpack_from round trips. *)
From Coq Require Import ZArith List Bool Lia.
From AV Require Import Lib.Bytes.
Import ListNotations.
Local Open Scope Z_scope.

Ltac Zify.zify_post_hook ::= Z.to_euclidean_division_equations.

Lemma len_app a b : len (a ++ b) = len a + len b.
Proof. unfold len. rewrite app_length. lia. Qed.
Lemma len_nonneg a : 0 <= len a.
Proof. unfold len. lia. Qed.
Lemma len_nil : len [] = 0. Proof. reflexivity. Qed.
Lemma len_cons x a : len (x :: a) = 1 + len a.
Proof. unfold len. cbn [length]. lia. Qed.

Lemma bytes_ok_app a b : bytes_ok (a ++ b) <-> bytes_ok a /\ bytes_ok b.
Proof. unfold bytes_ok. apply Forall_app. Qed.
Lemma bytes_ok_nil : bytes_ok []. Proof. constructor. Qed.
Lemma bytes_ok_cons x a : bytes_ok (x :: a) <-> byte_ok x /\ bytes_ok a.
Proof. unfold bytes_ok. split; [intros H; inversion H; auto|intros [H1 H2]; constructor; auto]. Qed.
Lemma bytes_ok_firstn n a : bytes_ok a -> bytes_ok (firstn n a).
Proof.
  unfold bytes_ok. rewrite !Forall_forall. intros H x Hin. apply H.
  rewrite <- (firstn_skipn n a). apply in_or_app. now left.
Qed.
Lemma bytes_ok_skipn n a : bytes_ok a -> bytes_ok (skipn n a).
Proof.
  unfold bytes_ok. rewrite !Forall_forall. intros H x Hin. apply H.
  rewrite <- (firstn_skipn n a). apply in_or_app. now right.
Qed.
Lemma bytes_ok_zeros n : bytes_ok (zeros n).
Proof. unfold bytes_ok, zeros. apply Forall_forall. intros x Hin. apply repeat_spec in Hin. subst. unfold byte_ok. lia. Qed.
Lemma bytes_okb_ok l : bytes_okb l = true <-> bytes_ok l.
Proof.
  unfold bytes_okb, bytes_ok. rewrite forallb_forall, Forall_forall. unfold byte_okb, byte_ok.
  split; intros H x Hin; specialize (H x Hin); lia.
Qed.

Lemma be8_ok n : bytes_ok (be8 n).
Proof. unfold be8, bytes_ok. repeat constructor; lia. Qed.
Lemma be16_ok n : bytes_ok (be16 n).
Proof. unfold be16, bytes_ok. repeat constructor; lia. Qed.
Lemma be24_ok n : bytes_ok (be24 n).
Proof. unfold be24, bytes_ok. repeat constructor; lia. Qed.
Lemma be32_ok n : bytes_ok (be32 n).
Proof. unfold be32, bytes_ok. repeat constructor; lia. Qed.
Lemma le32_ok n : bytes_ok (le32 n).
Proof. unfold le32, bytes_ok. repeat constructor; lia. Qed.
Lemma be64_ok n : bytes_ok (be64 n).
Proof. unfold be64. apply bytes_ok_app. split; apply be32_ok. Qed.

Lemma length_be8 n : length (be8 n) = 1%nat. Proof. reflexivity. Qed.
Lemma length_be16 n : length (be16 n) = 2%nat. Proof. reflexivity. Qed.
Lemma length_be24 n : length (be24 n) = 3%nat. Proof. reflexivity. Qed.
Lemma length_be32 n : length (be32 n) = 4%nat. Proof. reflexivity. Qed.
Lemma length_le32 n : length (le32 n) = 4%nat. Proof. reflexivity. Qed.
Lemma length_be64 n : length (be64 n) = 8%nat. Proof. reflexivity. Qed.

(* reading at an offset inside a concatenation *)
Lemma u8_app_r pre l i : u8 (pre ++ l) (length pre + i) = u8 l i.
Proof. unfold u8. rewrite nth_error_app2 by lia. f_equal. lia. Qed.
Lemma u8_app_l pre l i : (i < length pre)%nat -> u8 (pre ++ l) i = u8 pre i.
Proof. unfold u8. intros H. now apply nth_error_app1. Qed.
Lemma u16_app_r pre l i : u16 (pre ++ l) (length pre + i) = u16 l i.
Proof. unfold u16. rewrite plus_n_Sm, !u8_app_r. reflexivity. Qed.
Lemma u24_app_r pre l i : u24 (pre ++ l) (length pre + i) = u24 l i.
Proof. unfold u24. rewrite plus_n_Sm, u8_app_r, u16_app_r. reflexivity. Qed.
Lemma u32_app_r pre l i : u32 (pre ++ l) (length pre + i) = u32 l i.
Proof. unfold u32. rewrite !plus_n_Sm, !u16_app_r. reflexivity. Qed.
Lemma u64_app_r pre l i : u64 (pre ++ l) (length pre + i) = u64 l i.
Proof.
  unfold u64. replace (4 + (length pre + i))%nat with (length pre + (4 + i))%nat by lia.
  rewrite !u32_app_r. reflexivity.
Qed.
Lemma u32le_app_r pre l i : u32le (pre ++ l) (length pre + i) = u32le l i.
Proof.
  unfold u32le.
  replace (1 + (length pre + i))%nat with (length pre + (1 + i))%nat by lia.
  replace (2 + (length pre + i))%nat with (length pre + (2 + i))%nat by lia.
  replace (3 + (length pre + i))%nat with (length pre + (3 + i))%nat by lia.
  rewrite !u8_app_r. reflexivity.
Qed.

(* round trips at offset 0, any suffix *)
Lemma u8_be8 n post : 0 <= n < 256 -> u8 (be8 n ++ post) 0 = Some n.
Proof. intros H. cbn. f_equal. lia. Qed.
Lemma u16_be16 n post : 0 <= n < 65536 -> u16 (be16 n ++ post) 0 = Some n.
Proof. intros H. cbn. f_equal. lia. Qed.
Lemma u24_be24 n post : 0 <= n < 16777216 -> u24 (be24 n ++ post) 0 = Some n.
Proof. intros H. cbn. f_equal. lia. Qed.
Lemma u32_be32 n post : 0 <= n < 4294967296 -> u32 (be32 n ++ post) 0 = Some n.
Proof. intros H. cbn. f_equal. lia. Qed.
Lemma u32le_le32 n post : 0 <= n < 4294967296 -> u32le (le32 n ++ post) 0 = Some n.
Proof.
  intros H. cbn. f_equal.
  replace (n / 65536) with (n / 256 / 256) by (rewrite Z.div_div by lia; reflexivity).
  replace (n / 16777216) with (n / 256 / 256 / 256) by (rewrite !Z.div_div by lia; reflexivity).
  lia.
Qed.
Lemma u64_be64 n post : 0 <= n < 18446744073709551616 -> u64 (be64 n ++ post) 0 = Some n.
Proof.
  intros H. unfold u64, be64. rewrite <- app_assoc.
  rewrite u32_be32 by lia.
  change 4%nat with (length (be32 (n / 4294967296)) + 0)%nat at 1.
  rewrite u32_app_r, u32_be32 by lia. f_equal. lia.
Qed.

(* the general forms: value written after an arbitrary prefix *)
Lemma u8_at pre n post : 0 <= n < 256 -> u8 (pre ++ be8 n ++ post) (length pre) = Some n.
Proof. intros H. rewrite <- (Nat.add_0_r (length pre)), u8_app_r. now apply u8_be8. Qed.
Lemma u16_at pre n post : 0 <= n < 65536 -> u16 (pre ++ be16 n ++ post) (length pre) = Some n.
Proof. intros H. rewrite <- (Nat.add_0_r (length pre)), u16_app_r. now apply u16_be16. Qed.
Lemma u24_at pre n post : 0 <= n < 16777216 -> u24 (pre ++ be24 n ++ post) (length pre) = Some n.
Proof. intros H. rewrite <- (Nat.add_0_r (length pre)), u24_app_r. now apply u24_be24. Qed.
Lemma u32_at pre n post : 0 <= n < 4294967296 -> u32 (pre ++ be32 n ++ post) (length pre) = Some n.
Proof. intros H. rewrite <- (Nat.add_0_r (length pre)), u32_app_r. now apply u32_be32. Qed.
Lemma u32le_at pre n post : 0 <= n < 4294967296 -> u32le (pre ++ le32 n ++ post) (length pre) = Some n.
Proof. intros H. rewrite <- (Nat.add_0_r (length pre)), u32le_app_r. now apply u32le_le32. Qed.
Lemma u64_at pre n post : 0 <= n < 18446744073709551616 -> u64 (pre ++ be64 n ++ post) (length pre) = Some n.
Proof. intros H. rewrite <- (Nat.add_0_r (length pre)), u64_app_r. now apply u64_be64. Qed.

(* totality of reads inside the buffer, and ranges of the values read *)
Lemma u8_some l i : (i < length l)%nat -> exists v, u8 l i = Some v.
Proof. intros H. unfold u8. destruct (nth_error l i) eqn:E; [eauto|]. apply nth_error_None in E. lia. Qed.
Lemma u8_none l i : (length l <= i)%nat -> u8 l i = None.
Proof. intros H. unfold u8. now apply nth_error_None. Qed.
Lemma u8_range l i v : bytes_ok l -> u8 l i = Some v -> 0 <= v < 256.
Proof.
  unfold u8, bytes_ok. intros H E. apply nth_error_In in E. rewrite Forall_forall in H. apply (H v E).
Qed.
Lemma u8_lt l i v : u8 l i = Some v -> (i < length l)%nat.
Proof. unfold u8. intros E. apply nth_error_Some. congruence. Qed.
Lemma u16_some l i : (i + 2 <= length l)%nat -> exists v, u16 l i = Some v.
Proof.
  intros H. unfold u16. destruct (u8_some l i) as [a ->]; [lia|]. destruct (u8_some l (S i)) as [b ->]; [lia|]. eauto.
Qed.
Lemma u16_range l i v : bytes_ok l -> u16 l i = Some v -> 0 <= v < 65536.
Proof.
  unfold u16. intros H E. destruct (u8 l i) eqn:E1; [|discriminate]. destruct (u8 l (S i)) eqn:E2; [|discriminate].
  apply (u8_range _ _ _ H) in E1. apply (u8_range _ _ _ H) in E2. injection E as <-. lia.
Qed.
Lemma u16_lt l i v : u16 l i = Some v -> (i + 2 <= length l)%nat.
Proof.
  unfold u16. intros E. destruct (u8 l i) eqn:E1; [|discriminate]. destruct (u8 l (S i)) eqn:E2; [|discriminate].
  apply u8_lt in E2. lia.
Qed.
Lemma u32_some l i : (i + 4 <= length l)%nat -> exists v, u32 l i = Some v.
Proof.
  intros H. unfold u32. destruct (u16_some l i) as [a ->]; [lia|]. destruct (u16_some l (S (S i))) as [b ->]; [lia|]. eauto.
Qed.
Lemma u32_range l i v : bytes_ok l -> u32 l i = Some v -> 0 <= v < 4294967296.
Proof.
  unfold u32. intros H E. destruct (u16 l i) eqn:E1; [|discriminate]. destruct (u16 l (S (S i))) eqn:E2; [|discriminate].
  apply (u16_range _ _ _ H) in E1. apply (u16_range _ _ _ H) in E2. injection E as <-. lia.
Qed.
Lemma u32_lt l i v : u32 l i = Some v -> (i + 4 <= length l)%nat.
Proof.
  unfold u32. intros E. destruct (u16 l i) eqn:E1; [|discriminate]. destruct (u16 l (S (S i))) eqn:E2; [|discriminate].
  apply u16_lt in E2. lia.
Qed.

(* slices *)
Lemma slice_length l a b : length (slice l a b) = Nat.min (b - a) (length l - a).
Proof. unfold slice. rewrite firstn_length, skipn_length. reflexivity. Qed.
Lemma slice_app_mid pre mid post :
  slice (pre ++ mid ++ post) (length pre) (length pre + length mid) = mid.
Proof.
  unfold slice. rewrite skipn_app, skipn_all, Nat.sub_diag. cbn [skipn app].
  replace (length pre + length mid - length pre)%nat with (length mid) by lia.
  rewrite firstn_app, firstn_all, Nat.sub_diag. cbn [firstn]. now rewrite app_nil_r.
Qed.
Lemma from_app pre l : from (pre ++ l) (length pre) = l.
Proof. unfold from. rewrite skipn_app, skipn_all, Nat.sub_diag. reflexivity. Qed.
Lemma bytes_ok_slice l a b : bytes_ok l -> bytes_ok (slice l a b).
Proof. intros H. unfold slice. now apply bytes_ok_firstn, bytes_ok_skipn. Qed.

Lemma bytes_eqb_eq a b : bytes_eqb a b = true <-> a = b.
Proof.
  revert b. induction a as [|x a IH]; destruct b as [|y b]; cbn [bytes_eqb]; try (split; congruence).
  rewrite andb_true_iff, Z.eqb_eq, IH. split; [intros [-> ->]; reflexivity|intros [= -> ->]; auto].
Qed.
Lemma bytes_eqb_refl a : bytes_eqb a a = true.
Proof. now apply bytes_eqb_eq. Qed.
