(* Additions used by the codec models (C16 / C05 payload descriptors):
   a result type for functions that can raise, and Python slicing on Z indices. *)
From Coq Require Import ZArith List Bool.
From AV Require Import Lib.Sx Lib.Bytes.
Import ListNotations.
Local Open Scope Z_scope.

(* Ok v | ValueError | any other exception | model ran out of fuel (= hang) *)
Inductive result (A : Type) : Type :=
| Ok (a : A)
| ValueErr
| Crash
| OutOfFuel.
Arguments Ok {A} a.
Arguments ValueErr {A}.
Arguments Crash {A}.
Arguments OutOfFuel {A}.

Definition bind {A B : Type} (r : result A) (f : A -> result B) : result B :=
  match r with
  | Ok a => f a
  | ValueErr => ValueErr
  | Crash => Crash
  | OutOfFuel => OutOfFuel
  end.

Notation "x <- r ;; k" := (bind r (fun x => k))
  (at level 61, r at next level, right associativity).
Notation "' p <- r ;; k" := (bind r (fun x => let 'p := x in k))
  (at level 61, p pattern, r at next level, right associativity).

(* Python slice index normalisation for a sequence of length n:
   negative indices count from the end, everything is clamped to [0, n]. *)
Definition norm_idx (n i : Z) : Z := if i <? 0 then Z.max 0 (n + i) else Z.min i n.

(* data[a:b] and data[a:] for arbitrary integers a, b *)
Definition pyslice (l : bytes) (a b : Z) : bytes :=
  slice l (Z.to_nat (norm_idx (len l) a)) (Z.to_nat (norm_idx (len l) b)).
Definition pyfrom (l : bytes) (a : Z) : bytes :=
  skipn (Z.to_nat (norm_idx (len l) a)) l.

(* data[i] for an arbitrary integer i (IndexError = None) *)
Definition pyidx (l : bytes) (i : Z) : option Z :=
  if i <? 0 then (if len l + i <? 0 then None else u8 l (Z.to_nat (len l + i)))
  else u8 l (Z.to_nat i).

(* s-expression of a result: (0 v) or (code) *)
Definition sx_of_result {T : Type} (f : T -> sx) (r : result T) : sx :=
  match r with
  | Ok a => L [A 0; f a]
  | ValueErr => L [A ERR_VALUE]
  | Crash => L [A ERR_CRASH]
  | OutOfFuel => L [A ERR_FUEL]
  end.
