(* Proofs about Model/Close.v (property C19), part 3: reachable configurations,
   termination, progress, idempotence and "nothing left running". *)
From Coq Require Import ZArith List Bool Arith Lia.
From AV Require Import Lib.Sx Model.Close Proof.CloseP Proof.CloseInvP.
Import ListNotations.

Definition Inv (c : cfg) : Prop := inv c /\ wf_tp c.

Lemma Inv_step c e c' : Inv c -> step true c e = Some c' -> Inv c'.
Proof. intros [H1 H2] HS. split; [eapply step_inv; eauto|eapply step_wf_tp; eauto]. Qed.

Lemma Inv_run evs : forall c c', Inv c -> run true c evs = Some c' -> Inv c'.
Proof.
  induction evs as [|e evs IH]; intros c c' HI HR; cbn [run] in HR.
  - injection HR as <-. exact HI.
  - destruct (step true c e) as [c1|] eqn:HS; [|discriminate]. eapply IH; [eapply Inv_step; eauto|exact HR].
Qed.

(* initial configurations: transceivers on transports tps (ids below ntp), optional SCTP *)
Definition wf_init (tps : list nat) (ntp : nat) (sc : option nat) : Prop :=
  Forall (fun t => t < ntp) tps /\ match sc with Some t => t < ntp | None => True end.

Lemma Inv_init tps ntp sc : wf_init tps ntp sc -> Inv (init tps ntp sc).
Proof.
  intros [H1 H2]. split.
  - unfold init. split; [|split; [|split; [|split]]].
    + intros i x. cbn [c_trx]. rewrite nth_error_map. destruct (nth_error tps i); cbn; [|discriminate].
      intros H; injection H as <-. unfold comp_ok, unstarted_ok, trx0. cbn. repeat split; auto; discriminate.
    + cbn. discriminate.
    + exact I.
    + intros t tp. cbn [c_tps]. intros Hn. apply nth_error_In in Hn. apply repeat_spec in Hn. subst.
      intros Hc. discriminate Hc.
    + intros Hc. cbn in Hc. congruence.
  - unfold wf_tp, shape_wf, shape, init. cbn [c_trx c_tps c_sctp fst snd].
    rewrite map_map. cbn [t_tp trx0]. rewrite map_id, repeat_length. split; [exact H1|].
    destruct sc; cbn; auto.
Qed.

Definition reachable (c : cfg) : Prop :=
  exists tps ntp sc evs, wf_init tps ntp sc /\ run true (init tps ntp sc) evs = Some c.

Lemma reachable_Inv c : reachable c -> Inv c.
Proof. intros (tps & ntp & sc & evs & Hw & HR). eapply Inv_run; [apply Inv_init; exact Hw|exact HR]. Qed.

(* ------------------------------------------------------------------ the __isClosed future only moves forward *)
Lemma closed_set_sub c s : c_closed (set_sub c s) = c_closed c.
Proof. unfold set_sub. destruct (c_main c) as [[[? ?] ?]|]; reflexivity. Qed.

Lemma step_closed fx c e c' :
  step fx c e = Some c' ->
  c_closed c' = c_closed c \/ (c_closed c = FNone /\ c_closed c' = FPending) \/
  c_closed c' = FDone.
Proof.
  intros HS. destruct e; cbn [step] in HS.
  all: try (inv_step HS; rewrite ?closed_set_sub; auto; fail).
  - (* EStopCall *) inv_step HS. unfold stop_call in HS. destruct o; inv_step HS; rewrite closed_set_sub; auto.
  - (* EStopRet *) inv_step HS. unfold pop_main in HS. inv_step HS. auto.
  - (* ECancel *) unfold do_cancel in HS. inv_step HS; rewrite closed_set_sub; auto.
Qed.

Lemma step_closed_nn fx c e c' : step fx c e = Some c' -> c_closed c <> FNone -> c_closed c' <> FNone.
Proof. intros HS H. destruct (step_closed _ _ _ _ HS) as [-> | [[H1 _] | ->]]; congruence. Qed.

Lemma step_closed_done fx c e c' : step fx c e = Some c' -> c_closed c = FDone -> c_closed c' = FDone.
Proof. intros HS H. destruct (step_closed _ _ _ _ HS) as [-> | [[H1 _] | ->]]; congruence. Qed.

Lemma run_closed_done fx evs : forall c c', run fx c evs = Some c' -> c_closed c = FDone -> c_closed c' = FDone.
Proof.
  induction evs as [|e evs IH]; intros c c' HR H; cbn [run] in HR.
  - injection HR as <-. exact H.
  - destruct (step fx c e) as [c1|] eqn:HS; [|discriminate]. eapply IH; eauto using step_closed_done.
Qed.

(* ------------------------------------------------------------------ termination *)
Lemma measure_zero c : inv c -> c_closed c <> FNone -> measure c = 0 -> c_closed c = FDone.
Proof.
  intros (_ & HB & _) Hn Hm. unfold measure in Hm. unfold fut_ok in HB.
  destruct (c_main c) as [[[id todo] s]|].
  - destruct todo; lia.
  - destruct (c_closed c); congruence.
Qed.

Lemma terminates evs : forall c c',
  Inv c -> c_closed c <> FNone -> run true c evs = Some c' ->
  measure c <= helped true c evs -> c_closed c' = FDone.
Proof.
  induction evs as [|e evs IH]; intros c c' HI Hn HR Hm; cbn [run helped] in *.
  - injection HR as <-. apply measure_zero; [exact (proj1 HI)|exact Hn|lia].
  - destruct (step true c e) as [c1|] eqn:HS; [|discriminate].
    destruct (step_measure _ _ _ HS Hn (inv_wfA _ (proj1 HI))) as [Hle Hlt].
    apply (IH c1 c'); [eapply Inv_step; eauto|eapply step_closed_nn; eauto|exact HR|].
    destruct (helps c e); [specialize (Hlt eq_refl); lia|lia].
Qed.

(* the measure is linear in the size of the connection *)
Lemma sum_cost_app a b : sum_cost (a ++ b) = sum_cost a + sum_cost b.
Proof. unfold sum_cost. induction a as [|o a IH]; cbn [app fold_right]; [reflexivity|]. rewrite IH. lia. Qed.
Lemma sum_cost_plan_trx l k : sum_cost (plan_trx l k) = 13 * length l.
Proof. revert k. induction l as [|x l IH]; intros k; cbn [plan_trx length]; [reflexivity|].
  unfold sum_cost in *. cbn [fold_right op_cost]. rewrite IH. lia. Qed.
Lemma sum_cost_plan_tps l : sum_cost (plan_tps l) = 7 * length l.
Proof. induction l as [|x l IH]; cbn [plan_tps length]; [reflexivity|].
  unfold sum_cost in *. cbn [fold_right op_cost]. rewrite IH. lia. Qed.

Lemma residual_le_cost c o s : residual c o s <= op_cost o.
Proof.
  unfold residual. destruct s, o; cbn [op_cost]; try lia.
  all: match goal with |- context [nth_error ?l ?i] => destruct (nth_error l i) as [x|]; [|lia] end.
  all: unfold begin_cost, end_cost, mon_cost.
  all: repeat match goal with |- context [match ?x with _ => _ end] => destruct x end; lia.
Qed.

Lemma measure_close_call c id :
  measure (mkCfg (c_trx c) (c_tps c) (c_sctp c) FPending (Some (id, plan c, SIdle)) (c_waiters c) true)
  <= 20 * length (c_trx c) + 10.
Proof.
  unfold measure. cbn [c_main].
  assert (H : sum_cost (plan c) <= 20 * length (c_trx c) + 9).
  { unfold plan. rewrite !sum_cost_app, sum_cost_plan_trx, sum_cost_plan_tps.
    destruct (c_sctp c); unfold sum_cost; cbn; lia. }
  destruct (plan c) as [|o todo] eqn:Ep; [lia|].
  cbn [residual]. unfold sum_cost in *. cbn [fold_right] in H. lia.
Qed.

(* ------------------------------------------------------------------ idempotence *)
Lemma second_close_call fx c id :
  c_closed c <> FNone ->
  step fx c (ECloseCall id) =
  Some (mkCfg (c_trx c) (c_tps c) (c_sctp c) (c_closed c) (c_main c) (id :: c_waiters c) (c_sig_closed c)).
Proof. intros H. cbn [step]. destruct (c_closed c); congruence. Qed.

Lemma filter_notin id l : ~ In id l -> filter (fun x => negb (Nat.eqb id x)) l = l.
Proof.
  induction l as [|y l IH]; cbn [filter In]; intros H; [reflexivity|].
  destruct (Nat.eqb_spec id y) as [->|Hne]; [exfalso; auto|]. cbn. rewrite IH; auto.
Qed.

Lemma second_close_ret fx c id :
  c_closed c = FDone -> c_main c = None -> ~ In id (c_waiters c) ->
  step fx (mkCfg (c_trx c) (c_tps c) (c_sctp c) (c_closed c) (c_main c) (id :: c_waiters c) (c_sig_closed c))
       (ECloseRet id) = Some c.
Proof.
  intros Hd Hm Hni. cbn [step c_main c_closed c_waiters]. rewrite Hm, Hd. cbn [existsb].
  rewrite Nat.eqb_refl. cbn [orb filter negb]. rewrite filter_notin by exact Hni.
  destruct c; cbn in *; subst; rewrite ?Nat.eqb_refl; reflexivity.
Qed.

(* ------------------------------------------------------------------ after close() has returned *)
Lemma done_main c : inv c -> c_closed c = FDone -> c_main c = None.
Proof. intros (_ & HB & _) Hd. unfold fut_ok in HB. destruct (c_main c); [congruence|reflexivity]. Qed.

Lemma closed_quiet c :
  Inv c -> c_closed c = FDone ->
  c_sig_closed c = true /\
  (forall i x, nth_error (c_trx c) i = Some x ->
     squiet (t_s x) /\ rquiet (t_r x) /\
     forall tp, nth_error (c_tps c) (t_tp x) = Some tp -> iquiet tp) /\
  (forall sc, c_sctp c = Some sc ->
     scquiet sc /\ forall tp, nth_error (c_tps c) (sc_tp sc) = Some tp -> iquiet tp).
Proof.
  intros [HI HW] Hd. pose proof (done_main _ HI Hd) as Hm.
  destruct HI as (HA & HB & HC & HD & HE).
  assert (Hn : c_closed c <> FNone) by congruence.
  destruct (HE Hn) as [Hs Hp]. split; [exact Hs|].
  assert (Hpost : forall o, In o (plan c) -> post c o).
  { intros o Ho. destruct (Hp o Ho) as [Hin|H]; [|exact H]. unfold todo_of in Hin. rewrite Hm in Hin. destruct Hin. }
  split.
  - intros i x Hx. destruct (plan_trx_in (c_trx c) 0 i x Hx) as [H1 H2]. cbn [Nat.add] in H1, H2.
    destruct (plan_tps_in (c_trx c) i x Hx) as [_ H4].
    split; [|split].
    + apply (Hpost (OSendStop i)); [unfold plan; apply in_or_app; left; exact H2|exact Hx].
    + apply (Hpost (ORecvStop i)); [unfold plan; apply in_or_app; left; exact H1|exact Hx].
    + intros tp Htp. apply (Hpost (OIceStop (t_tp x))); [|exact Htp].
      unfold plan. apply in_or_app; right. apply in_or_app; right. apply in_or_app; left. exact H4.
  - intros sc Hsc. split.
    + apply (Hpost OSctpStop); [|exact Hsc]. unfold plan. rewrite Hsc.
      apply in_or_app; right. apply in_or_app; left. left. reflexivity.
    + intros tp Htp. apply (Hpost (OIceStop (sc_tp sc))); [|exact Htp]. unfold plan. rewrite Hsc.
      apply in_or_app; right. apply in_or_app; right. apply in_or_app; right. right. left. reflexivity.
Qed.

(* ------------------------------------------------------------------ progress *)
Lemma not_none_some {A} (o : option A) : o <> None -> exists x, o = Some x.
Proof. destruct o; [eauto|congruence]. Qed.

(* close() is never stuck: while it has not returned, the close() coroutine itself or the party it
   is waiting for has an enabled step *)
Lemma progress c :
  Inv c -> c_main c <> None -> exists e c', helps c e = true /\ step true c e = Some c'.
Proof.
  intros [HI HW] Hm. pose proof HI as (HA & HB & HC & HD & HE).
  destruct (c_main c) as [[[id todo] s]|] eqn:Em; [|congruence]. clear Hm.
  unfold main_ok in HC. rewrite Em in HC.
  destruct todo as [|o todo].
  { subst s. exists (ECloseRet id). eexists. split; [unfold helps; rewrite Em; apply Nat.eqb_refl|].
    cbn [step]. rewrite Em, Nat.eqb_refl. reflexivity. }
  destruct HC as [[Hv Hp] Hf]. pose proof (main_head _ _ _ _ _ Em) as Hh.
  assert (Hret : stop_ret c o s = true -> exists e c', helps c e = true /\ step true c e = Some c').
  { intros Hr. exists (EStopRet o). eexists. split; [unfold helps; rewrite Em; reflexivity|].
    cbn [step]. rewrite Hh, op_eqb_refl, Hr. cbn [andb]. unfold pop_main. rewrite Em. reflexivity. }
  assert (Hcall : s = SIdle -> exists e c', helps c e = true /\ step true c e = Some c').
  { intros ->. exists (EStopCall o).
    assert (Hs : exists c', stop_call true c o = Some c').
    { unfold stop_call. destruct o; cbn [op_valid] in Hv; apply not_none_some in Hv; destruct Hv as [y Hy]; rewrite Hy.
      - destruct (r_started (t_r y)); eauto.
      - eauto.
      - eauto.
      - eauto.
      - destruct (i_state y); eauto. }
    destruct Hs as [c' Hs]. exists c'. split; [unfold helps; rewrite Em; reflexivity|].
    cbn [step]. rewrite Hh, op_eqb_refl. exact Hs. }
  destruct o.
  - (* receiver *)
    cbn [op_valid] in Hv. apply not_none_some in Hv. destruct Hv as [x Hx]. specialize (Hp x Hx).
    destruct (HA _ _ Hx) as ((U1 & U2) & S1 & R1 & F1 & F2 & F3 & G1).
    destruct s; cbn [recv_pc] in Hp; try contradiction; try (apply Hcall; reflexivity).
    + apply Hret. reflexivity.
    + destruct Hp as (P1 & P2 & P3). specialize (R1 P1).
      destruct (r_rtcp (t_r x)) eqn:Er; try congruence.
      * exists (ETaskBegin KRRtcp i). eexists. split; [unfold helps; rewrite Em; cbn; apply Nat.eqb_refl|].
        cbn [step]. rewrite Hx, Er. reflexivity.
      * exists (ECancel KRRtcp i). eexists. split; [unfold helps; rewrite Em; reflexivity|].
        cbn [step]. unfold do_cancel. rewrite Hh, Nat.eqb_refl, Hx, Er. cbn. reflexivity.
      * exists (ECancel KRRtcp i). eexists. split; [unfold helps; rewrite Em; reflexivity|].
        cbn [step]. unfold do_cancel. rewrite Hh, Nat.eqb_refl, Hx, Er. cbn. reflexivity.
      * exists (ECancel KRRtcp i). eexists. split; [unfold helps; rewrite Em; reflexivity|].
        cbn [step]. unfold do_cancel. rewrite Hh, Nat.eqb_refl, Hx, Er. cbn. reflexivity.
    + destruct Hp as ([P1|P1] & P2 & P3).
      * exists (ETaskEnd KRRtcp i true). eexists. split; [unfold helps; rewrite Em; cbn; apply Nat.eqb_refl|].
        cbn [step]. rewrite Hx, P1. cbn. reflexivity.
      * apply Hret. cbn. rewrite Hx, P1. reflexivity.
  - (* sender *)
    cbn [op_valid] in Hv. apply not_none_some in Hv. destruct Hv as [x Hx]. specialize (Hp x Hx).
    destruct (HA _ _ Hx) as ((U1 & U2) & S1 & R1 & F1 & F2 & F3 & G1).
    destruct s; cbn [send_pc] in Hp; try contradiction; try (apply Hcall; reflexivity).
    + apply Hret. reflexivity.
    + destruct (S1 Hp) as [N1 N2].
      destruct (s_rtp (t_s x)) eqn:Er; try congruence.
      * exists (ETaskBegin KSRtp i). eexists. split; [unfold helps; rewrite Em; cbn; apply Nat.eqb_refl|].
        cbn [step]. rewrite Hx, Er. reflexivity.
      * destruct (s_rtcp (t_s x)) eqn:Er2; try congruence.
        -- exists (ETaskBegin KSRtcp i). eexists. split; [unfold helps; rewrite Em; cbn; apply Nat.eqb_refl|].
           cbn [step]. rewrite Hx, Er2. reflexivity.
        -- exists (ECancel KSRtp i). eexists. split; [unfold helps; rewrite Em; reflexivity|].
           cbn [step]. unfold do_cancel. rewrite Hh, Nat.eqb_refl, Hx, Er, Er2. cbn. reflexivity.
        -- exists (ECancel KSRtp i). eexists. split; [unfold helps; rewrite Em; reflexivity|].
           cbn [step]. unfold do_cancel. rewrite Hh, Nat.eqb_refl, Hx, Er, Er2. cbn. reflexivity.
        -- exists (ECancel KSRtp i). eexists. split; [unfold helps; rewrite Em; reflexivity|].
           cbn [step]. unfold do_cancel. rewrite Hh, Nat.eqb_refl, Hx, Er, Er2. cbn. reflexivity.
      * destruct (s_rtcp (t_s x)) eqn:Er2; try congruence.
        -- exists (ETaskBegin KSRtcp i). eexists. split; [unfold helps; rewrite Em; cbn; apply Nat.eqb_refl|].
           cbn [step]. rewrite Hx, Er2. reflexivity.
        -- exists (ECancel KSRtp i). eexists. split; [unfold helps; rewrite Em; reflexivity|].
           cbn [step]. unfold do_cancel. rewrite Hh, Nat.eqb_refl, Hx, Er, Er2. cbn. reflexivity.
        -- exists (ECancel KSRtp i). eexists. split; [unfold helps; rewrite Em; reflexivity|].
           cbn [step]. unfold do_cancel. rewrite Hh, Nat.eqb_refl, Hx, Er, Er2. cbn. reflexivity.
        -- exists (ECancel KSRtp i). eexists. split; [unfold helps; rewrite Em; reflexivity|].
           cbn [step]. unfold do_cancel. rewrite Hh, Nat.eqb_refl, Hx, Er, Er2. cbn. reflexivity.
      * destruct (s_rtcp (t_s x)) eqn:Er2; try congruence.
        -- exists (ETaskBegin KSRtcp i). eexists. split; [unfold helps; rewrite Em; cbn; apply Nat.eqb_refl|].
           cbn [step]. rewrite Hx, Er2. reflexivity.
        -- exists (ECancel KSRtp i). eexists. split; [unfold helps; rewrite Em; reflexivity|].
           cbn [step]. unfold do_cancel. rewrite Hh, Nat.eqb_refl, Hx, Er, Er2. cbn. reflexivity.
        -- exists (ECancel KSRtp i). eexists. split; [unfold helps; rewrite Em; reflexivity|].
           cbn [step]. unfold do_cancel. rewrite Hh, Nat.eqb_refl, Hx, Er, Er2. cbn. reflexivity.
        -- exists (ECancel KSRtp i). eexists. split; [unfold helps; rewrite Em; reflexivity|].
           cbn [step]. unfold do_cancel. rewrite Hh, Nat.eqb_refl, Hx, Er, Er2. cbn. reflexivity.
    + exists (ECancel KSRtcp i). eexists. split; [unfold helps; rewrite Em; reflexivity|].
      cbn [step]. unfold do_cancel. rewrite Hh, Nat.eqb_refl, Hx. reflexivity.
    + destruct Hp as ([P1|P1] & [P2|P2]).
      * exists (ETaskEnd KSRtp i true). eexists. split; [unfold helps; rewrite Em; cbn; apply Nat.eqb_refl|].
        cbn [step]. rewrite Hx, P1. cbn. reflexivity.
      * exists (ETaskEnd KSRtp i true). eexists. split; [unfold helps; rewrite Em; cbn; apply Nat.eqb_refl|].
        cbn [step]. rewrite Hx, P1. cbn. reflexivity.
      * exists (ETaskEnd KSRtcp i true). eexists. split; [unfold helps; rewrite Em; cbn; apply Nat.eqb_refl|].
        cbn [step]. rewrite Hx, P2. cbn. reflexivity.
      * apply Hret. cbn. rewrite Hx, P1, P2. reflexivity.
  - (* sctp *)
    destruct s; try (cbn [op_valid] in Hv; apply not_none_some in Hv; destruct Hv as [x Hx];
                     specialize (Hp x Hx); cbn [sctp_pc] in Hp; contradiction); try (apply Hcall; reflexivity).
    apply Hret. reflexivity.
  - (* dtls *)
    destruct s; cbn [dtls_pc] in Hp; try contradiction; try (apply Hcall; reflexivity).
    + apply Hret. reflexivity.
    + cbn [op_valid] in Hv. apply not_none_some in Hv. destruct Hv as [x Hx].
      exists (ECancel KPump t). eexists. split; [unfold helps; rewrite Em; reflexivity|].
      cbn [step]. unfold do_cancel. rewrite Hh, Nat.eqb_refl, Hx. reflexivity.
  - (* ice *)
    cbn [op_valid] in Hv. apply not_none_some in Hv. destruct Hv as [x Hx]. specialize (Hp x Hx).
    destruct s; cbn [ice_pc] in Hp; try contradiction; try (apply Hcall; reflexivity).
    + apply Hret. reflexivity.
    + exists (EIceConnClosed t). eexists. split; [unfold helps; rewrite Em; reflexivity|].
      cbn [step]. rewrite Hh, Nat.eqb_refl, Hx. reflexivity.
    + destruct Hp as [P1 P2]. pose proof (HD t x Hx P1) as [_ Hor]. rewrite Hh in Hor.
      destruct Hor as [Hxx|(Q1 & Q2 & _)]; [discriminate|].
      destruct (i_mon x) eqn:Emon; try congruence.
      * exists (EMonEnd t). eexists. split; [unfold helps; rewrite Em; apply Nat.eqb_refl|].
        cbn [step]. rewrite Hx, Emon, Q1. reflexivity.
      * apply Hret. cbn. rewrite Hx, Emon. reflexivity.
Qed.
