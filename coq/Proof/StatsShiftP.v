(* Proofs about Model/Stats.v, part 4 (for C17): the statistics do not depend on the origin
   of the sequence numbers (mod 2^16) nor on the origin of the RTP timestamps (mod 2^32). *)
From Coq Require Import ZArith List Bool Lia.
From AV Require Import Lib.Bytes Lib.BytesP Gen.Utils Gen.RtpConst Model.Stats
  Proof.StatsP Proof.StatsRunP Proof.StatsMainP.
Import ListNotations.
Local Open Scope Z_scope.

Ltac Zify.zify_post_hook ::= Z.to_euclidean_division_equations.

(* wire ranges of sequence number and timestamp *)
Definition ev_ok2 (e : ev) : Prop :=
  match e with
  | Rtp seq ts _ => 0 <= seq < 65536 /\ 0 <= ts < 4294967296
  | _ => True
  end.

Definition shift_ev (d16 d32 : Z) (e : ev) : ev :=
  match e with
  | Rtp seq ts arr => Rtp (uint16_add seq d16) (uint32_add ts d32) arr
  | _ => e
  end.

(* by how much the first sequence number moves (d16 mod 2^16, or that minus 2^16) *)
Definition shift_of (d16 : Z) (h : list pkt) : Z :=
  match h with [] => 0 | p :: _ => uint16_add (p_seq p) d16 - p_seq p end.

Definition info_shifted (k : Z) (i i' : rinfo) : Prop :=
  ri_ssrc i' = ri_ssrc i /\ ri_fraction i' = ri_fraction i /\ ri_lost i' = ri_lost i /\
  ri_highest i' = (ri_highest i + k) mod 4294967296 /\
  ri_jitter i' = ri_jitter i /\ ri_lsr i' = ri_lsr i /\ ri_dlsr i' = ri_dlsr i.

Definition out_shifted (k : Z) (o o' : out) : Prop :=
  match o, o' with
  | ONone, ONone => True
  | ONoReport, ONoReport => True
  | OProbe v, OProbe v' => v = v' /\ v <> Crash     (* expected, lost, jitter, received *)
  | OReport i _, OReport i' _ => info_shifted k i i'
  | _, _ => False
  end.

(* ------------------------------------------------------------------ arithmetic *)
Lemma gt_shift a m d :
  0 <= a < 65536 -> 0 <= m < 65536 ->
  uint16_gt ((a + d) mod 65536) ((m + d) mod 65536) = uint16_gt a m /\
  ((a + d) mod 65536 - (m + d) mod 65536) mod 65536 = (a - m) mod 65536.
Proof.
  intros Ha Hm.
  assert (H : ((a + d) mod 65536 - (m + d) mod 65536) mod 65536 = (a - m) mod 65536).
  { rewrite <- Zminus_mod. f_equal. lia. }
  split; [|exact H]. rewrite !uint16_gt_spec by lia. rewrite H. reflexivity.
Qed.

Lemma eqb_shift a b d :
  0 <= a < 4294967296 -> 0 <= b < 4294967296 ->
  ((a + d) mod 4294967296 =? (b + d) mod 4294967296) = (a =? b).
Proof.
  intros Ha Hb. destruct (a =? b) eqn:E.
  - apply Z.eqb_eq in E. subst. apply Z.eqb_refl.
  - apply Z.eqb_neq in E. apply Z.eqb_neq. lia.
Qed.

Lemma dist32_congr x y : x mod 4294967296 = y mod 4294967296 -> dist32 x = dist32 y.
Proof. intros H. unfold dist32. rewrite H. reflexivity. Qed.

Lemma new_jit_shift J la lt ts arr d :
  0 <= lt < 4294967296 -> 0 <= ts < 4294967296 ->
  new_jit J la ((lt + d) mod 4294967296) ((ts + d) mod 4294967296) arr = new_jit J la lt ts arr.
Proof.
  intros Hlt Hts. unfold new_jit. rewrite eqb_shift by assumption.
  destruct (ts =? lt); [reflexivity|]. f_equal. f_equal.
  apply dist32_congr. lia.
Qed.

(* ------------------------------------------------------------------ simulation relation *)
Definition sim_stats (k d16 d32 : Z) (s s' : stats) : Prop :=
  exists b m la lt b' m',
    est s b m la lt /\ est s' b' m' la ((lt + d32) mod 4294967296) /\
    0 <= lt < 4294967296 /\
    b' - b = k /\
    m' = (m + d16) mod 65536 /\
    cycles s' + m' - b' = cycles s + m - b /\
    packets_received s' = packets_received s /\
    jitter_q4 s' = jitter_q4 s /\
    expected_prior s' = expected_prior s /\
    received_prior s' = received_prior s.

Definition sim (k d16 d32 : Z) (r r' : recv) : Prop :=
  lsr r' = lsr r /\ lsr_time r' = lsr_time r /\
  match stream r, stream r' with
  | None, None => True
  | Some s, Some s' => sim_stats k d16 d32 s s'
  | _, _ => False
  end.

(* before the first packet, k must be the shift of the first packet to come *)
Definition kfix (k d16 : Z) (r : recv) (evs : list ev) : Prop :=
  stream r = None -> match pkts evs with [] => True | p :: _ => k = uint16_add (p_seq p) d16 - p_seq p end.

Lemma step_sim S rs k d16 d32 r r' e evs :
  sim k d16 d32 r r' -> ev_ok2 e -> kfix k d16 r (e :: evs) ->
  sim k d16 d32 (fst (step S rs r e)) (fst (step S rs r' (shift_ev d16 d32 e))) /\
  out_shifted k (snd (step S rs r e)) (snd (step S rs r' (shift_ev d16 d32 e))) /\
  kfix k d16 (fst (step S rs r e)) evs.
Proof.
  intros (Hl & Hlt & Hst) Hok Hk.
  destruct e as [seq ts arr|ssrc ntp now|now|]; cbn [shift_ev].
  - (* RTP *)
    destruct Hok as [Hseq Hts]. rewrite uint16_add_mod, uint32_add_mod.
    destruct (stream r) as [s|] eqn:Hs; destruct (stream r') as [s'|] eqn:Hs'; try contradiction.
    + destruct Hst as (b & m & la & lt & b' & m' & He & He' & Rlt & Hkb & Hm' & Hext & Hr & HJ & Hep & Hrp).
      assert (Hseq' : 0 <= (seq + d16) mod 65536 < 65536) by lia.
      destruct (step_rtp_est S rs r s b m la lt seq ts arr Hs He Hseq)
        as (s1 & Hstep & Hr1 & Hep1 & Hrp1 & Hc).
      destruct (step_rtp_est S rs r' s' b' m' la _ _ ((ts + d32) mod 4294967296) arr Hs' He' Hseq')
        as (s1' & Hstep' & Hr1' & Hep1' & Hrp1' & Hc').
      rewrite Hstep, Hstep'. cbn [fst snd out_shifted].
      split; [|split; [exact I|intros Hn; discriminate Hn]].
      split; [exact Hl|]. split; [exact Hlt|]. cbn [stream].
      destruct (gt_shift seq m d16 Hseq (e_m _ _ _ _ _ He)) as [Hgt Hstepeq].
      rewrite Hm', Hgt in Hc'. rewrite <- Hm' in Hc'.
      destruct (uint16_gt seq m).
      * destruct Hc as (He1 & Hc1 & Hj1). destruct Hc' as (He1' & Hc1' & Hj1').
        exists b, seq, arr, ts, b', ((seq + d16) mod 65536).
        split; [exact He1|]. split; [exact He1'|]. split; [exact Hts|]. split; [exact Hkb|].
        split; [reflexivity|]. rewrite Hm', Hstepeq in Hc1'.
        split; [lia|]. split; [lia|].
        split; [rewrite Hj1, Hj1', HJ; apply new_jit_shift; assumption|]. split; lia.
      * destruct Hc as (He1 & Hc1 & Hj1). destruct Hc' as (He1' & Hc1' & Hj1').
        exists b, m, la, lt, b', m'.
        split; [exact He1|]. split; [exact He1'|]. split; [exact Rlt|]. split; [exact Hkb|].
        split; [exact Hm'|]. split; [lia|]. split; [lia|]. split; [lia|]. split; lia.
    + (* first packet *)
      cbn [step]. rewrite Hs, Hs', !add_init. cbn [fst snd out_shifted].
      split; [|split; [exact I|intros Hn; discriminate Hn]].
      split; [exact Hl|]. split; [exact Hlt|]. cbn [stream].
      specialize (Hk Hs). cbn [pkts p_seq fst] in Hk. rewrite uint16_add_mod in Hk.
      exists seq, seq, arr, ts, ((seq + d16) mod 65536), ((seq + d16) mod 65536).
      split; [apply est_first; exact Hseq|]. split; [apply est_first; lia|].
      split; [exact Hts|]. split; [lia|]. split; [reflexivity|]. proj. repeat split; lia.
  - (* SR *)
    cbn [step]. destruct (ssrc =? S); cbn [fst snd out_shifted].
    + split; [|split; [exact I|exact Hk]]. split; [reflexivity|]. split; [reflexivity|]. exact Hst.
    + split; [|split; [exact I|exact Hk]]. split; [exact Hl|]. split; [exact Hlt|]. exact Hst.
  - (* report *)
    destruct (stream r) as [s|] eqn:Hs; destruct (stream r') as [s'|] eqn:Hs'; try contradiction.
    + destruct Hst as (b & m & la & lt & b' & m' & He & He' & Rlt & Hkb & Hm' & Hext & Hr & HJ & Hep & Hrp).
      cbn [step]. rewrite (report_est S rs r s b m la lt now Hs He).
      rewrite (report_est S rs r' s' b' m' la _ now Hs' He'). cbn [fst snd out_shifted].
      destruct (fraction_lost_est s b m la lt He) as (_ & He1 & _).
      destruct (fraction_lost_est s' b' m' la _ He') as (_ & He1' & _). cbv zeta in He1, He1'.
      split; [|split].
      * split; [exact Hl|]. split; [exact Hlt|]. cbn [stream].
        exists b, m, la, lt, b', m'. split; [exact He1|]. split; [exact He1'|].
        split; [exact Rlt|]. split; [exact Hkb|]. split; [exact Hm'|].
        unfold with_priors. proj. repeat split; lia.
      * unfold info_shifted, report_info. cbv zeta.
        cbn [ri_ssrc ri_fraction ri_lost ri_highest ri_jitter ri_lsr ri_dlsr].
        assert (Hld : lsr_dlsr r' now = lsr_dlsr r now) by (unfold lsr_dlsr; rewrite Hl, Hlt; reflexivity).
        rewrite Hld, Hr, HJ, Hep, Hrp.
        replace (cycles s' + m' - b' + 1) with (cycles s + m - b + 1) by lia.
        split; [reflexivity|]. split; [reflexivity|]. split; [reflexivity|].
        split; [|repeat split; reflexivity].
        rewrite Zplus_mod_idemp_l. f_equal. lia.
      * intros Hn. discriminate Hn.
    + cbn [step]. unfold report. rewrite Hs, Hs'. cbn [fst snd out_shifted].
      split; [|split; [exact I|exact Hk]]. split; [exact Hl|]. split; [exact Hlt|]. rewrite Hs, Hs'. exact I.
  - (* probe *)
    cbn [step fst snd]. split; [split; [exact Hl|split; [exact Hlt|exact Hst]]|]. split; [|exact Hk].
    unfold probe. destruct (stream r) as [s|] eqn:Hs; destruct (stream r') as [s'|] eqn:Hs'; try contradiction.
    + destruct Hst as (b & m & la & lt & b' & m' & He & He' & Rlt & Hkb & Hm' & Hext & Hr & HJ & Hep & Hrp).
      rewrite (packets_expected_est _ _ _ _ _ He), (packets_lost_est _ _ _ _ _ He).
      rewrite (packets_expected_est _ _ _ _ _ He'), (packets_lost_est _ _ _ _ _ He').
      cbn [out_shifted]. unfold jitter. rewrite Hr, HJ.
      replace (cycles s' + m' - b' + 1) with (cycles s + m - b + 1) by lia.
      split; [reflexivity|discriminate].
    + cbn [out_shifted]. split; [reflexivity|discriminate].
Qed.

Lemma run_sim S rs k d16 d32 : forall evs r r',
  sim k d16 d32 r r' -> Forall ev_ok2 evs -> kfix k d16 r evs ->
  Forall2 (out_shifted k) (snd (run S rs r evs)) (snd (run S rs r' (map (shift_ev d16 d32) evs))).
Proof.
  induction evs as [|e evs IH]; intros r r' Hsim Hok Hk; [constructor|].
  inversion Hok as [|? ? Hok1 Hok2]; subst. cbn [map]. rewrite !run_cons_snd.
  destruct (step_sim S rs k d16 d32 r r' e evs Hsim Hok1 Hk) as (Hsim1 & Hout & Hk1).
  constructor; [exact Hout|]. apply IH; assumption.
Qed.

Lemma shift_main S rs d16 d32 evs :
  Forall ev_ok2 evs ->
  Forall2 (out_shifted (shift_of d16 (pkts evs)))
          (snd (run S rs recv0 evs))
          (snd (run S rs recv0 (map (shift_ev d16 d32) evs))).
Proof.
  intros Hok. apply run_sim; [|exact Hok|].
  - split; [reflexivity|]. split; [reflexivity|]. exact I.
  - intros _. unfold shift_of. destruct (pkts evs); [exact I|reflexivity].
Qed.

(* the possible values of the shift of the extended numbering *)
Lemma shift_of_values d16 h :
  Forall (fun p => 0 <= p_seq p < 65536) h -> h <> [] ->
  shift_of d16 h = d16 mod 65536 \/ shift_of d16 h = d16 mod 65536 - 65536.
Proof.
  intros Hh Hne. destruct h as [|p l]; [contradiction|]. inversion Hh; subst.
  unfold shift_of. rewrite uint16_add_mod. lia.
Qed.
