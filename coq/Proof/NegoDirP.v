(* Complementary current directions after an exchange between well-formed connections (C03). *)
From Coq Require Import ZArith List Bool Lia.
From AV Require Import Model.Nego Proof.NegoP Proof.NegoExP Proof.NegoWfP.
Import ListNotations.
Local Open Scope Z_scope.

Definition dir_rel (t t' : transceiver) : Prop :=
  tinfo t' = tinfo t /\
  (forall o d, t_offerDirection t = Some o -> and_direction (Some (t_direction t)) (Some o) = Ok d ->
               t_currentDirection t' = Some d).

Lemma local_directions_rel : forall trs trs', local_directions true trs = Ok trs' -> Forall2 dir_rel trs trs'.
Proof.
  induction trs as [|t ts IH]; intros trs' H; cbn [local_directions] in H.
  - inversion H; subst. constructor.
  - bind_inv H t' Ht'. bind_inv H ts' Hts'. inversion H; subst. constructor; [|apply IH; exact Hts'].
    destruct (t_offerDirection t) as [o|] eqn:Eo.
    + bind_inv Ht' d Hd. inversion Ht'; subst. split; [reflexivity|].
      intros o' d' E1 E2. cbn. congruence.
    + inversion Ht'; subst. split; [reflexivity|]. intros o d E. congruence.
Qed.

Lemma set_local_answer_trs : forall fixed T p d p',
  set_local_description fixed p d = Ok p' -> d_type d = 1 -> wfs T p (secs_of (d_media d)) ->
  local_directions fixed (p_trs p) = Ok (p_trs p').
Proof.
  intros fixed T p d p' H Ht W. unfold set_local_description in H.
  destruct (match p_state p with Closed => true | _ => false end); [discriminate|].
  destruct (validate_description p d true) as [[]| | |] eqn:Ev; cbn [bind] in H; try discriminate.
  rewrite Ht in H. cbn [Z.eqb] in H.
  bind_inv H p2 Hp2. bind_inv H p4 Hp4. bind_inv H p5 Hp5. inversion H; subst p'; clear H.
  bind_inv Hp5 trs Htrs. inversion Hp5; subst p5; clear Hp5.
  pose proof W as [W1 W2 W3 W4 W5 W6 W7 W8 W9].
  assert (Hss : forall j m, nth_error (d_media d) j = Some m -> nth_error (secs_of (d_media d)) (0 + j) = Some (m_kind m, m_mid m))
    by (intros j m Hj; apply nth_error_secs; exact Hj).
  destruct (assign_mids_same _ _ _ _ _ Hp2 W1 Hss W4 W5) as [B1 _]. cbn in B1.
  destruct (local_roles_spec _ _ _ _ Hp4) as [_ [_ [C3 _]]].
  cbn. rewrite C3, B1 in Htrs. exact Htrs.
Qed.

Lemma Forall2_In_left : forall A B (R : A -> B -> Prop) l1 l2 x, Forall2 R l1 l2 -> In x l1 -> exists y, In y l2 /\ R x y.
Proof.
  induction 1 as [|a b l1 l2 Hab H IH]; intro Hx; [destruct Hx|].
  destruct Hx as [<-|Hx]; [exists b; split; [left; reflexivity | exact Hab]|].
  destruct (IH Hx) as [y [Hy Hr]]. exists y. split; [right; exact Hy | exact Hr].
Qed.

(* for every audio/video section of the answer: the two transceivers carrying that mid (one per side, unique)
   have the answered direction on the answerer and its reverse on the offerer *)
Definition section_directions (x : exchanged) (ma : media) : Prop :=
  is_av (m_kind ma) = true ->
  exists ta tb da,
    m_dir ma = Some da /\
    In ta (p_trs (x_a x)) /\ t_mid ta = Some (m_mid ma) /\ t_kind ta = m_kind ma /\
    In tb (p_trs (x_b x)) /\ t_mid tb = Some (m_mid ma) /\ t_kind tb = m_kind ma /\
    t_currentDirection tb = Some da /\ t_currentDirection ta = Some (reverse_direction da) /\
    (forall t, In t (p_trs (x_a x)) -> t_mid t = Some (m_mid ma) -> t = ta) /\
    (forall t, In t (p_trs (x_b x)) -> t_mid t = Some (m_mid ma) -> t = tb).

Lemma aligned_unique : forall trs ss t1 t2 mu, aligned trs ss -> In t1 trs -> In t2 trs ->
  t_mid t1 = Some mu -> t_mid t2 = Some mu -> t1 = t2.
Proof.
  intros trs ss t1 t2 mu A H1 H2 M1 M2. apply In_nth_error in H1. apply In_nth_error in H2.
  destruct H1 as [i1 E1]. destruct H2 as [i2 E2]. pose proof (al_uniq _ _ A i1 i2 t1 t2 mu E1 E2 M1 M2) as E. subst i2. congruence.
Qed.

Lemma exchange_directions : forall T a b x, exchange true T a b = Ok x -> wf T a -> wf T b -> S a = S b ->
  Forall (section_directions x) (d_media (x_answer x)).
Proof.
  intros T a b x H Wa Wb Hsync.
  destruct (exchange_wf _ _ _ _ _ H Wa Wb Hsync) as [Wa3 [Wb2 [_ [Sa3 _]]]].
  destruct (exchange_steps _ _ _ _ _ H) as [a1 [offer [a2 [b1 [answer [b2 [a3 [H1 [H2 [H3 [H4 [H5 [H6 ->]]]]]]]]]]]]].
  cbn [x_a x_b x_offer x_answer] in *.
  destruct (create_offer_codecs _ _ _ _ H1) as [trs0 Hoc].
  destruct (offer_phase true T a trs0 Wa Hoc) as [a1' [offer' [a2' [G1 [G2 [G3 [G4 [G5 [G6 [G7 _]]]]]]]]]].
  rewrite H1 in G1. inversion G1; subst a1' offer'; clear G1. rewrite H2 in G2. inversion G2; subst a2'; clear G2.
  set (ss := secs_of (d_media offer)) in *.
  pose proof (exchange_mirrors _ _ _ _ _ H G5) as M. destruct M as [_ _ _ Msec _ _ _]. cbn [x_offer x_answer] in Msec.
  assert (Eans : secs_of (d_media answer) = ss) by exact Msec.
  assert (Wb1 : wfs T b1 ss).
  { apply (set_remote_description_wfs true T b offer b1 (S b) H3); [apply wf_wfs_S; exact Wb | rewrite <- Hsync; exact G4 | exact G5 | exact G6 | exact G7]. }
  destruct (create_answer_spec _ _ H4) as [_ [At [_ [o [Ho Hrel]]]]].
  destruct (set_remote_description_spec _ _ _ _ _ H3) as [_ [_ [R3 _]]]. rewrite R3 in Ho. inversion Ho; subst o; clear Ho.
  assert (Wb1' : wfs T b1 (secs_of (d_media answer))) by (rewrite Eans; exact Wb1).
  pose proof (set_local_answer_trs true T b1 answer b2 H5 At Wb1') as Hld.
  pose proof (local_directions_rel _ _ Hld) as Hdr.
  destruct (set_remote_description_spec _ _ _ _ _ H6) as [_ [_ [_ [_ [_ [_ [_ Q8]]]]]]]. rewrite At in Q8.
  assert (Hnda : NoDup (map m_mid (d_media answer))).
  { rewrite <- secs_of_mids, Eans. unfold ss. rewrite secs_of_mids. exact G5. }
  apply Forall_forall. intros ma Hma Hav.
  (* offerer side *)
  destruct (Q8 Hnda ma Hma Hav) as [ta [Hfa Hna]]. apply find_some in Hfa. destruct Hfa as [Hina _].
  destruct Hna as [Hka [Hma' [c0 [da [_ [_ [_ [_ [Hda Hcur]]]]]]]]]. cbn [Z.eqb] in Hcur.
  (* answerer side *)
  destruct (Forall2_In_l _ _ _ _ _ _ Hrel Hma) as [mo [Hmo Hr]].
  destruct Hr as [[Havo [tb [dd [tr [F1 [F2 [F3 E]]]]]]]|[Havo [s [mid [tr [_ [_ [_ E]]]]]]]]; [|rewrite E in Hav; cbn in Hav; discriminate].
  assert (Edd : da = dd) by (rewrite E in Hda; cbn in Hda; congruence).
  assert (Emid : m_mid ma = m_mid mo) by (rewrite E; reflexivity).
  assert (Ekind : m_kind ma = t_kind tb) by (rewrite E; reflexivity).
  apply find_some in F1. destruct F1 as [Hinb Hmidb]. apply mid_is_true in Hmidb.
  destruct (t_offerDirection tb) as [ob|] eqn:Eob; [|rewrite and_direction_none in F2; discriminate].
  destruct (Forall2_In_left _ _ _ _ _ _ Hdr Hinb) as [tb' [Hinb' [Hti Hcb]]].
  apply tinfo_fields in Hti. destruct Hti as [Hak _]. apply akey_fields in Hak. destruct Hak as [Hkb [Hmb _]].
  exists ta, tb', da. split; [exact Hda|]. split; [exact Hina|]. split; [exact Hma'|]. split; [exact Hka|].
  split; [exact Hinb'|]. split; [rewrite Hmb, Emid; exact Hmidb|]. split; [rewrite Hkb; symmetry; exact Ekind|].
  split; [rewrite Edd; apply (Hcb ob dd Eob F2)|]. split; [exact Hcur|]. split.
  - intros t Hin Hm. apply (aligned_unique _ _ _ _ _ (wf_al _ _ Wa3) Hin Hina Hm Hma').
  - intros t Hin Hm. apply (aligned_unique _ _ _ _ _ (wf_al _ _ Wb2) Hin Hinb' Hm). rewrite Hmb, Emid. exact Hmidb.
Qed.
