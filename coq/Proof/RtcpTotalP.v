(* Proofs about Model/Rtcp.v, part 4 (for property C05): RtcpPacket.parse returns a value
   or ValueError on EVERY byte string -- never another exception, never out of fuel. *)
From Coq Require Import ZArith List Bool Lia.
From AV Require Import Lib.Bytes Lib.BytesP Lib.RtpX Gen.RtpConst Model.Rtcp Proof.RtpBitsP Proof.RtcpP.
Import ListNotations.
Local Open Scope Z_scope.

Ltac Zify.zify_post_hook ::= Z.to_euclidean_division_equations.

Lemma u64_some l i : (i + 8 <= length l)%nat -> exists v, u64 l i = Some v.
Proof.
  intros H. unfold u64. destruct (u32_some l i) as [a ->]; [lia|].
  destruct (u32_some l (4 + i)) as [b ->]; [lia|]. eauto.
Qed.

(* ---- report blocks *)
Lemma rinfo_parse_ok data :
  bytes_ok data -> length data = 24%nat -> exists r, rinfo_parse data = Ok r.
Proof.
  intros Hok Hl. unfold rinfo_parse. rewrite Hl. cbn [Nat.eqb negb].
  destruct (u32_some data 0) as [a ->]; [lia|]. destruct (u8_some data 4) as [b ->]; [lia|].
  destruct (u32_some data 8) as [c ->]; [lia|]. destruct (u32_some data 12) as [d ->]; [lia|].
  destruct (u32_some data 16) as [e ->]; [lia|]. destruct (u32_some data 20) as [f ->]; [lia|].
  destruct (unpack_packets_lost_total (slice data 5 8)) as (n & -> & _).
  - now apply bytes_ok_slice.
  - rewrite slice_length, Hl. reflexivity.
  - cbn [bind]. eauto.
Qed.

Lemma rinfos_parse_ok c : forall rest,
  bytes_ok rest -> length rest = (24 * c)%nat -> exists l, rinfos_parse c rest = Ok l.
Proof.
  induction c as [|c IH]; intros rest Hok Hl; cbn [rinfos_parse]; [eauto|].
  destruct (rinfo_parse_ok (firstn 24 rest)) as [r ->].
  - now apply bytes_ok_firstn.
  - rewrite firstn_length. lia.
  - cbn [bind]. destruct (IH (skipn 24 rest)) as [l ->].
    + now apply bytes_ok_skipn.
    + rewrite skipn_length. lia.
    + cbn [bind]. eauto.
Qed.

Lemma sinfo_parse_ok data : length data = 20%nat -> exists s, sinfo_parse data = Ok s.
Proof.
  intros Hl. unfold sinfo_parse. rewrite Hl. cbn [Nat.eqb negb].
  destruct (u64_some data 0) as [a ->]; [lia|]. destruct (u32_some data 8) as [b ->]; [lia|].
  destruct (u32_some data 12) as [c ->]; [lia|]. destruct (u32_some data 16) as [d ->]; [lia|]. eauto.
Qed.

(* ---- per-class parsers *)
Lemma bye_parse_total data count : 0 <= count -> benign (bye_parse data count).
Proof.
  intros Hc. unfold bye_parse. destruct (Z.ltb_spec (len data) (count * 4)) as [|Hge]; [exact I|].
  destruct (u32s_some data 0 (Z.to_nat count)) as [l ->]; [unfold len in Hge; lia|exact I].
Qed.

Lemma psfb_parse_total data fmt : benign (psfb_parse data fmt).
Proof.
  unfold psfb_parse. destruct (Nat.ltb (length data) 8) eqn:Hl; [exact I|].
  apply Nat.ltb_ge in Hl. destruct (u32_some data 0) as [a ->]; [lia|].
  destruct (u32_some data 4) as [b ->]; [lia|]. exact I.
Qed.

Lemma rr_parse_total data count : bytes_ok data -> 0 <= count -> benign (rr_parse data count).
Proof.
  intros Hok Hc. unfold rr_parse.
  destruct (Z.eqb_spec (len data) (4 + count * 24)) as [He|]; cbn [negb]; [|exact I].
  unfold len in He. destruct (u32_some data 0) as [a ->]; [lia|].
  destruct (rinfos_parse_ok (Z.to_nat count) (skipn 4 data)) as [l ->].
  - now apply bytes_ok_skipn.
  - rewrite skipn_length. lia.
  - exact I.
Qed.

Lemma sr_parse_total data count : bytes_ok data -> 0 <= count -> benign (sr_parse data count).
Proof.
  intros Hok Hc. unfold sr_parse.
  destruct (Z.eqb_spec (len data) (24 + count * 24)) as [He|]; cbn [negb]; [|exact I].
  unfold len in He. destruct (u32_some data 0) as [a ->]; [lia|].
  destruct (sinfo_parse_ok (slice data 4 24)) as [s ->]; [rewrite slice_length; lia|]. cbn [bind].
  destruct (rinfos_parse_ok (Z.to_nat count) (skipn 24 data)) as [l ->].
  - now apply bytes_ok_skipn.
  - rewrite skipn_length. lia.
  - exact I.
Qed.

Lemma nack_parse_ok n : forall rest, length rest = (4 * n)%nat -> exists l, nack_parse rest = Ok l.
Proof.
  induction n as [|n IH]; intros rest Hl.
  - destruct rest; [cbn; eauto|cbn in Hl; lia].
  - destruct rest as [|a [|b [|c [|d rest]]]]; cbn [length] in Hl; try lia.
    cbn [nack_parse]. destruct (IH rest) as [l ->]; [lia|]. cbn [bind]. eauto.
Qed.

Lemma rtpfb_parse_total data fmt : benign (rtpfb_parse data fmt).
Proof.
  unfold rtpfb_parse. destruct (Nat.ltb (length data) 8) eqn:Hl; cbn [orb]; [exact I|].
  apply Nat.ltb_ge in Hl.
  destruct (Z.eqb_spec (len data mod 4) 0) as [Hm|]; cbn [negb]; [|exact I].
  destruct (u32_some data 0) as [a ->]; [lia|]. destruct (u32_some data 4) as [b ->]; [lia|].
  destruct (nack_parse_ok ((length data - 8) / 4) (skipn 8 data)) as [l ->]; [|exact I].
  rewrite skipn_length. unfold len in Hm.
  assert (Hd := Nat.div_mod (length data - 8) 4 ltac:(lia)).
  assert ((length data - 8) mod 4 = 0)%nat; [|lia].
  assert (Hz : Z.of_nat ((length data - 8) mod 4) = 0); [|lia].
  rewrite Nat2Z.inj_mod. lia.
Qed.

Lemma sdes_items_parse_total fuel : forall rest,
  (length rest < fuel)%nat -> benign (sdes_items_parse fuel rest).
Proof.
  induction fuel as [|f IH]; intros rest Hf; [lia|].
  cbn [sdes_items_parse]. destruct rest as [|t [|l rest']]; try exact I.
  destruct (Z.ltb_spec (len rest') l); [exact I|].
  destruct (t =? 0); [exact I|].
  apply bind_benign.
  - apply IH. rewrite skipn_length. cbn [length] in Hf. lia.
  - intros [items r] _. exact I.
Qed.

Lemma sdes_chunks_parse_total c : forall rest, benign (sdes_chunks_parse c rest).
Proof.
  induction c as [|c IH]; intros rest; cbn [sdes_chunks_parse]; [exact I|].
  destruct (Nat.ltb (length rest) 4) eqn:Hl; [exact I|]. apply Nat.ltb_ge in Hl.
  destruct (u32_some rest 0) as [a ->]; [lia|].
  apply bind_benign.
  - apply sdes_items_parse_total. rewrite skipn_length. lia.
  - intros [items r] _. apply bind_benign; [apply IH|]. intros cs _. exact I.
Qed.

Lemma rtcp_parse_one_total pt payload count :
  bytes_ok payload -> 0 <= count -> benign (rtcp_parse_one pt payload count).
Proof.
  intros Hok Hc. unfold rtcp_parse_one.
  destruct (pt =? rtp_RTCP_BYE); [apply bind_benign; [now apply bye_parse_total|intros; exact I]|].
  destruct (pt =? rtp_RTCP_SDES).
  { apply bind_benign; [|intros; exact I]. unfold sdes_parse.
    apply bind_benign; [apply sdes_chunks_parse_total|intros; exact I]. }
  destruct (pt =? rtp_RTCP_SR); [apply bind_benign; [now apply sr_parse_total|intros; exact I]|].
  destruct (pt =? rtp_RTCP_RR); [apply bind_benign; [now apply rr_parse_total|intros; exact I]|].
  destruct (pt =? rtp_RTCP_RTPFB); [apply bind_benign; [apply rtpfb_parse_total|intros; exact I]|].
  destruct (pt =? rtp_RTCP_PSFB); [apply bind_benign; [apply psfb_parse_total|intros; exact I]|].
  exact I.
Qed.

Lemma strip_padding_total padding payload :
  bytes_ok payload ->
  benign (strip_padding padding payload) /\
  forall p, strip_padding padding payload = Ok p -> bytes_ok p.
Proof.
  intros Hok. unfold strip_padding. destruct (padding =? 0); [split; [exact I|now intros p [= <-]]|].
  destruct (last_byte payload) as [pl|]; [|split; [exact I|discriminate]].
  destruct ((pl =? 0) || (len payload <? pl)); [split; [exact I|discriminate]|].
  split; [exact I|]. intros p [= <-]. now apply bytes_ok_firstn.
Qed.

(* ---- the compound loop *)
Lemma rtcp_parse_loop_total fuel : forall rest,
  bytes_ok rest -> (length rest < fuel)%nat -> benign (rtcp_parse_loop fuel rest).
Proof.
  induction fuel as [|f IH]; intros rest Hok Hf; [lia|].
  cbn [rtcp_parse_loop]. destruct rest as [|r0 rest0] eqn:Er; [exact I|]. rewrite <- Er in *.
  destruct (Nat.ltb (length rest) 4) eqn:Hl; [exact I|]. apply Nat.ltb_ge in Hl.
  destruct (u8_some rest 0) as [v Hv]; [lia|]. destruct (u8_some rest 1) as [pt Hpt]; [lia|].
  destruct (u16_some rest 2) as [w Hw]; [lia|]. rewrite Hv, Hpt, Hw.
  apply u8_range in Hv; [|exact Hok].
  destruct (negb (Z.shiftr v 6 =? 2)); [exact I|].
  destruct (Nat.ltb (length (skipn 4 rest)) (Z.to_nat (w * 4))) eqn:Hn; [exact I|].
  assert (Hbody : bytes_ok (firstn (Z.to_nat (w * 4)) (skipn 4 rest)))
    by now apply bytes_ok_firstn, bytes_ok_skipn.
  destruct (strip_padding_total (Z.land (Z.shiftr v 5) 1) _ Hbody) as [Hs1 Hs2].
  apply bind_benign; [exact Hs1|]. intros payload Hp.
  apply bind_benign.
  - apply rtcp_parse_one_total; [now apply Hs2|]. rewrite land_31. lia.
  - intros pkt _. apply bind_benign.
    + apply IH; [now apply bytes_ok_skipn, bytes_ok_skipn|].
      rewrite !skipn_length. lia.
    + intros more _. exact I.
Qed.

Theorem rtcp_parse_total b : bytes_ok b -> benign (rtcp_parse b).
Proof. intros H. unfold rtcp_parse. apply rtcp_parse_loop_total; [exact H|lia]. Qed.
