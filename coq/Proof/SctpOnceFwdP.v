(* C01 / C06: at most once for EVERY event list -- DATA chunks and FORWARD-TSN chunks in any
   order, all streams, ordered or not, reliable or partially reliable. *)
From Coq Require Import ZArith List Bool Lia.
From AV Require Import Lib.Bytes Gen.Utils Gen.SctpConst Model.SctpRecv Proof.SctpRecvP Proof.SctpC01P Proof.SctpDupP
  Proof.SctpOrderP Proof.SctpOrderTP Proof.SctpOnceP Proof.SctpCountP Proof.SctpOnceEP.
From AV Require Import Model.SctpSend Proof.SctpSendP.
Import ListNotations.
Local Open Scope Z_scope.

Section Window.
Variable base N : Z.
Hypothesis Hbase : r32 base.
Hypothesis HN : 0 <= N < 2147483648.

Notation inwb := (inw base N).
Notation invb := (inv base N).
Notation accb := (acc base).

Definition ev_in (e : revent) : Prop := match e with EvData c => inwb (tsn c) | EvFwd cum _ => inwb cum end.

(* the runs behind the messages one DATA chunk releases *)
Definition dataD (s : rstate) (c : chunk) : list (list chunk) :=
  let s0 := mkR (last_rx s) (misordered s) (duplicates s) (streams s) (rwnd s) true in
  if far_ahead s0 (tsn c) then []
  else if snd (mark_received s0 (tsn c)) then []
  else let st := get_stream (streams s) (sid c) in
       match add_chunk (reasm st) c with
       | AddOk l => pop_runs [] None l (sseq_expected st)
       | AddAssert => []
       end.

Lemma receive_data_cnt s c x : invb s -> inwb (tsn c) ->
  exists s' ms, receive_data s c = ROk s' ms /\ ms = map msgf (dataD s c) /\
    Forall (fun f => complete_run (rev f)) (dataD s c) /\
    (cnt (match accepts_chunk s (EvData c) with Some _ => [c] | None => [] end) x + cnt (allr (streams s)) x =
     cnt (allr (streams s')) x + cnt (concat (dataD s c)) x)%nat.
Proof.
  intros Hinv Hc. unfold receive_data, dataD, accepts_chunk.
  set (s0 := mkR (last_rx s) (misordered s) (duplicates s) (streams s) (rwnd s) true).
  assert (H0 : invb s0) by exact Hinv.
  destruct (far_ahead s0 (tsn c)).
  { eexists _, _. split; [reflexivity|]. cbn [streams s0 map concat count_occ]. split; [reflexivity|]. split; [constructor|lia]. }
  pose proof (mark_received_inv base N Hbase HN s0 (tsn c) H0 Hc) as Hm.
  destruct (mark_received s0 (tsn c)) as [s1 dup]. destruct Hm as (Hs & Hd1 & Hd2). cbn [snd].
  destruct dup.
  { eexists _, _. split; [reflexivity|]. rewrite Hs. cbn [streams s0 map concat count_occ]. split; [reflexivity|]. split; [constructor|lia]. }
  destruct (Hd2 eq_refl) as (Hna & _). rewrite Hs. cbn [streams s0].
  set (st := get_stream (streams s) (sid c)).
  destruct H0 as (_ & _ & C).
  assert (Hreasm : forall r, In r (reasm st) -> inwb (tsn r) /\ accb s0 (tsn r)).
  { intros r Hr. apply get_stream_reasm_in in Hr. rewrite Forall_forall in C. now apply C. }
  assert (Hl : Forall (fun r => inwb (tsn r)) (reasm st)) by (apply Forall_forall; intros r Hr; now destruct (Hreasm r Hr)).
  assert (Hne : forall r, In r (reasm st) -> tsn r <> tsn c).
  { intros r Hr E. destruct (Hreasm r Hr) as [_ Ha]. rewrite E in Ha. contradiction. }
  destruct (add_chunk_cnt base N Hbase HN x c (reasm st) Hc Hl Hne) as (l & Ea & Cl). rewrite Ea.
  destruct (cnt_pop_messages l (sseq_expected st) x) as [Hcp Hmp].
  pose proof (pop_runs_complete l [] None (sseq_expected st) I) as Hcomp.
  destruct (pop_messages l (sseq_expected st)) as [[l2 seq2] ms]. cbn [fst snd] in Hcp, Hmp.
  eexists _, _. split; [reflexivity|]. split; [exact Hmp|]. split; [exact Hcomp|].
  cbn [streams]. pose proof (cnt_set_stream x (streams s) (sid c) (mkStream l2 seq2)) as Hss. fold st in Hss. cbn [reasm] in Hss.
  cbn [count_occ] in Cl |- *. destruct (chunk_eq_dec c x); lia.
Qed.

(* ---- FORWARD-TSN keeps the acceptance invariant *)
Lemma allr_after_fwd s cum strs r : In r (allr (streams (fst (receive_forward_tsn s cum strs)))) -> In r (allr (streams s)).
Proof.
  intros H. apply (count_occ_In chunk_eq_dec). apply (count_occ_In chunk_eq_dec) in H.
  destruct (receive_forward_tsn_cnt s cum strs r) as [Hc _]. cbv zeta in Hc. lia.
Qed.

Lemma fwd_inv s cum strs : invb s -> inwb cum ->
  invb (fst (receive_forward_tsn s cum strs)) /\
  (forall a, inwb a -> accb s a -> accb (fst (receive_forward_tsn s cum strs)) a).
Proof.
  intros Hinv Hc. pose proof (allr_after_fwd s cum strs) as Hincl. revert Hincl.
  unfold receive_forward_tsn. cbn [last_rx misordered duplicates streams rwnd sack_needed].
  destruct Hinv as (Hl & Hm & Hr).
  destruct (uint32_gte (last_rx s) cum) eqn:G.
  { cbn [fst]. intros _. split; [split; [exact Hl|split; [exact Hm|exact Hr]]|auto]. }
  assert (Hlt : off base (last_rx s) < off base cum).
  { destruct (Z_lt_le_dec (off base (last_rx s)) (off base cum)) as [H|H]; [exact H|].
    apply (gte_off base N Hbase HN _ _ Hl Hc) in H. congruence. }
  set (mis1 := filter (is_obsolete cum) (misordered s)).
  assert (Hmis1 : Forall inwb mis1).
  { apply Forall_forall. intros m Hin. apply filter_In in Hin as [Hin _]. rewrite Forall_forall in Hm. now destruct (Hm m Hin). }
  assert (Hsorted : Forall inwb (sorted_misordered cum mis1)).
  { rewrite Forall_forall in *. intros y Hy. apply (in_sorted N HN) in Hy. now apply Hmis1. }
  destruct (consolidate_spec base N HN _ _ Hc Hsorted) as (Hc1 & Hc2 & _).
  set (cum2 := consolidate cum (sorted_misordered cum mis1)) in *.
  destruct (fwd_streams (streams s) strs) as [strs2 ms]. destruct (prune_all strs2 cum) as [strs3 pruned].
  destruct (repop_streams strs3 strs) as [strs4 ms']. cbn [fst streams]. intros Hincl.
  assert (Hacc : forall a, inwb a -> accb s a ->
            accb (mkR cum2 (filter (is_obsolete cum2) mis1) (filter (is_obsolete cum2) (duplicates s)) strs4
                      (rwnd s + msgs_len ms + pruned + msgs_len ms') true) a).
  { intros a Ha [Hle|Hin]; unfold acc; cbn [last_rx misordered].
    - left. lia.
    - destruct (Z_le_gt_dec (off base a) (off base cum2)) as [H|H]; [now left|right].
      apply filter_In. split; [apply filter_In; split; [exact Hin|]|]; unfold is_obsolete; apply (gt_off base N Hbase HN); auto; lia. }
  split; [|exact Hacc].
  apply (inv_weaken base N s); cbn [last_rx misordered]; [exact Hc1| |exact Hacc|].
  - apply Forall_forall. intros m Hin. apply filter_In in Hin as [Hin Hob]. rewrite Forall_forall in Hmis1.
    split; [now apply Hmis1|]. unfold is_obsolete in Hob. apply (gt_off base N Hbase HN) in Hob; auto.
  - apply Forall_forall. intros r Hin. rewrite Forall_forall in Hr. apply Hr. apply Hincl. exact Hin.
Qed.

Lemma rstep_fwd_inv s cum strs : invb s -> inwb cum ->
  invb (fst (rstep s (EvFwd cum strs))) /\ snd (rstep s (EvFwd cum strs)) <> OutAssert /\
  (forall a, inwb a -> accb s a -> accb (fst (rstep s (EvFwd cum strs))) a).
Proof.
  intros Hinv Hc. destruct (fwd_inv s cum strs Hinv Hc) as [H1 H2]. cbn [rstep].
  destruct (receive_forward_tsn s cum strs) as [s1 ms]. cbn [fst] in *. unfold make_sack. cbn [fst snd].
  split; [exact H1|]. split; [discriminate|exact H2].
Qed.

(* one step of either kind *)
Lemma rstep_inv s e : invb s -> ev_in e ->
  invb (fst (rstep s e)) /\ snd (rstep s e) <> OutAssert /\
  (forall a, inwb a -> accb s a -> accb (fst (rstep s e)) a) /\
  (forall t, accepts s e = Some t -> ~ accb s t /\ accb (fst (rstep s e)) t).
Proof.
  intros Hinv He. destruct e as [c|cum strs].
  - exact (rstep_data_inv base N Hbase HN s c Hinv He).
  - destruct (rstep_fwd_inv s cum strs Hinv He) as (A & B & C). split; [exact A|]. split; [exact B|]. split; [exact C|].
    intros t H. discriminate.
Qed.

Lemma accepted_acc_all : forall es s, invb s -> Forall ev_in es -> forall t, In t (accepted s es) -> inwb t /\ ~ accb s t.
Proof.
  induction es as [|e es IH]; intros s Hinv Hes t; cbn [accepted]; [intros []|].
  inversion Hes as [|? ? He Hrest]; subst.
  destruct (rstep_inv s e Hinv He) as (H1 & _ & H3 & H4).
  rewrite in_app_iff. intros [Hin|Hin].
  - destruct (accepts s e) as [t'|] eqn:Ea; [|destruct Hin]. destruct Hin as [<-|[]].
    destruct e as [c|]; [|discriminate]. cbn [ev_in] in He.
    assert (t' = tsn c).
    { cbn [accepts] in Ea. destruct (far_ahead _ _); [discriminate|]. destruct (snd _); [discriminate|]. now injection Ea. }
    subst. split; [exact He|]. now destruct (H4 _ eq_refl).
  - destruct (IH _ H1 Hrest t Hin) as [Hi Hn]. split; [exact Hi|]. intros Ha. apply Hn. now apply H3.
Qed.

Theorem accepted_nodup_all : forall es s, invb s -> Forall ev_in es -> NoDup (accepted s es).
Proof.
  induction es as [|e es IH]; intros s Hinv Hes; cbn [accepted]; [constructor|].
  inversion Hes as [|? ? He Hrest]; subst.
  destruct (rstep_inv s e Hinv He) as (H1 & _ & H3 & H4).
  destruct (accepts s e) as [t|] eqn:Ea; cbn [app]; [|now apply IH].
  constructor; [|now apply IH].
  intros Hin. destruct (accepted_acc_all es _ H1 Hrest t Hin) as [_ Hn]. apply Hn. now destruct (H4 t eq_refl).
Qed.

(* the reassembly assertion is unreachable for DATA and FORWARD-TSN events alike *)
Theorem no_assert_all : forall es s, invb s -> Forall ev_in es -> Forall (fun o => o <> OutAssert) (snd (rrun s es)).
Proof.
  induction es as [|e es IH]; intros s Hinv Hes; [constructor|].
  rewrite rrun_cons. cbn [snd]. inversion Hes as [|? ? He Hrest]; subst.
  destruct (rstep_inv s e Hinv He) as (H1 & H2 & _ & _). constructor; [exact H2|now apply IH].
Qed.

(* ---- the whole run, instrumented *)
Definition stepD (s : rstate) (e : revent) : list (list chunk) * list chunk :=
  match e with EvData c => (dataD s c, []) | EvFwd cum strs => fwdD s cum strs end.

Fixpoint rrunD (s : rstate) (es : list revent) : list (list (list chunk)) * list chunk :=
  match es with
  | [] => ([], [])
  | e :: es' => let '(D, P) := rrunD (fst (rstep s e)) es' in (fst (stepD s e) :: D, snd (stepD s e) ++ P)
  end.

Lemma step_cnt s e : invb s -> ev_in e ->
  out_msgs (snd (rstep s e)) = map msgf (fst (stepD s e)) /\
  Forall (fun f => complete_run (rev f)) (fst (stepD s e)) /\
  forall x, (cnt (match accepts_chunk s e with Some c => [c] | None => [] end) x + cnt (allr (streams s)) x =
             cnt (allr (streams (fst (rstep s e)))) x + cnt (concat (fst (stepD s e))) x + cnt (snd (stepD s e)) x)%nat.
Proof.
  intros Hinv He. destruct e as [c|cum strs]; cbn [rstep stepD fst snd ev_in] in *.
  - destruct (receive_data_cnt s c c Hinv He) as (s' & ms & E & Em & Hc & _). rewrite E.
    unfold make_sack. cbn [fst snd out_msgs streams]. split; [exact Em|]. split; [exact Hc|].
    intros x. destruct (receive_data_cnt s c x Hinv He) as (s'' & ms'' & E' & _ & _ & Hx). rewrite E in E'. injection E' as <- <-.
    destruct (accepts_chunk s (EvData c)) as [c0|] eqn:Ea; [|cbn [count_occ] in *; lia].
    assert (c0 = c).
    { clear - Ea. cbn [accepts_chunk] in Ea. destruct (far_ahead _ _); [discriminate|]. destruct (snd (mark_received _ _)); [discriminate|]. now injection Ea. }
    subst c0. cbn [count_occ] in *. lia.
  - destruct (receive_forward_tsn_cnt s cum strs (mkChunk 0 0 0 false false false 0 [])) as (_ & Em & Hc). cbv zeta in *.
    rewrite (surjective_pairing (receive_forward_tsn s cum strs)). unfold make_sack. cbn [fst snd out_msgs streams accepts_chunk].
    split; [exact Em|]. split; [exact Hc|]. intros x. destruct (receive_forward_tsn_cnt s cum strs x) as (Hx & _). cbv zeta in Hx.
    cbn [count_occ]. lia.
Qed.

Theorem run_cnt : forall es s, invb s -> Forall ev_in es ->
  map out_msgs (snd (rrun s es)) = map (map msgf) (fst (rrunD s es)) /\
  Forall (fun f => complete_run (rev f)) (concat (fst (rrunD s es))) /\
  forall x, (cnt (accepted_chunks s es) x + cnt (allr (streams s)) x =
             cnt (allr (streams (fst (rrun s es)))) x + cnt (concat (concat (fst (rrunD s es)))) x + cnt (snd (rrunD s es)) x)%nat.
Proof.
  induction es as [|e es IH]; intros s Hinv Hes.
  - cbn. split; [reflexivity|]. split; [constructor|]. intros x. lia.
  - inversion Hes as [|? ? He Hrest]; subst. rewrite rrun_cons. cbn [rrunD accepted_chunks snd fst map].
    destruct (rstep_inv s e Hinv He) as (H1 & _ & _ & _).
    destruct (step_cnt s e Hinv He) as (A1 & A2 & A3).
    destruct (IH _ H1 Hrest) as (B1 & B2 & B3).
    destruct (rrunD (fst (rstep s e)) es) as [D P]. cbn [fst snd concat map] in *.
    split; [now rewrite A1, B1|]. split; [apply Forall_app; split; assumption|].
    intros x. specialize (A3 x). specialize (B3 x). rewrite !concat_app, !count_occ_app. lia.
Qed.

(* AT MOST ONCE, every stream, DATA and FORWARD-TSN events in any order. *)
Theorem at_most_once_all t0 msgs es :
  in32 t0 -> Forall (fun m => o_data m <> []) msgs -> Z.of_nat (total_frags msgs) <= SCTP_TSN_MODULO ->
  Forall ev_in es ->
  (forall c, In (EvData c) es -> In c (concat (send_msgs (mkS t0 []) msgs))) ->
  exists Ds : list (list (list chunk)),
    map out_msgs (snd (rrun (rinit base) es)) = map (map msgf) Ds /\
    NoDup (concat Ds) /\ Forall (fun f => In f (send_msgs (mkS t0 []) msgs)) (concat Ds).
Proof.
  intros Ht Hd Htot Hes Hin.
  set (sm := sent_of (mkS t0 []) msgs).
  assert (Hall : all_chunks sm = concat (send_msgs (mkS t0 []) msgs)) by (unfold all_chunks, sm; now rewrite sent_of_frags).
  pose proof (sent_of_ok (mkS t0 []) msgs Hd) as Hok. fold sm in Hok.
  pose proof (sent_of_tsn_inj (mkS t0 []) msgs Ht Htot) as Hinj. fold sm in Hinj.
  pose proof (inv_rinit base N Hbase HN) as Hinv0.
  destruct (run_cnt es (rinit base) Hinv0 Hes) as (E1 & E2 & E3).
  exists (fst (rrunD (rinit base) es)). split; [exact E1|].
  set (D := concat (fst (rrunD (rinit base) es))) in *.
  assert (Hacc : NoDup (accepted_chunks (rinit base) es)).
  { apply (NoDup_map_inv tsn). rewrite accepted_chunks_tsn. now apply accepted_nodup_all. }
  assert (Hcnt : forall x, (cnt (concat D) x <= cnt (accepted_chunks (rinit base) es) x)%nat).
  { intros x. specialize (E3 x). cbn [rinit streams allr map concat count_occ] in E3. lia. }
  assert (HnD : NoDup (concat D)).
  { apply (NoDup_count_occ chunk_eq_dec). intros x. pose proof (proj1 (NoDup_count_occ chunk_eq_dec _) Hacc x). specialize (Hcnt x). lia. }
  assert (HiD : incl (concat D) (all_chunks sm)).
  { intros x Hx. rewrite Hall. apply Hin. apply (accepted_chunks_in es (rinit base)).
    apply (count_occ_In chunk_eq_dec). apply (count_occ_In chunk_eq_dec) in Hx. specialize (Hcnt x). lia. }
  split.
  - apply NoDup_concat_runs; [exact HnD|]. eapply Forall_impl; [|exact E2]. intros f. apply complete_run_nonempty.
  - apply Forall_forall. intros f Hf. rewrite Forall_forall in E2. pose proof (E2 f Hf) as Hc.
    destruct (complete_run_is_sent sm (rev f) dchunk Hok Hinj Hc) as (m & Hm & Erev & _).
    + intros x Hx. apply HiD. apply in_concat. exists f. split; [exact Hf|]. now apply in_rev.
    + rewrite rev_involutive in Erev. rewrite Erev, <- (sent_of_frags (mkS t0 []) msgs). now apply in_map.
Qed.
End Window.
