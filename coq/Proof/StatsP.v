(* Proofs about Model/Stats.v (property C18), part 1: arithmetic, the invariant of an
   established StreamStatistics object, one `add`, one `fraction_lost`, one report. *)
From Coq Require Import ZArith List Bool Lia.
From AV Require Import Lib.Bytes Lib.BytesP Gen.Utils Gen.RtpConst Model.Stats.
Import ListNotations.
Local Open Scope Z_scope.

Ltac Zify.zify_post_hook ::= Z.to_euclidean_division_equations.

(* ------------------------------------------------------------------ bit operations *)
Lemma land_u16 x : Z.land x 65535 = x mod 65536.
Proof. change 65535 with (Z.ones 16). rewrite Z.land_ones by lia. reflexivity. Qed.

Lemma land_u32 x : Z.land x 4294967295 = x mod 4294967296.
Proof. change 4294967295 with (Z.ones 32). rewrite Z.land_ones by lia. reflexivity. Qed.

Lemma shiftr_4 x : Z.shiftr x 4 = x / 16.
Proof. rewrite Z.shiftr_div_pow2 by lia. reflexivity. Qed.

Lemma shiftr_16 x : Z.shiftr x 16 = x / 65536.
Proof. rewrite Z.shiftr_div_pow2 by lia. reflexivity. Qed.

Lemma shiftl_8 x : Z.shiftl x 8 = x * 256.
Proof. rewrite Z.shiftl_mul_pow2 by lia. reflexivity. Qed.

Lemma uint16_add_mod a b : uint16_add a b = (a + b) mod 65536.
Proof. unfold uint16_add. apply land_u16. Qed.

Lemma uint32_add_mod a b : uint32_add a b = (a + b) mod 4294967296.
Proof. unfold uint32_add. apply land_u32. Qed.

(* ------------------------------------------------------------------ serial comparison *)
(* uint16_gt on wire values: `a` is ahead of `b` by less than half the space *)
Lemma uint16_gt_spec a b :
  0 <= a < 65536 -> 0 <= b < 65536 ->
  uint16_gt a b = (0 <? (a - b) mod 65536) && ((a - b) mod 65536 <? 32768).
Proof.
  intros Ha Hb. unfold uint16_gt. cbv zeta.
  destruct (a <? b) eqn:E1; destruct (32768 <? b - a) eqn:E2; destruct (b <? a) eqn:E3;
    destruct (a - b <? 32768) eqn:E4; destruct (0 <? (a - b) mod 65536) eqn:E5;
    destruct ((a - b) mod 65536 <? 32768) eqn:E6; cbn [andb orb]; try reflexivity; exfalso; lia.
Qed.

Lemma uint16_gt_true a b :
  0 <= a < 65536 -> 0 <= b < 65536 -> uint16_gt a b = true ->
  0 < (a - b) mod 65536 < 32768 /\
  (if a <? b then 65536 else 0) + a - b = (a - b) mod 65536.
Proof.
  intros Ha Hb H. rewrite uint16_gt_spec in H by assumption.
  apply andb_true_iff in H. destruct H as [H1 H2].
  apply Z.ltb_lt in H1. apply Z.ltb_lt in H2. split; [lia|].
  destruct (a <? b) eqn:E; lia.
Qed.

(* ------------------------------------------------------------------ the transit difference *)
(* distance of x to the nearest multiple of 2^32 *)
Definition dist32 (x : Z) : Z := Z.min (x mod 4294967296) (4294967296 - x mod 4294967296).

Lemma transit_diff_dist x : transit_diff x = dist32 x.
Proof.
  unfold transit_diff, dist32. cbv zeta. rewrite land_u32.
  destruct (2147483648 <? x mod 4294967296) eqn:E; lia.
Qed.

Lemma transit_diff_range x : 0 <= transit_diff x <= 2147483648.
Proof. rewrite transit_diff_dist. unfold dist32. lia. Qed.

Lemma transit_diff_periodic x k : transit_diff (x + k * 4294967296) = transit_diff x.
Proof. rewrite !transit_diff_dist. unfold dist32. rewrite Z.mod_add by lia. reflexivity. Qed.

Lemma transit_diff_small x : Z.abs x <= 2147483648 -> transit_diff x = Z.abs x.
Proof. intros H. rewrite transit_diff_dist. unfold dist32. lia. Qed.

Lemma transit_diff_congr x y :
  x mod 4294967296 = y mod 4294967296 -> transit_diff x = transit_diff y.
Proof. intros H. rewrite !transit_diff_dist. unfold dist32. rewrite H. reflexivity. Qed.

(* ------------------------------------------------------------------ reference figures *)
(* RFC 3550 A.3 fraction lost of one interval *)
Definition rfc_fraction (expected_interval received_interval : Z) : Z :=
  if (expected_interval =? 0) || (expected_interval - received_interval <=? 0) then 0
  else ((expected_interval - received_interval) * 256) / expected_interval.

(* RFC 3550 A.8, scaled by 16: J += |D| - ((J + 8) >> 4), skipped for a repeated timestamp *)
Definition new_jit (J la lt ts arr : Z) : Z :=
  if ts =? lt then J else J + dist32 ((arr - la) - (ts - lt)) - (J + 8) / 16.

Lemma new_jit_range J la lt ts arr :
  0 <= J <= 34359738368 -> 0 <= new_jit J la lt ts arr <= 34359738368.
Proof.
  intros HJ. unfold new_jit. destruct (ts =? lt); [lia|].
  pose proof (transit_diff_range ((arr - la) - (ts - lt))) as Hd.
  rewrite transit_diff_dist in Hd. lia.
Qed.

Ltac proj := cbn [base_seq max_seq cycles packets_received jitter_q4 last_arrival last_timestamp
                  expected_prior received_prior].
Ltac proj_in H := cbn [base_seq max_seq cycles packets_received jitter_q4 last_arrival last_timestamp
                       expected_prior received_prior] in H.

(* ------------------------------------------------------------------ established objects *)
(* the invariant of a StreamStatistics object that has seen at least one packet;
   b = first sequence number, m = highest so far (wire values), la / lt = arrival
   and timestamp of the last in-order packet *)
Record est (s : stats) (b m la lt : Z) : Prop := mkEst {
  e_base : base_seq s = Some b;
  e_max : max_seq s = Some m;
  e_la : last_arrival s = Some la;
  e_lt : last_timestamp s = Some lt;
  e_b : 0 <= b < 65536;
  e_m : 0 <= m < 65536;
  e_cyc : 0 <= cycles s /\ cycles s mod 65536 = 0;
  e_ext : b <= cycles s + m;
  e_recv : 1 <= packets_received s;
  e_J : 0 <= jitter_q4 s <= 34359738368;
  e_E : expected_prior s <= cycles s + m - b + 1;
  e_R : received_prior s <= packets_received s;
  e_ER : expected_prior s < cycles s + m - b + 1 -> received_prior s < packets_received s
}.

Lemma add_init seq ts arr :
  add init seq ts arr = Ok (mkStats (Some seq) (Some seq) 0 1 0 (Some arr) (Some ts) 0 0).
Proof. reflexivity. Qed.

Lemma est_first seq ts arr :
  0 <= seq < 65536 ->
  est (mkStats (Some seq) (Some seq) 0 1 0 (Some arr) (Some ts) 0 0) seq seq arr ts.
Proof. intros H. constructor; cbn; try reflexivity; try lia. Qed.

(* one add on an established object *)
Lemma add_est s b m la lt seq ts arr :
  est s b m la lt -> 0 <= seq < 65536 ->
  exists s', add s seq ts arr = Ok s' /\
    packets_received s' = packets_received s + 1 /\
    expected_prior s' = expected_prior s /\ received_prior s' = received_prior s /\
    if uint16_gt seq m
    then est s' b seq arr ts /\
         cycles s' + seq = cycles s + m + (seq - m) mod 65536 /\
         jitter_q4 s' = new_jit (jitter_q4 s) la lt ts arr
    else est s' b m la lt /\ cycles s' = cycles s /\ jitter_q4 s' = jitter_q4 s.
Proof.
  intros [Hb Hm Hla Hlt Rb Rm [Hc0 Hc] Hext Hr HJ HE HR HER] Hseq.
  unfold add. rewrite Hm, Hb, Hla, Hlt. cbv zeta.
  destruct (uint16_gt seq m) eqn:G.
  - pose proof (uint16_gt_true seq m Hseq Rm G) as [Hstep Hcyc].
    change (Z.shiftl 1 16) with 65536.
    assert (Hone : (1 <? packets_received s + 1) = true) by (apply Z.ltb_lt; lia).
    rewrite Hone, andb_true_r. unfold neq_opt.
    assert (Hcy : (if seq <? m then cycles s + 65536 else cycles s) + seq
                  = cycles s + m + (seq - m) mod 65536) by (destruct (seq <? m); lia).
    assert (Hcy0 : 0 <= (if seq <? m then cycles s + 65536 else cycles s) /\
                   (if seq <? m then cycles s + 65536 else cycles s) mod 65536 = 0)
      by (destruct (seq <? m); lia).
    set (cyc := if seq <? m then cycles s + 65536 else cycles s) in *.
    destruct (ts =? lt) eqn:T; cbn [negb].
    + eexists. split; [reflexivity|]. proj.
      repeat split; proj; try reflexivity; try lia; try (unfold new_jit; rewrite T; reflexivity).
    + assert (HJ' : jitter_q4 s + (transit_diff (arr - la - (ts - lt)) - Z.shiftr (jitter_q4 s + 8) 4)
                    = new_jit (jitter_q4 s) la lt ts arr).
      { unfold new_jit. rewrite T, shiftr_4, transit_diff_dist. lia. }
      rewrite HJ'. pose proof (new_jit_range (jitter_q4 s) la lt ts arr HJ) as HJr.
      eexists. split; [reflexivity|]. proj.
      repeat split; proj; try reflexivity; try lia.
  - eexists. split; [reflexivity|]. proj.
    repeat split; proj; try assumption; try reflexivity; try lia.
Qed.

(* ------------------------------------------------------------------ the properties *)
Lemma packets_expected_est s b m la lt :
  est s b m la lt -> packets_expected s = Ok (cycles s + m - b + 1).
Proof. intros H. unfold packets_expected. rewrite (e_max _ _ _ _ _ H), (e_base _ _ _ _ _ H). reflexivity. Qed.

Lemma packets_lost_est s b m la lt :
  est s b m la lt ->
  packets_lost s = Ok (rtp_clamp_packets_lost (cycles s + m - b + 1 - packets_received s)).
Proof. intros H. unfold packets_lost. rewrite (packets_expected_est _ _ _ _ _ H). reflexivity. Qed.

Lemma clamp_range x : -8388608 <= rtp_clamp_packets_lost x < 8388608.
Proof. unfold rtp_clamp_packets_lost, rtp_PACKETS_LOST_MIN, rtp_PACKETS_LOST_MAX. lia. Qed.

Lemma clamp_id x : -8388608 <= x < 8388608 -> rtp_clamp_packets_lost x = x.
Proof. unfold rtp_clamp_packets_lost, rtp_PACKETS_LOST_MIN, rtp_PACKETS_LOST_MAX. lia. Qed.

Lemma rfc_fraction_range e r : (0 < e -> 0 < r) -> 0 <= r -> 0 <= rfc_fraction e r <= 255.
Proof.
  intros H Hr. unfold rfc_fraction.
  destruct (e =? 0) eqn:E0; cbn [orb]; [lia|].
  destruct (e - r <=? 0) eqn:E1; [lia|].
  apply Z.eqb_neq in E0. apply Z.leb_gt in E1.
  assert (0 < e) by lia. assert (0 < r) by auto.
  split.
  - apply Z.div_pos; lia.
  - assert ((e - r) * 256 / e < 256); [|lia].
    apply Z.div_lt_upper_bound; lia.
Qed.

(* the object after reading the fraction_lost property *)
Definition with_priors (s : stats) (e r : Z) : stats :=
  mkStats (base_seq s) (max_seq s) (cycles s) (packets_received s) (jitter_q4 s)
          (last_arrival s) (last_timestamp s) e r.

Lemma fraction_lost_est s b m la lt :
  est s b m la lt ->
  let E := cycles s + m - b + 1 in
  let s1 := with_priors s E (packets_received s) in
  fraction_lost s = Ok (rfc_fraction (E - expected_prior s) (packets_received s - received_prior s), s1)
  /\ est s1 b m la lt
  /\ 0 <= rfc_fraction (E - expected_prior s) (packets_received s - received_prior s) <= 255.
Proof.
  intros H. pose proof H as [Hb Hm Hla Hlt Rb Rm Hc Hext Hr HJ HE HR HER]. cbv zeta.
  split; [|split].
  - unfold fraction_lost. rewrite (packets_expected_est _ _ _ _ _ H). cbv zeta.
    unfold rfc_fraction, with_priors. rewrite shiftl_8.
    destruct ((cycles s + m - b + 1 - expected_prior s =? 0)
              || (cycles s + m - b + 1 - expected_prior s - (packets_received s - received_prior s) <=? 0));
      reflexivity.
  - constructor; cbn; try assumption; lia.
  - apply rfc_fraction_range; lia.
Qed.

(* ------------------------------------------------------------------ packing *)
Definition info_fits (i : rinfo) : Prop :=
  0 <= ri_fraction i < 256 /\ -8388608 <= ri_lost i < 8388608 /\
  0 <= ri_highest i < 4294967296 /\ 0 <= ri_jitter i < 4294967296 /\
  0 <= ri_lsr i < 4294967296 /\ 0 <= ri_dlsr i < 4294967296.

Lemma in_u32_true n : 0 <= n < 4294967296 -> in_u32 n = true.
Proof. intros H. unfold in_u32. apply andb_true_iff. split; [apply Z.leb_le|apply Z.ltb_lt]; lia. Qed.
Lemma in_u8_true n : 0 <= n < 256 -> in_u8 n = true.
Proof. intros H. unfold in_u8. apply andb_true_iff. split; [apply Z.leb_le|apply Z.ltb_lt]; lia. Qed.
Lemma in_i32_true n : -2147483648 <= n < 2147483648 -> in_i32 n = true.
Proof. intros H. unfold in_i32. apply andb_true_iff. split; [apply Z.leb_le|apply Z.ltb_lt]; lia. Qed.

Lemma rinfo_bytes_ok i :
  0 <= ri_ssrc i < 4294967296 -> info_fits i ->
  exists l, rinfo_bytes i = Ok l /\ length l = 24%nat /\ bytes_ok l.
Proof.
  intros Hs (Hf & Hl & Hh & Hj & Hlsr & Hd).
  unfold rinfo_bytes, pack_packets_lost.
  rewrite (in_u32_true _ Hs), (in_u8_true _ Hf), (in_i32_true (ri_lost i)) by lia.
  rewrite (in_u32_true _ Hh), (in_u32_true _ Hj), (in_u32_true _ Hlsr), (in_u32_true _ Hd).
  cbn [andb]. eexists. split; [reflexivity|]. split; [reflexivity|].
  unfold from.
  repeat (apply bytes_ok_app; split);
    try apply be32_ok; try apply be8_ok; try (apply bytes_ok_skipn; apply be32_ok).
Qed.

Lemma rr_bytes_ok rs i :
  0 <= rs < 4294967296 -> 0 <= ri_ssrc i < 4294967296 -> info_fits i ->
  exists l, rr_bytes rs i = Ok l /\ length l = 32%nat /\ bytes_ok l.
Proof.
  intros Hrs Hs Hi. destruct (rinfo_bytes_ok i Hs Hi) as (rb & Hrb & Hlen & Hok).
  unfold rr_bytes. rewrite (in_u32_true _ Hrs), Hrb. unfold pack_rtcp_packet.
  assert (Hl : len (be32 rs ++ rb) = 28).
  { unfold len. rewrite app_length, Hlen. reflexivity. }
  rewrite Hl. cbn -[be32 be16 be8 app].
  eexists. split; [reflexivity|]. split.
  - rewrite !app_length, Hlen. reflexivity.
  - repeat (apply bytes_ok_app; split); try apply be32_ok; try apply be8_ok; try apply be16_ok. exact Hok.
Qed.
