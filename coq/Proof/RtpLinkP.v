(* C11: sender stream -> arbitrary network -> video receiver.  Every arrival is a sent packet or
   the RTX wrapping of one; what the decoder gets is stated in terms of the SENDER's frames. *)
From Coq Require Import ZArith List Bool Lia.
From AV Require Import Lib.Bytes Lib.BytesP Lib.RtpX Gen.Utils Gen.RtpConst Model.Rtp Model.RtpRecv.
From AV Require Lib.CodecX Model.Jitter Proof.RtpPktP Proof.JitterP Proof.JitterInvP.
From AV Require Import Proof.SerialP Proof.RtpRecvNackP Proof.RtpRecvJbP Proof.RtpRecvP.
Import ListNotations.
Local Open Scope Z_scope.
Ltac Zify.zify_post_hook ::= Z.to_euclidean_division_equations.

Section Link.
Variable c : config.
Variables mpt mssrc : Z.        (* media payload type and SSRC *)
Variable k : ckind.             (* the media codec *)
Variable rpt : option Z.        (* negotiated RTX payload type, if any *)
Variable rssrc : Z.             (* RTX SSRC *)

(* the receiver's tables match what the sender uses *)
Definition link_ok : Prop :=
  assoc (codecs c) mpt = Some k /\ (forall apt, k <> KRtx apt) /\
  match rpt with
  | Some r => assoc (codecs c) r = Some (KRtx (Some mpt)) /\ assoc (rtx_ssrc c) rssrc = Some mssrc
  | None => True
  end.

Definition media_pkt (x : rtp) : Prop :=
  in16 (sequence_number x) /\ padding_size x = 0 /\ payload_type x = mpt /\ ssrc x = mssrc.

(* an arrival: a sent packet, or a retransmission of one as RTX (any RTX sequence number) *)
Definition from_sender (sent : list rtp) (a : rtp) : Prop :=
  In a sent \/ exists x r sq, In x sent /\ rpt = Some r /\ wrap_rtx x r sq rssrc = Ok a.

Variable sframes : list (list rtp).   (* the sender's non-empty frames, in order *)
Variable base : Z.                    (* first sequence number *)

Definition stream_ok : Prop :=
  0 <= base < 65536 /\
  (forall i x, nth_error (concat sframes) i = Some x -> sequence_number x = uint16_add base (Z.of_nat i)) /\
  Forall (fun g => g <> [] /\ exists t, Forall (fun x => timestamp x = t /\ media_pkt x) g) sframes.

(* different frames carry different RTP timestamps *)
Definition ts_apart : Prop :=
  forall g g' x x', In g sframes -> In g' sframes -> In x g -> In x' g' -> timestamp x = timestamp x' -> g = g'.

(* every payload is accepted by the depayloader (true of what the packetisers produce: C16) *)
Definition depayloadable : Prop :=
  Forall (Forall (fun x => exists d, data_of k x = CodecX.Ok d)) sframes.

Definition jp (x : rtp) : Jitter.pkt :=
  jpkt_of x (match data_of k x with CodecX.Ok d => d | _ => [] end).

Definition jframes : list (list Jitter.pkt) := map (map jp) sframes.

Hypothesis HL : link_ok.
Hypothesis HS : stream_ok.
Hypothesis HD : depayloadable.

Lemma sent_facts x : In x (concat sframes) -> media_pkt x /\ exists d, data_of k x = CodecX.Ok d.
Proof.
  intros H. apply in_concat in H. destruct H as (g & Hg & Hx). destruct HS as (_ & _ & HF).
  rewrite Forall_forall in HF. destruct (HF g Hg) as (_ & t & Ht). rewrite Forall_forall in Ht.
  split; [exact (proj2 (Ht x Hx))|]. unfold depayloadable in HD. rewrite Forall_forall in HD.
  specialize (HD g Hg). rewrite Forall_forall in HD. exact (HD x Hx).
Qed.

(* whichever way it travelled, the receiver recovers the sent packet *)
Lemma media_of_arrival a : from_sender (concat sframes) a ->
  exists x, In x (concat sframes) /\ media_of c a = Some (x, mpt, k).
Proof.
  destruct HL as (Hk & Hnr & Hr). intros [Hin|(x & r & sq & Hin & Er & Ew)].
  - exists a. split; [exact Hin|]. destruct (sent_facts a Hin) as [(_ & _ & Ept & _) _].
    unfold media_of, unwrap_stage. rewrite Ept, Hk. destruct k as [| | |apt]; try reflexivity.
    exfalso. exact (Hnr apt eq_refl).
  - exists x. split; [exact Hin|]. destruct (sent_facts x Hin) as [(Hs & Hp & Ept & Ess) _].
    rewrite Er in Hr. destruct Hr as [Hr1 Hr2].
    destruct (RtpPktP.rtx_inverse x r sq rssrc Hs) as (a' & Ew' & E1 & _ & E3 & _ & _ & _).
    destruct (RtpPktP.rtx_inverse_exact x r sq rssrc Hs Hp) as (a'' & Ew'' & Eu).
    rewrite Ew in Ew', Ew''. injection Ew' as <-. injection Ew'' as <-.
    unfold media_of, unwrap_stage. rewrite E1, Hr1, E3, Hr2.
    assert (Hlen : Nat.ltb (length (payload a)) 2 = false).
    { unfold wrap_rtx in Ew. destruct (u16ok (sequence_number x)); [|discriminate]. injection Ew as <-.
      cbn [payload]. apply Nat.ltb_ge. cbn. lia. }
    rewrite Hlen, Hk. rewrite Ept, Ess in Eu. rewrite Eu. reflexivity.
Qed.

Lemma jb_input_arrival a : from_sender (concat sframes) a ->
  exists x, In x (concat sframes) /\ jb_input c a = [jp x] /\ nack_input c a = [sequence_number x].
Proof.
  intros H. destruct (media_of_arrival a H) as (x & Hin & E). exists x. split; [exact Hin|].
  unfold jb_input, nack_input, jp. rewrite E. destruct (sent_facts x Hin) as [_ [d Ed]]. rewrite Ed. auto.
Qed.

Lemma In_jframes_concat x : In x (concat sframes) -> In (jp x) (concat jframes).
Proof.
  intros H. apply in_concat in H. destruct H as (g & Hg & Hx). apply in_concat. exists (map jp g).
  split; [apply in_map; exact Hg|apply in_map; exact Hx].
Qed.

Lemma arrivals_sent l : Forall (from_sender (concat sframes)) l ->
  Forall (sent jframes) (flat_map (jb_input c) l) /\ Forall JitterP.seq16 (flat_map (jb_input c) l).
Proof.
  induction 1 as [|a l Ha _ [IH1 IH2]]; [split; constructor|]. cbn [flat_map].
  destruct (jb_input_arrival a Ha) as (x & Hin & -> & _). cbn [app].
  split; constructor; try assumption.
  - apply In_jframes_concat. exact Hin.
  - unfold JitterP.seq16, jp, jpkt_of. cbn [Jitter.pseq]. destruct (sent_facts x Hin) as [(Hs & _) _]. exact Hs.
Qed.

(* ---- the stream as the jitter buffer sees it --------------------------------------------- *)
Lemma numbered_split {A} (f : A -> Z) b (g : list A) rest :
  (forall i x, nth_error (g ++ rest) i = Some x -> f x = uint16_add b (Z.of_nat i)) ->
  (forall i x, nth_error g i = Some x -> f x = uint16_add b (Z.of_nat i)) /\
  (forall i x, nth_error rest i = Some x -> f x = uint16_add (uint16_add b (Z.of_nat (length g))) (Z.of_nat i)).
Proof.
  intros H. split.
  - intros i x E. apply H. rewrite nth_error_app1; [exact E|]. eapply JitterP.nth_error_some_lt. exact E.
  - intros i x E. rewrite (H (length g + i)%nat x).
    + rewrite !uint16_add_mod. lia.
    + rewrite nth_error_app2 by lia. replace (length g + i - length g)%nat with i by lia. exact E.
Qed.

Lemma frames_numbered : forall (fs : list (list rtp)) b,
  (forall i x, nth_error (concat fs) i = Some x -> sequence_number x = uint16_add b (Z.of_nat i)) ->
  forall g, In g fs -> exists b', 0 <= b' < 65536 /\
    forall i x, nth_error g i = Some x -> sequence_number x = uint16_add b' (Z.of_nat i).
Proof.
  induction fs as [|g0 fs IH]; intros b H g Hg; [destruct Hg|]. cbn [concat] in H.
  destruct (numbered_split sequence_number b g0 (concat fs) H) as [H1 H2].
  destruct Hg as [<-|Hg].
  - exists (uint16_add b 0). split; [apply uint16_add_range|]. intros i x E. rewrite (H1 i x E), !uint16_add_mod. lia.
  - exact (IH _ H2 g Hg).
Qed.

Hypothesis HT : ts_apart.

Lemma jframes_ts : ts_distinct jframes.
Proof.
  intros gj gj' p p' Hg Hg' Hp Hp' E. unfold jframes in *.
  apply in_map_iff in Hg. destruct Hg as (g & <- & Hg). apply in_map_iff in Hg'. destruct Hg' as (g' & <- & Hg').
  apply in_map_iff in Hp. destruct Hp as (x & <- & Hx). apply in_map_iff in Hp'. destruct Hp' as (x' & <- & Hx').
  f_equal. exact (HT g g' x x' Hg Hg' Hx Hx' E).
Qed.

Lemma jframes_ok : Forall (fun g => Z.of_nat (length g) < 65536) sframes -> Forall frame_ok jframes.
Proof.
  intros Hlen. apply Forall_forall. intros gj Hgj. unfold jframes in Hgj. apply in_map_iff in Hgj.
  destruct Hgj as (g & <- & Hg). destruct HS as (Hb & Hnum & HF). rewrite Forall_forall in HF, Hlen.
  destruct (HF g Hg) as (Hne & t & Ht). rewrite Forall_forall in Ht.
  destruct (frames_numbered sframes base Hnum g Hg) as (b' & Hb' & Hn').
  split; [destruct g; [congruence|discriminate]|]. split; [rewrite map_length; exact (Hlen g Hg)|].
  exists b', t. split; [exact Hb'|]. intros j p E. rewrite nth_error_map in E.
  destruct (nth_error g j) as [x|] eqn:Ex; [|discriminate]. injection E as <-.
  unfold jp, jpkt_of. cbn [Jitter.pseq Jitter.pts]. split; [exact (Hn' j x Ex)|].
  apply Ht. eapply nth_error_In. exact Ex.
Qed.

Lemma jframes_seq : Z.of_nat (length (concat sframes)) <= 65536 -> seq_distinct jframes.
Proof.
  intros Hlen p q Hp Hq E. unfold jframes in *.
  assert (Hc : forall fs : list (list rtp), concat (map (map jp) fs) = map jp (concat fs)).
  { induction fs as [|g fs IH]; [reflexivity|]. cbn [map concat]. rewrite map_app, IH. reflexivity. }
  rewrite Hc in Hp, Hq.
  apply in_map_iff in Hp. destruct Hp as (x & <- & Hx). apply in_map_iff in Hq. destruct Hq as (y & <- & Hy).
  f_equal. apply In_nth_error in Hx. destruct Hx as [i Ei]. apply In_nth_error in Hy. destruct Hy as [j Ej].
  destruct HS as (Hb & Hnum & _).
  pose proof (Hnum i x Ei) as Ex. pose proof (Hnum j y Ej) as Ey.
  pose proof (JitterP.nth_error_some_lt _ _ _ Ei). pose proof (JitterP.nth_error_some_lt _ _ _ Ej).
  unfold jp, jpkt_of in E. cbn [Jitter.pseq] in E. rewrite Ex, Ey, !uint16_add_mod in E.
  assert (i = j) by lia. subst j. congruence.
Qed.

Lemma init_reaches jl jb' jouts :
  Jitter.run (jbuf init_video) jl = Jitter.Ok (jb', jouts) -> JitterInvP.reaches 128 0 true jl jb' jouts.
Proof. intros E. eexists. split; [reflexivity|exact E]. Qed.

Lemma cap_ok_128 : JitterP.cap_ok 128.
Proof. exists 7. split; [lia|reflexivity]. Qed.

(* C11_frame_identity: never a splice *)
Theorem frames_unspliced arrivals s outs :
  Forall (fun g => Z.of_nat (length g) < 65536) sframes ->
  Forall (from_sender (concat sframes)) arrivals ->
  run c init_video arrivals = Ok (s, outs) ->
  Forall (fun o => match o_frame o with Some (_, _, d) => part_data jframes d | None => True end) outs.
Proof.
  intros Hlen HA ER. destruct (run_factor c arrivals _ _ _ ER) as (_ & jouts & EJ & AL).
  destruct (arrivals_sent arrivals HA) as [S1 S2].
  eapply aligned_parts; [exact AL|].
  eapply (jitter_parts jframes 128 0 true); try eassumption.
  - exact cap_ok_128.
  - apply jframes_ok. exact Hlen.
  - exact jframes_ts.
  - apply init_reaches. exact EJ.
Qed.

(* C11_frame_whole *)
Theorem frames_whole arrivals s outs :
  Z.of_nat (length (concat sframes)) < 65536 -> rtcp_ssrc c <> None ->
  Forall (from_sender (concat sframes)) arrivals ->
  run c init_video arrivals = Ok (s, outs) ->
  pscan jframes false outs.
Proof.
  intros Hlen Hr HA ER. destruct (run_factor c arrivals _ _ _ ER) as (_ & jouts & EJ & AL).
  destruct (arrivals_sent arrivals HA) as [S1 S2].
  assert (Hb : is_some (rtcp_ssrc c) = true) by (destruct (rtcp_ssrc c); [reflexivity|congruence]).
  rewrite Hb in AL. eapply aligned_scan; [exact AL|].
  eapply (jitter_scan jframes 128 0); try eassumption.
  - exact cap_ok_128.
  - apply jframes_ok. apply Forall_forall. intros g Hg.
    assert (length g <= length (concat sframes))%nat; [|lia].
    clear - Hg. induction sframes as [|g0 fs IH]; [destruct Hg|]. cbn [concat]. rewrite app_length.
    destruct Hg as [->|Hg]; [lia|]. specialize (IH Hg). lia.
  - exact jframes_ts.
  - apply jframes_seq. lia.
  - apply init_reaches. exact EJ.
Qed.

End Link.
