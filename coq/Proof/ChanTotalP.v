(* C05: the DCEP OPEN parser of _data_channel_receive cannot fail on a message of at least
   12 bytes, so recv_dcep never reports a parse crash (EvRaise 4) for any byte string. *)
From Coq Require Import ZArith List Bool Lia.
From AV Require Import Lib.Bytes Lib.BytesP Gen.SctpConst Model.Chan.
Import ListNotations.
Local Open Scope Z_scope.

Lemma dcep_parse_open_total data : 12 <= len data -> dcep_parse_open data <> None.
Proof.
  intros H. unfold dcep_parse_open. unfold len in H.
  destruct (u8_some data 1) as [a ->]; [lia|].
  destruct (u32_some data 4) as [b ->]; [lia|].
  destruct (u16_some data 8) as [c ->]; [lia|].
  destruct (u16_some data 10) as [d ->]; [lia|]. discriminate.
Qed.

Lemma flush_loop_no_raise4 : forall fuel st orc, ~ In (EvRaise 4) (snd (flush_loop fuel st orc)).
Proof.
  induction fuel as [|f IH]; intros st orc; cbn [flush_loop]; [intros []|].
        destruct (queue st) as [|[[hh pp] d] q]; [intros []|].
        destruct (ch_id (getc (set_queue st q) hh)) as [i|].
        - destruct (pp =? WEBRTC_DCEP).
          + destruct (match orc with b :: _ => b | [] => false end); cbn [snd].
            * intros [X|[]]; discriminate.
            * destruct (flush_loop f _ (tl orc)) as [s4 ev2] eqn:E. cbn [snd]. intros Hin.
              apply in_app_or in Hin as [[X|[]]|Hin]; [discriminate|]. revert Hin. change ev2 with (snd (s4, ev2)). rewrite <- E. apply IH.
          + unfold add_buffered. destruct (_ && _);
              destruct (match orc with b :: _ => b | [] => false end); cbn [snd];
              try (intros [X|[X|[]]]; discriminate); try (intros [X|[]]; discriminate).
            * destruct (flush_loop f _ (tl orc)) as [s4 ev2] eqn:E. cbn [snd]. intros Hin.
              apply in_app_or in Hin as [[X|[X|[]]]|Hin]; try discriminate. revert Hin. change ev2 with (snd (s4, ev2)). rewrite <- E. apply IH.
            * destruct (flush_loop f _ (tl orc)) as [s4 ev2] eqn:E. cbn [snd]. intros Hin.
              apply in_app_or in Hin as [[X|[]]|Hin]; try discriminate. revert Hin. change ev2 with (snd (s4, ev2)). rewrite <- E. apply IH.
        - destruct (pp =? WEBRTC_DCEP).
          + destruct (match orc with b :: _ => b | [] => false end); cbn [snd].
            * intros [X|[]]; discriminate.
            * destruct (flush_loop f _ (tl orc)) as [s4 ev2] eqn:E. cbn [snd]. intros Hin.
              apply in_app_or in Hin as [[X|[]]|Hin]; [discriminate|]. revert Hin. change ev2 with (snd (s4, ev2)). rewrite <- E. apply IH.
          + unfold add_buffered. destruct (_ && _);
              destruct (match orc with b :: _ => b | [] => false end); cbn [snd];
              try (intros [X|[X|[]]]; discriminate); try (intros [X|[]]; discriminate).
            * destruct (flush_loop f _ (tl orc)) as [s4 ev2] eqn:E. cbn [snd]. intros Hin.
              apply in_app_or in Hin as [[X|[X|[]]]|Hin]; try discriminate. revert Hin. change ev2 with (snd (s4, ev2)). rewrite <- E. apply IH.
            * destruct (flush_loop f _ (tl orc)) as [s4 ev2] eqn:E. cbn [snd]. intros Hin.
              apply in_app_or in Hin as [[X|[]]|Hin]; try discriminate. revert Hin. change ev2 with (snd (s4, ev2)). rewrite <- E. apply IH.
Qed.

Theorem recv_dcep_never_crashes s sidv data ok oracle :
  ~ In (EvRaise 4) (snd (recv_dcep s sidv data ok oracle)).
Proof.
  unfold recv_dcep. destruct data as [|msg_type rest]; [intros []|].
  destruct ((msg_type =? DATA_CHANNEL_OPEN) && (12 <=? len (msg_type :: rest))) eqn:E.
  - apply andb_true_iff in E as [_ E]. apply Z.leb_le in E.
    destruct (tget (table s) sidv); [intros []|].
    destruct (dcep_parse_open (msg_type :: rest)) as [p|] eqn:Ep; [|exfalso; now apply (dcep_parse_open_total _ E)].
    destruct (negb ok); [intros []|].
    destruct (add_chan s _) as [s1 h]. destruct (set_ready s1 h Open) as [s2 e1] eqn:E1.
    destruct (flush _ oracle) as [s5 e2] eqn:E2. cbn [snd].
    intros Hin. apply in_app_or in Hin as [Hin|Hin].
    + unfold set_ready in E1. destruct (rstate_eqb _ _); injection E1 as _ <-; [destruct Hin|destruct Hin as [X|[]]; discriminate].
    + apply in_app_or in Hin as [Hin|[X|[]]]; [|discriminate].
      (* flush emits only EvSend / EvLow *)
      revert Hin. unfold flush in E2 |- *.
      intros Hin. destruct (established _ && _).
      * eapply flush_loop_no_raise4. rewrite E2. exact Hin.
      * injection E2 as _ <-. destruct Hin.
  - destruct (msg_type =? DATA_CHANNEL_ACK); [|intros []].
    destruct (tget (table s) sidv) as [h|]; [|intros []].
    unfold set_ready. destruct (rstate_eqb (ch_state (getc s h)) Connecting); [|intros []].
    destruct (rstate_eqb _ Open); cbn [snd]; [intros []|intros [X|[]]; discriminate].
Qed.
