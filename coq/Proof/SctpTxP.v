(* C02: no-deadlock invariants of the sender (Model/SctpTx.v) for every input history. *)
From Coq Require Import ZArith List Bool Lia.
From AV Require Import Lib.Bytes Gen.Utils Gen.SctpConst Model.SctpTx.
Import ListNotations.
Local Open Scope Z_scope.

Definition infl (c : sc) : bool := negb (c_acked c) && negb (c_abandoned c) && negb (c_retx c).
Definition w (c : sc) : Z := if infl c then c_book c else 0.
Definition fsum (l : list sc) : Z := fold_right (fun c acc => w c + acc) 0 l.
Definition bok (c : sc) : Prop := 0 <= c_book c.
Definition fresh (c : sc) : Prop := c_acked c = false /\ c_abandoned c = false /\ c_retx c = false.
Definition rxok (c : sc) : Prop := c_retx c = true -> c_abandoned c = false.
Definition abrx (c : sc) : Prop := c_abandoned c = true \/ c_retx c = true.

Lemma fsum_app a b : fsum (a ++ b) = fsum a + fsum b.
Proof. unfold fsum. induction a as [|c a IH]; cbn [app fold_right]; [lia|]. rewrite IH. lia. Qed.
Lemma fsum_cons c a : fsum (c :: a) = w c + fsum a. Proof. reflexivity. Qed.
Lemma fsum_nil : fsum [] = 0. Proof. reflexivity. Qed.
Lemma fsum_rev a : fsum (rev a) = fsum a.
Proof. induction a as [|c a IH]; cbn [rev]; [reflexivity|]. rewrite fsum_app, IH, !fsum_cons, fsum_nil. lia. Qed.
Lemma w_range c : bok c -> 0 <= w c <= c_book c.
Proof. unfold w, bok. destruct (infl c); lia. Qed.
Lemma fsum_nonneg l : Forall bok l -> 0 <= fsum l.
Proof. induction 1 as [|c l Hc Hl IH]; [rewrite fsum_nil; lia|]. rewrite fsum_cons. pose proof (w_range c Hc). lia. Qed.

Lemma MTU_val : MTU = 1200. Proof. reflexivity. Qed.

(* ---------------------------------------------------------------- abandon primitives *)
Lemma abandon_sibling fl c : bok c -> 0 <= fl ->
  let '(fl', c') := abandon_chunk fl c true in
  fl' = Z.max 0 (fl - w c) /\ w c' = 0 /\ c_book c' = c_book c /\ c_abandoned c' = true /\ c_retx c' = false /\
  c_first c' = c_first c /\ c_last c' = c_last c.
Proof.
  intros Hb Hfl. unfold abandon_chunk, w, infl, dec, set_flags. cbn.
  destruct (c_acked c), (c_abandoned c), (c_retx c); cbn; repeat split; try lia.
Qed.

(* a region of the queue processed by a marking loop: flight may only lose what the region loses *)
Definition mark_ok (fl : Z) (l : list sc) (fl' : Z) (l' : list sc) : Prop :=
  0 <= fl' /\ fl' <= Z.max 0 (fl - (fsum l - fsum l')) /\ fsum l' <= fsum l /\
  Forall bok l' /\ Forall rxok l' /\ length l' = length l /\
  (forall P : sc -> Prop, (forall c, abrx c -> P c) -> Forall (fun c => abrx c \/ P c) l -> Forall (fun c => abrx c \/ P c) l').

Lemma abrx_keep (l l' : list sc) :
  Forall2 (fun c c' => abrx c -> abrx c') l l' -> Forall abrx l -> Forall abrx l'.
Proof. induction 1 as [|x y l l' Hxy Hl IH]; intros Ha; inversion Ha; subst; constructor; auto. Qed.

Lemma mark_back_ok : forall pre fl, Forall bok pre -> Forall rxok pre -> 0 <= fl ->
  let '(fl', pre') := mark_back fl pre in
  0 <= fl' /\ fl' <= Z.max 0 (fl - (fsum pre - fsum pre')) /\ fsum pre' <= fsum pre /\
  Forall bok pre' /\ Forall rxok pre' /\
  Forall2 (fun c c' => abrx c -> abrx c') pre pre'.
Proof.
  induction pre as [|c pre IH]; intros fl Hb Hr Hfl; cbn [mark_back].
  - repeat split; try lia; constructor.
  - inversion Hb as [|? ? Hc Hb']; subst. inversion Hr as [|? ? Hrc Hr']; subst.
    pose proof (abandon_sibling fl c Hc Hfl) as Ha. destruct (abandon_chunk fl c true) as [fl1 c1].
    destruct Ha as (E1 & W1 & B1 & A1 & R1 & _).
    pose proof (w_range c Hc) as Hw.
    assert (Hc1 : bok c1) by (unfold bok; lia).
    assert (Hr1 : rxok c1) by (intros X; congruence).
    assert (H2 : Forall2 (fun c c' => abrx c -> abrx c') pre pre).
    { clear. induction pre; constructor; auto. }
    destruct (c_first c).
    + rewrite !fsum_cons, W1. repeat split; try lia; try (constructor; assumption).
      constructor; [intros _; left; exact A1|exact H2].
    + assert (Hfl1 : 0 <= fl1) by lia.
      specialize (IH fl1 Hb' Hr' Hfl1). destruct (mark_back fl1 pre) as [fl2 pre2].
      destruct IH as (I1 & I2 & I3 & I4 & I5 & I6).
      rewrite !fsum_cons, W1. repeat split; try lia; try (constructor; assumption).
      constructor; [intros _; left; exact A1|exact I6].
Qed.

Lemma mark_fwd_ok : forall post fl, Forall bok post -> Forall rxok post -> 0 <= fl ->
  let '(fl', post', found) := mark_fwd fl post in
  0 <= fl' /\ fl' <= Z.max 0 (fl - (fsum post - fsum post')) /\ fsum post' <= fsum post /\
  Forall bok post' /\ Forall rxok post' /\
  Forall2 (fun c c' => abrx c -> abrx c') post post' /\
  (found = false -> Forall abrx post').
Proof.
  induction post as [|c post IH]; intros fl Hb Hr Hfl; cbn [mark_fwd].
  - repeat split; try lia; constructor.
  - inversion Hb as [|? ? Hc Hb']; subst. inversion Hr as [|? ? Hrc Hr']; subst.
    pose proof (abandon_sibling fl c Hc Hfl) as Ha. destruct (abandon_chunk fl c true) as [fl1 c1].
    destruct Ha as (E1 & W1 & B1 & A1 & R1 & _).
    pose proof (w_range c Hc) as Hw.
    assert (Hc1 : bok c1) by (unfold bok; lia).
    assert (Hr1 : rxok c1) by (intros X; congruence).
    assert (H2 : Forall2 (fun c c' => abrx c -> abrx c') post post).
    { clear. induction post; constructor; auto. }
    destruct (c_last c).
    + rewrite !fsum_cons, W1. repeat split; try lia; try (constructor; assumption); try discriminate.
      constructor; [intros _; left; exact A1|exact H2].
    + assert (Hfl1 : 0 <= fl1) by lia.
      specialize (IH fl1 Hb' Hr' Hfl1). destruct (mark_fwd fl1 post) as [[fl2 post2] found].
      destruct IH as (I1 & I2 & I3 & I4 & I5 & I6 & I7).
      rewrite !fsum_cons, W1. repeat split; try lia; try (constructor; assumption).
      * constructor; [intros _; left; exact A1|exact I6].
      * intros Hf. constructor; [left; exact A1|now apply I7].
Qed.

Lemma pull_unsent_ok : forall oq, Forall bok oq -> Forall fresh oq ->
  let '(mv, rest) := pull_unsent oq in
  fsum mv = 0 /\ Forall bok mv /\ Forall rxok mv /\ Forall abrx mv /\ Forall bok rest /\ Forall fresh rest /\
  (length mv + length rest = length oq)%nat.
Proof.
  induction oq as [|c oq IH]; intros Hb Hf; cbn [pull_unsent].
  - repeat split; constructor.
  - inversion Hb as [|? ? Hc Hb']; subst. inversion Hf as [|? ? Hfc Hf']; subst.
    assert (W1 : w (snd (abandon_chunk 0 c false)) = 0) by (unfold abandon_chunk, w, infl, set_flags; cbn; now destruct (c_acked c)).
    assert (B1 : bok (snd (abandon_chunk 0 c false))) by exact Hc.
    assert (R1 : rxok (snd (abandon_chunk 0 c false))) by (intros X; discriminate X).
    assert (A1 : abrx (snd (abandon_chunk 0 c false))) by (left; reflexivity).
    destruct (c_last c).
    + rewrite fsum_cons, W1. repeat split; try (constructor; auto; fail); auto; cbn [length fsum fold_right]; lia.
    + specialize (IH Hb' Hf'). destruct (pull_unsent oq) as [mv rest].
      destruct IH as (I1 & I2 & I3 & I4 & I5 & I6 & I7).
      rewrite fsum_cons, W1, I1. repeat split; try (constructor; auto; fail); auto; cbn [length]; lia.
Qed.

Lemma Forall2_len {A B} (R : A -> B -> Prop) l l' : Forall2 R l l' -> length l = length l'.
Proof. induction 1; cbn [length]; congruence. Qed.

(* the whole _maybe_abandon on a zipper *)
Lemma Forall2_refl_abrx (l : list sc) : Forall2 (fun c c' : sc => abrx c -> abrx c') l l.
Proof. induction l; constructor; auto. Qed.

Lemma maybe_abandon_ok fl pre cur post oq now :
  Forall bok pre -> Forall rxok pre -> bok cur -> rxok cur -> Forall bok post -> Forall rxok post ->
  Forall bok oq -> Forall fresh oq -> 0 <= fl ->
  let '(ab, fl', pre', cur', post', oq') := maybe_abandon fl pre cur post oq now in
  0 <= fl' /\
  fl' <= Z.max 0 (fl - ((fsum pre + fsum post) - (fsum pre' + fsum post'))) /\
  fsum pre' + fsum post' <= fsum pre + fsum post /\
  Forall bok pre' /\ Forall rxok pre' /\ bok cur' /\ rxok cur' /\ Forall bok post' /\ Forall rxok post' /\
  Forall bok oq' /\ Forall fresh oq' /\
  c_book cur' = c_book cur /\
  (ab = true -> c_abandoned cur' = true /\ c_retx cur' = false) /\
  (ab = false -> cur' = cur /\ c_abandoned cur = false) /\
  (Forall abrx pre -> Forall abrx pre') /\
  (Forall2 (fun c c' => abrx c -> abrx c') post (firstn (length post) post')) /\
  Forall abrx (skipn (length post) post') /\
  (length post <= length post')%nat.
Proof.
  intros Hbp Hrp Hbc Hrc Hbq Hrq Hbo Hfo Hfl. unfold maybe_abandon.
  pose proof (Forall2_refl_abrx post) as Hid.
  assert (Hnil : Forall abrx []) by constructor.
  assert (Hle : (length post <= length post)%nat) by lia.
  destruct (c_abandoned cur) eqn:Eab.
  { assert (X : c_retx cur = false).
    { destruct (c_retx cur) eqn:Er; [|reflexivity]. specialize (Hrc Er). congruence. }
    rewrite firstn_all, skipn_all. repeat split; auto; try lia; try congruence. }
  destruct (negb (should_abandon cur now)).
  { rewrite firstn_all, skipn_all. repeat split; auto; try lia; try congruence. }
  cbn [abandon_chunk andb].
  set (cur1 := set_flags cur (c_acked cur) true false (c_misses cur) (c_sent_count cur)).
  assert (Hb1 : bok cur1) by exact Hbc.
  assert (Hr1 : rxok cur1) by (intros X; discriminate X).
  assert (Z1 : c_book cur1 = c_book cur) by reflexivity.
  (* backwards *)
  set (pb := if c_first cur then (fl, pre) else mark_back fl pre).
  assert (Hpb : 0 <= fst pb /\ fst pb <= Z.max 0 (fl - (fsum pre - fsum (snd pb))) /\ fsum (snd pb) <= fsum pre /\
                Forall bok (snd pb) /\ Forall rxok (snd pb) /\ (Forall abrx pre -> Forall abrx (snd pb))).
  { unfold pb. destruct (c_first cur); cbn [fst snd].
    - repeat split; auto; lia.
    - pose proof (mark_back_ok pre fl Hbp Hrp Hfl) as H. destruct (mark_back fl pre) as [f p]. cbn [fst snd].
      destruct H as (H1 & H2 & H3 & H4 & H5 & H6). repeat split; auto. intros Ha. eapply abrx_keep; eauto. }
  destruct pb as [fl1 pre1]. cbn [fst snd] in Hpb. destruct Hpb as (P1 & P2 & P3 & P4 & P5 & P6).
  destruct (c_last cur).
  { rewrite firstn_all, skipn_all. repeat split; auto; try lia; try congruence. }
  pose proof (mark_fwd_ok post fl1 Hbq Hrq P1) as Hf. destruct (mark_fwd fl1 post) as [[fl2 post2] found].
  destruct Hf as (F1 & F2 & F3 & F4 & F5 & F6 & F7).
  assert (Hlen : length post2 = length post) by (symmetry; eapply Forall2_len; eauto).
  assert (Hle2 : (length post <= length post2)%nat) by lia.
  destruct found.
  { rewrite <- Hlen, firstn_all, skipn_all. repeat split; auto; try lia; try congruence. }
  pose proof (pull_unsent_ok oq Hbo Hfo) as Hu. destruct (pull_unsent oq) as [mv rest].
  destruct Hu as (U1 & U2 & U3 & U4 & U5 & U6 & U7).
  assert (A1 : Forall bok (post2 ++ mv)) by (apply Forall_app; split; assumption).
  assert (A2 : Forall rxok (post2 ++ mv)) by (apply Forall_app; split; assumption).
  assert (A3 : (length post <= length (post2 ++ mv))%nat) by (rewrite app_length; lia).
  rewrite fsum_app, U1, <- Hlen, firstn_app, firstn_all, Nat.sub_diag, skipn_app, skipn_all, Nat.sub_diag.
  cbn [firstn skipn app]. rewrite app_nil_r. rewrite Hlen in *.
  repeat split; auto; try lia; try congruence.
Qed.
